#!/bin/sh
# builds every harness variant from files on disk only
set -e
cd "$(dirname "$0")"
exec ./check --setup
