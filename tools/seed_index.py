#!/usr/bin/env python3
"""Regenerates seeded/INDEX.md from seeded/*/meta.json (run after adding or re-testing a seed)."""
import json, os

ROOT = os.path.join(os.path.dirname(os.path.abspath(__file__)), "..", "seeded")
rows = []
for d in sorted(os.listdir(ROOT)):
    m = os.path.join(ROOT, d, "meta.json")
    if not os.path.isfile(m):
        continue
    j = json.load(open(m))
    det = j.get("detection", {})
    flat = lambda x: (" ".join(map(str, x)) if isinstance(x, list) else str(x)).replace("\n", " ")
    rows.append((d, j.get("property", "?"), flat(j.get("summary", ""))[:160], flat(j.get("needs", ""))[:120],
                 det.get("check", "?"), det.get("result", "?"), det.get("classes", "")))
with open(os.path.join(ROOT, "INDEX.md"), "w") as f:
    f.write("# Seeded property-breaking changes\n\n")
    f.write("Each directory holds `patch.diff` (apply with `git -C /repo apply`), the author's demonstration, and `meta.json`\n")
    f.write("(what it breaks, what it needs to manifest, what was run, and how the checks reacted). All were written by\n")
    f.write("sub-agents that saw only the property text and a scratch worktree; every one compiles and passes the\n")
    f.write("repository's own test suite (re-confirmed here), and none is ever committed to /repo.\n\n")
    f.write("| seed | property | change | needs | check(s) run | result | violation classes |\n|---|---|---|---|---|---|---|\n")
    for r in rows:
        f.write("| " + " | ".join(str(x).replace("|", "/") for x in r) + " |\n")
print(f"{len(rows)} seeds indexed")
