#!/bin/sh
# try_seed.sh <seed-dir> <Cxx> [tier]  — applies a seeded change to /repo, runs the check, reverts.
# The working tree of /repo must be clean; it is restored with `git checkout -- .` afterwards.
set -u
SEED="$1"; PROP="$2"; TIER="${3:-quick}"
if [ -n "$(git -C /repo status --porcelain)" ]; then echo "refusing: /repo is not clean"; exit 2; fi
git -C /repo apply "$SEED/patch.diff" || { echo "patch does not apply"; exit 2; }
cd "${VERIF_ROOT:-/verif}" && ./check "$PROP" --tier "$TIER"; rc=$?
git -C /repo checkout -- .
echo "check exit code with the seeded change: $rc"
exit 0
