#!/bin/bash
# confirm_seed.sh <worktree> <seed-name> <prop> "<demo cargo command>" <demo file rel path>
# Re-confirms a sub-agent's seeded change in its scratch worktree (suite passes with the change,
# demo fails with it and passes without it), copies the deliverables to /verif/seeded/<seed-name>/,
# then applies the patch to /repo, runs the property's quick check and reverts /repo.
set -u
WT="$1"; NAME="$2"; PROP="$3"; DEMO_CMD="$4"; DEMO_FILE="$5"
OUT=/verif/seeded/$NAME
mkdir -p "$OUT"
cp "$WT/_seed/patch.diff" "$WT/_seed/meta.json" "$OUT/" || exit 2
cp "$WT/_seed/"demo* "$OUT/" 2>/dev/null
cd "$WT" || exit 2
# 1. suite with the change (demo moved away)
mkdir -p /tmp/seed/_hold && mv "$WT/$DEMO_FILE" /tmp/seed/_hold/demo_$NAME.rs 2>/dev/null
( cargo test --workspace --no-fail-fast --offline 2>&1 | grep -E "^error|test result|FAILED|panicked" | awk '/test result/{p+=$4; f+=$6; next} {print} END {print "SUITE passed",p,"failed",f}' ) > "$OUT/confirm_suite_with_change.txt"
tail -1 "$OUT/confirm_suite_with_change.txt"
mv /tmp/seed/_hold/demo_$NAME.rs "$WT/$DEMO_FILE" 2>/dev/null
# 2. demo with the change
( eval "$DEMO_CMD" 2>&1 | grep -E "^error|test result|FAILED|panicked|passed|failed" | tail -8 ) > "$OUT/confirm_demo_with_change.txt"
echo "demo WITH change:"; tail -2 "$OUT/confirm_demo_with_change.txt"
# 3. demo without the change
git apply -R "$OUT/patch.diff" || { echo "cannot reverse patch"; exit 2; }
( eval "$DEMO_CMD" 2>&1 | grep -E "^error|test result|FAILED|panicked|passed|failed" | tail -8 ) > "$OUT/confirm_demo_without_change.txt"
echo "demo WITHOUT change:"; tail -2 "$OUT/confirm_demo_without_change.txt"
git apply "$OUT/patch.diff"
# 4. my check against it
if [ -n "$(git -C /repo status --porcelain)" ]; then echo "refusing: /repo is not clean"; exit 2; fi
git -C /repo apply "$OUT/patch.diff" || { echo "patch does not apply to /repo"; exit 2; }
cd "${VERIF_ROOT:-/verif}" && ./check "$PROP" --tier quick > "$OUT/check_${PROP}_quick.txt" 2>&1; rc=$?
git -C /repo checkout -- .
echo "check $PROP exit code with the seeded change: $rc"; grep -E "^VIOLATION|class=|\[quick\]" "$OUT/check_${PROP}_quick.txt" | head -8
