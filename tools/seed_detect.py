#!/usr/bin/env python3
"""Fills the `detection` and `confirmed_here` fields of seeded/*/meta.json from the files the
confirmation tools wrote next to it (check_<prop>_*.txt, confirm_*.txt), then rebuilds INDEX.md."""
import glob, json, os, re, subprocess

ROOT = os.path.join(os.path.dirname(os.path.abspath(__file__)), "..", "seeded")
for d in sorted(os.listdir(ROOT)):
    mp = os.path.join(ROOT, d, "meta.json")
    if not os.path.isfile(mp):
        continue
    m = json.load(open(mp))
    conf = {}
    for name in ("confirm_suite_with_change.txt", "confirm_demo_with_change.txt", "confirm_demo_without_change.txt"):
        p = os.path.join(ROOT, d, name)
        if os.path.isfile(p):
            lines = [l.strip() for l in open(p) if l.strip()]
            conf[name.replace("confirm_", "").replace(".txt", "")] = lines[-1] if lines else ""
    if conf:
        m["confirmed_here"] = conf
    runs = []
    for p in sorted(glob.glob(os.path.join(ROOT, d, "check_*.txt"))):
        txt = open(p).read()
        prop = re.search(r"check_(C\d\d)", os.path.basename(p)).group(1)
        classes = sorted(set(re.findall(r"class=(\S+)", txt)))
        viol = len(re.findall(r"^VIOLATION", txt, re.M))
        summary = re.findall(r"^C\d\d \[\w+\].*$", txt, re.M)
        runs.append({"file": os.path.basename(p), "check": prop, "violation_lines": viol, "classes": classes[:8], "summary": summary[-1] if summary else ""})
    if runs:
        # per check: the plain file is the run against the check as it stood, the *_after_strengthening
        # file the run against the strengthened check
        per = {}
        for r in runs:
            st = per.setdefault(r["check"], {"before": None, "after": None})
            k = "after" if "after_strengthening" in r["file"] else "before"
            if any(c.startswith("MACHINERY") for c in r["classes"]) or (r["violation_lines"] == 0 and not r["summary"]):
                st[k] = "machinery error"
            else:
                st[k] = "caught" if r["violation_lines"] > 0 else "MISSED"
        parts = []
        for c, st in sorted(per.items()):
            if st["before"] == "caught":
                parts.append(f"{c}: caught")
            elif st["after"] == "caught":
                parts.append(f"{c}: {st['before'] or 'not run'} as built, caught after strengthening")
            else:
                parts.append(f"{c}: {st['before'] or st['after']}")
        own = m.get("property")
        caught_any = any(st["before"] == "caught" or st["after"] == "caught" for st in per.values())
        m["detection"] = {
            "check": ", ".join(sorted(per)),
            "result": ("caught" if caught_any else "MISSED") + " (" + "; ".join(parts) + ")",
            "classes": "; ".join(sorted(set(c for r in runs for c in r["classes"])))[:300],
            "runs": runs,
        }
    if m.get("masked_by") and "detection" in m:
        m["detection"]["result"] = "masked: " + m["masked_by"]
    json.dump(m, open(mp, "w"), indent=1)
subprocess.run(["python3", os.path.join(os.path.dirname(os.path.abspath(__file__)), "seed_index.py")])
