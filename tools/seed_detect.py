#!/usr/bin/env python3
"""Fills the `detection` and `confirmed_here` fields of seeded/*/meta.json from the files the
confirmation tools wrote next to it (check_<prop>_*.txt, confirm_*.txt), then rebuilds INDEX.md."""
import glob, json, os, re, subprocess

ROOT = os.path.join(os.path.dirname(os.path.abspath(__file__)), "..", "seeded")
for d in sorted(os.listdir(ROOT)):
    mp = os.path.join(ROOT, d, "meta.json")
    if not os.path.isfile(mp):
        continue
    m = json.load(open(mp))
    conf = {}
    for name in ("confirm_suite_with_change.txt", "confirm_demo_with_change.txt", "confirm_demo_without_change.txt"):
        p = os.path.join(ROOT, d, name)
        if os.path.isfile(p):
            lines = [l.strip() for l in open(p) if l.strip()]
            conf[name.replace("confirm_", "").replace(".txt", "")] = lines[-1] if lines else ""
    if conf:
        m["confirmed_here"] = conf
    runs = []
    for p in sorted(glob.glob(os.path.join(ROOT, d, "check_*.txt"))):
        txt = open(p).read()
        prop = re.search(r"check_(C\d\d)", os.path.basename(p)).group(1)
        classes = sorted(set(re.findall(r"class=(\S+)", txt)))
        viol = len(re.findall(r"^VIOLATION", txt, re.M))
        summary = re.findall(r"^C\d\d \[\w+\].*$", txt, re.M)
        runs.append({"file": os.path.basename(p), "check": prop, "violation_lines": viol, "classes": classes[:8], "summary": summary[-1] if summary else ""})
    if runs:
        last = runs[-1]
        caught = any(r["violation_lines"] > 0 for r in runs)
        m["detection"] = {
            "check": ", ".join(sorted(set(r["check"] for r in runs))),
            "result": ("caught" if caught else "MISSED") + (" (after strengthening)" if caught and any(r["violation_lines"] == 0 for r in runs) else ""),
            "classes": "; ".join(sorted(set(c for r in runs for c in r["classes"])))[:300],
            "runs": runs,
        }
    json.dump(m, open(mp, "w"), indent=1)
subprocess.run(["python3", os.path.join(os.path.dirname(os.path.abspath(__file__)), "seed_index.py")])
