//! mck — exploration engines, evidence/result writer and worker pool shared by all harnesses.
//!
//! Nothing in here knows about winterfell. See /verif/DESIGN.md sections 2 and 4.

pub mod e1;
pub mod e4;
pub mod pool;
pub mod report;

pub use report::{Args, Report, Tier, Violation};
pub use serde_json::{from_str, json, Map, Value};

use std::cell::RefCell;
use std::panic::{self, AssertUnwindSafe};
use std::sync::atomic::{AtomicUsize, Ordering};
use std::sync::Mutex;

// DETERMINISTIC PAYLOAD GENERATOR
// ================================================================================================

/// splitmix64: only ever used to pick payload values carried through an enumeration.
#[derive(Clone)]
pub struct Rng(pub u64);
impl Rng {
    pub fn new(seed: u64) -> Self {
        Rng(seed ^ 0x9E37_79B9_7F4A_7C15)
    }
    pub fn next(&mut self) -> u64 {
        self.0 = self.0.wrapping_add(0x9E37_79B9_7F4A_7C15);
        let mut z = self.0;
        z = (z ^ (z >> 30)).wrapping_mul(0xBF58_476D_1CE4_E5B9);
        z = (z ^ (z >> 27)).wrapping_mul(0x94D0_49BB_1331_11EB);
        z ^ (z >> 31)
    }
    pub fn below(&mut self, n: u64) -> u64 {
        self.next() % n
    }
    pub fn bytes(&mut self, n: usize) -> Vec<u8> {
        (0..n).map(|_| self.next() as u8).collect()
    }
}

// PARALLEL SHARDING (std threads; rayon is the thing being replaced in some builds)
// ================================================================================================

pub fn num_threads() -> usize {
    std::env::var("VERIF_THREADS")
        .ok()
        .and_then(|s| s.parse().ok())
        .unwrap_or_else(|| std::thread::available_parallelism().map(|n| n.get()).unwrap_or(4).min(16))
}

/// Runs `f(i)` for every i in 0..n on a pool of OS threads and returns the results in index order
/// (so that everything downstream is deterministic).
pub fn par_map<R: Send, F: Fn(usize) -> R + Sync>(n: usize, f: F) -> Vec<R> {
    let next = AtomicUsize::new(0);
    let out: Mutex<Vec<(usize, R)>> = Mutex::new(Vec::with_capacity(n));
    let threads = num_threads().min(n.max(1));
    std::thread::scope(|s| {
        for _ in 0..threads {
            s.spawn(|| loop {
                let i = next.fetch_add(1, Ordering::Relaxed);
                if i >= n {
                    break;
                }
                let r = f(i);
                out.lock().unwrap().push((i, r));
            });
        }
    });
    let mut v = out.into_inner().unwrap();
    v.sort_by_key(|(i, _)| *i);
    v.into_iter().map(|(_, r)| r).collect()
}

// PANIC CAPTURE
// ================================================================================================

thread_local! {
    static LAST_PANIC: RefCell<Option<(String, String)>> = const { RefCell::new(None) };
    static CATCH_DEPTH: RefCell<u32> = const { RefCell::new(0) };
}

/// Installs a silent panic hook that records (location, message) per thread.
pub fn install_panic_hook() {
    panic::set_hook(Box::new(|info| {
        let loc = info
            .location()
            .map(|l| format!("{}:{}", l.file(), l.line()))
            .unwrap_or_else(|| "?".into());
        let msg = if let Some(s) = info.payload().downcast_ref::<&str>() {
            s.to_string()
        } else if let Some(s) = info.payload().downcast_ref::<String>() {
            s.clone()
        } else {
            "<non-string panic>".into()
        };
        // a panic outside `catch` is a bug of the harness itself: say where
        if CATCH_DEPTH.with(|d| *d.borrow()) == 0 {
            eprintln!("MACHINERY-ERROR: harness panicked outside catch() at {loc}: {msg}");
        }
        LAST_PANIC.with(|p| *p.borrow_mut() = Some((loc, msg)));
    }));
}

#[derive(Debug, Clone, PartialEq, Eq)]
pub struct Panicked {
    /// normalised `crate-relative-path:line`
    pub location: String,
    pub message: String,
    /// true if the panic was raised from a file under /repo/ (i.e. inside winterfell)
    pub in_library: bool,
}

pub fn normalise_location(loc: &str) -> (String, bool) {
    if let Some(rest) = loc.strip_prefix("/repo/") {
        (rest.to_string(), true)
    } else if let Some(idx) = loc.find("/library/") {
        // rust std / alloc / core
        (format!("rust:{}", &loc[idx + 1..]), false)
    } else {
        (loc.to_string(), false)
    }
}

/// Runs `f`, converting a panic into `Err(Panicked)`. Requires `install_panic_hook`.
pub fn catch<T>(f: impl FnOnce() -> T) -> Result<T, Panicked> {
    LAST_PANIC.with(|p| *p.borrow_mut() = None);
    CATCH_DEPTH.with(|d| *d.borrow_mut() += 1);
    let r = panic::catch_unwind(AssertUnwindSafe(f));
    CATCH_DEPTH.with(|d| *d.borrow_mut() -= 1);
    match r {
        Ok(v) => Ok(v),
        Err(_) => {
            let (loc, msg) = LAST_PANIC
                .with(|p| p.borrow_mut().take())
                .unwrap_or_else(|| ("?".into(), "?".into()));
            let (location, in_library) = normalise_location(&loc);
            let mut message = msg;
            if message.len() > 160 {
                let mut cut = 160;
                while !message.is_char_boundary(cut) {
                    cut -= 1;
                }
                message.truncate(cut);
            }
            Err(Panicked { location, message, in_library })
        },
    }
}

pub fn hex(b: &[u8]) -> String {
    let mut s = String::with_capacity(b.len() * 2);
    for x in b {
        s.push_str(&format!("{x:02x}"));
    }
    s
}

pub fn unhex(s: &str) -> Vec<u8> {
    (0..s.len() / 2).map(|i| u8::from_str_radix(&s[2 * i..2 * i + 2], 16).unwrap()).collect()
}

/// FNV-1a, used for fingerprints / canonical keys in evidence.
pub fn fnv(b: &[u8]) -> u64 {
    let mut h = 0xcbf29ce484222325u64;
    for x in b {
        h ^= *x as u64;
        h = h.wrapping_mul(0x100000001b3);
    }
    h
}
