//! E1 — stateless choice-point explorer with deviation bounding (the CHESS shape).
//!
//! A body calls `ctx.choose(n)` wherever the environment decides something. Choice 0 is the
//! *default* answer. The explorer replays a prefix, answers 0 afterwards, and recursively explores
//! the alternatives at every later point while the number of non-default answers stays within
//! the bound. With `bound = None` this is plain depth-first search of the whole choice tree.

/// One execution's view of the explorer.
pub struct Ctx {
    prefix: Vec<u32>,
    /// (choice taken, arity) for every choice point met so far
    pub trace: Vec<(u32, u32)>,
}

impl Ctx {
    pub fn new(prefix: Vec<u32>) -> Ctx {
        Ctx { prefix, trace: Vec::new() }
    }

    /// Returns a value in 0..n. `n` must be ≥ 1. A replayed prefix must meet choice points of
    /// an arity that admits the recorded choice — anything else means the body is not
    /// deterministic, which is a machinery error.
    pub fn choose(&mut self, n: usize) -> usize {
        assert!(n >= 1, "choose(0)");
        let i = self.trace.len();
        let c = if i < self.prefix.len() {
            let c = self.prefix[i];
            if c as usize >= n {
                crate::report::machinery(&format!(
                    "E1 replay divergence: choice point {i} has arity {n}, recorded choice {c}"
                ));
            }
            c
        } else {
            0
        };
        self.trace.push((c, n as u32));
        c as usize
    }

    pub fn choices(&self) -> Vec<u32> {
        self.trace.iter().map(|(c, _)| *c).collect()
    }

    pub fn deviations(&self) -> usize {
        self.trace.iter().filter(|(c, _)| *c != 0).count()
    }
}

#[derive(Default, Clone, Debug)]
pub struct Stats {
    pub executions: u64,
    pub choice_points: u64,
    pub max_depth: usize,
    pub max_arity: u32,
}

/// Explores every execution of `body` whose number of non-default choices is ≤ `bound`
/// (all executions if `bound` is `None`), starting below `root` (a fixed prefix, not counted as
/// deviations). `body` receives the context and must run to completion.
pub fn explore<F: FnMut(&mut Ctx)>(root: &[u32], bound: Option<usize>, mut body: F) -> Stats {
    let mut stats = Stats::default();
    // explicit stack of prefixes (DFS); each entry: (prefix, deviations already spent below root)
    let mut stack: Vec<(Vec<u32>, usize)> = vec![(root.to_vec(), 0)];
    while let Some((prefix, spent)) = stack.pop() {
        let plen = prefix.len();
        let mut ctx = Ctx::new(prefix);
        body(&mut ctx);
        if ctx.trace.len() < plen {
            crate::report::machinery("E1 replay divergence: execution ended inside its prefix");
        }
        stats.executions += 1;
        stats.choice_points += ctx.trace.len() as u64;
        stats.max_depth = stats.max_depth.max(ctx.trace.len());
        // alternatives at every point after the prefix; all choices after the prefix were 0
        if bound.map(|b| spent < b).unwrap_or(true) {
            // push in reverse so that the simplest (earliest, smallest) alternative runs first
            for i in (plen..ctx.trace.len()).rev() {
                let arity = ctx.trace[i].1;
                stats.max_arity = stats.max_arity.max(arity);
                for alt in (1..arity).rev() {
                    let mut p: Vec<u32> = ctx.trace[..i].iter().map(|(c, _)| *c).collect();
                    p.push(alt);
                    stack.push((p, spent + 1));
                }
            }
        }
    }
    stats
}

#[cfg(test)]
mod tests {
    use super::*;

    #[test]
    fn full_tree_and_bounds() {
        // 3 binary choice points: 8 executions in total, 1 + 3 with ≤ 1 deviation, 1+3+3 with ≤ 2
        let count = |b| {
            let mut seen = std::collections::BTreeSet::new();
            let s = explore(&[], b, |c| {
                let v = (c.choose(2), c.choose(2), c.choose(2));
                assert!(seen.insert(v));
            });
            s.executions
        };
        assert_eq!(count(None), 8);
        assert_eq!(count(Some(0)), 1);
        assert_eq!(count(Some(1)), 4);
        assert_eq!(count(Some(2)), 7);
    }
}
