//! Command line of a harness and the result file it hands to the `check` driver.

use std::collections::BTreeMap;
use std::path::PathBuf;
use std::time::Instant;

use serde_json::{json, Map, Value};

#[derive(Clone, Copy, PartialEq, Eq, Debug)]
pub enum Tier {
    Quick,
    Thorough,
}

impl Tier {
    pub fn name(&self) -> &'static str {
        match self {
            Tier::Quick => "quick",
            Tier::Thorough => "thorough",
        }
    }
    pub fn pick<T>(&self, quick: T, thorough: T) -> T {
        match self {
            Tier::Quick => quick,
            Tier::Thorough => thorough,
        }
    }
}

#[derive(Clone, Debug)]
pub struct Args {
    pub prop: String,
    pub tier: Tier,
    pub seed: u64,
    pub out: PathBuf,
    pub replay: Option<PathBuf>,
    pub worker: Option<String>,
    pub variant: String,
    pub rest: Vec<String>,
}

impl Args {
    /// `<PROP> [--tier t] [--seed n] [--out file] [--replay file] [--worker kind] [--variant v]`
    pub fn parse() -> Args {
        let mut it = std::env::args().skip(1);
        let mut a = Args {
            prop: String::new(),
            tier: Tier::Quick,
            seed: 0,
            out: PathBuf::from("/dev/stdout"),
            replay: None,
            worker: None,
            variant: "serial".into(),
            rest: vec![],
        };
        while let Some(x) = it.next() {
            match x.as_str() {
                "--tier" => {
                    a.tier = match it.next().as_deref() {
                        Some("thorough") => Tier::Thorough,
                        _ => Tier::Quick,
                    }
                },
                "--seed" => a.seed = it.next().and_then(|s| s.parse().ok()).unwrap_or(0),
                "--out" => a.out = PathBuf::from(it.next().expect("--out needs a path")),
                "--replay" => a.replay = Some(PathBuf::from(it.next().expect("--replay needs a path"))),
                "--worker" => a.worker = Some(it.next().expect("--worker needs a kind")),
                "--variant" => a.variant = it.next().expect("--variant needs a name"),
                _ if a.prop.is_empty() && !x.starts_with("--") => a.prop = x,
                _ => a.rest.push(x),
            }
        }
        a
    }

    pub fn replay_value(&self) -> Option<Value> {
        self.replay.as_ref().map(|p| {
            let s = std::fs::read_to_string(p).unwrap_or_else(|e| machinery(&format!("cannot read replay {p:?}: {e}")));
            let v: Value = serde_json::from_str(&s).unwrap_or_else(|e| machinery(&format!("bad replay file: {e}")));
            // the driver wraps the harness's replay record; accept both forms
            v.get("replay").cloned().unwrap_or(v)
        })
    }
}

/// A machinery failure is never a verdict: exit code 2.
pub fn machinery(msg: &str) -> ! {
    eprintln!("MACHINERY-ERROR: {msg}");
    std::process::exit(2)
}

#[derive(Clone, Debug)]
pub struct Violation {
    /// coarse identity of the failure (site + failure kind); known findings match on it
    pub class: String,
    /// fine identity of this failing case inside its class
    pub key: String,
    pub detail: String,
    /// everything the harness needs to re-execute exactly this case (`--replay`)
    pub replay: Value,
}

/// Per-class cap on *recorded* violations; all of them are counted.
const KEEP_PER_CLASS: usize = 6;

pub struct Report {
    pub property: String,
    pub level: &'static str,
    pub tier: Tier,
    pub seed: u64,
    pub evaluations: u64,
    pub distinct_nontrivial: u64,
    pub rule: String,
    pub samples: Vec<Value>,
    pub states: Option<u64>,
    pub transitions: Option<u64>,
    pub traces_validated: Option<u64>,
    pub exhaustive: bool,
    pub bounds: Value,
    pub assumptions: Vec<String>,
    pub extra: Map<String, Value>,
    pub parts: Vec<Value>,
    violations: Vec<Violation>,
    class_counts: BTreeMap<String, u64>,
    start: Instant,
}

impl Report {
    pub fn new(args: &Args, level: &'static str) -> Report {
        Report {
            property: args.prop.clone(),
            level,
            tier: args.tier,
            seed: args.seed,
            evaluations: 0,
            distinct_nontrivial: 0,
            rule: String::new(),
            samples: vec![],
            states: None,
            transitions: None,
            traces_validated: None,
            exhaustive: false,
            bounds: Value::Null,
            assumptions: vec![],
            extra: Map::new(),
            parts: vec![],
            violations: vec![],
            class_counts: BTreeMap::new(),
            start: Instant::now(),
        }
    }

    pub fn violation(&mut self, v: Violation) {
        let c = self.class_counts.entry(v.class.clone()).or_insert(0);
        *c += 1;
        if *c as usize <= KEEP_PER_CLASS {
            self.violations.push(v);
        }
    }

    /// Counts `n` further violations of a class without recording them (the harness kept only
    /// the first few examples).
    pub fn count_more(&mut self, class: &str, n: u64) {
        *self.class_counts.entry(class.to_string()).or_insert(0) += n;
    }

    pub fn violations(&mut self, vs: impl IntoIterator<Item = Violation>) {
        for v in vs {
            self.violation(v);
        }
    }

    pub fn sample(&mut self, v: Value) {
        if self.samples.len() < 8 {
            self.samples.push(v);
        }
    }

    pub fn num_violations(&self) -> u64 {
        self.class_counts.values().sum()
    }

    /// Adds the counts of one part of a check (a sub-space); the parts are listed in evidence.
    pub fn part(&mut self, name: &str, evaluations: u64, nontrivial: u64, note: Value) {
        self.evaluations += evaluations;
        self.distinct_nontrivial += nontrivial;
        self.parts.push(json!({"part": name, "evaluations": evaluations, "distinct_nontrivial": nontrivial, "note": note}));
    }

    pub fn to_value(&self) -> Value {
        json!({
            "property_id": self.property,
            "tier": self.tier.name(),
            "seed": self.seed,
            "level": self.level,
            "evaluations": self.evaluations,
            "distinct_nontrivial": self.distinct_nontrivial,
            "rule": self.rule,
            "samples": self.samples,
            "states": self.states,
            "transitions": self.transitions,
            "traces_validated_against_impl": self.traces_validated,
            "exhaustive": self.exhaustive,
            "bounds": self.bounds,
            "assumptions": self.assumptions,
            "extra": self.extra,
            "parts": self.parts,
            "wall_s": self.start.elapsed().as_secs_f64(),
            "violation_classes": self.class_counts,
            "violations": self.violations.iter().map(|v| json!({
                "class": v.class, "key": v.key, "detail": v.detail, "replay": v.replay
            })).collect::<Vec<_>>(),
        })
    }

    /// Writes the result file and exits 0 — the verdict is the driver's, from the file.
    pub fn finish(self, args: &Args) -> ! {
        let v = self.to_value();
        let s = serde_json::to_string_pretty(&v).unwrap();
        if args.out.as_os_str() == "/dev/stdout" {
            println!("{s}");
        } else if let Err(e) = std::fs::write(&args.out, s) {
            machinery(&format!("cannot write result file {:?}: {e}", args.out));
        }
        std::process::exit(0)
    }
}
