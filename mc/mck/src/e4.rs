//! E4 — fault enumerator over a byte encoding (and over its numeric fields, given a field map).

use serde_json::{json, Value};

#[derive(Clone, Debug, PartialEq, Eq)]
pub enum Fault {
    BitFlip { pos: usize, bit: u8 },
    ByteSet { pos: usize, val: u8 },
    Truncate { len: usize },
    Insert { pos: usize, val: u8 },
    Delete { pos: usize },
    /// replace `len` bytes at `off` by `with` (field-level edits, over-long vints, structure edits)
    Splice { off: usize, len: usize, with: Vec<u8>, note: String },
}

impl Fault {
    pub fn apply(&self, b: &[u8]) -> Vec<u8> {
        let mut v = b.to_vec();
        match self {
            Fault::BitFlip { pos, bit } => v[*pos] ^= 1 << bit,
            Fault::ByteSet { pos, val } => v[*pos] = *val,
            Fault::Truncate { len } => v.truncate(*len),
            Fault::Insert { pos, val } => v.insert(*pos, *val),
            Fault::Delete { pos } => {
                v.remove(*pos);
            },
            Fault::Splice { off, len, with, .. } => {
                v.splice(*off..*off + *len, with.iter().copied());
            },
        }
        v
    }

    pub fn to_json(&self) -> Value {
        match self {
            Fault::BitFlip { pos, bit } => json!({"k": "bitflip", "pos": pos, "bit": bit}),
            Fault::ByteSet { pos, val } => json!({"k": "byteset", "pos": pos, "val": val}),
            Fault::Truncate { len } => json!({"k": "truncate", "len": len}),
            Fault::Insert { pos, val } => json!({"k": "insert", "pos": pos, "val": val}),
            Fault::Delete { pos } => json!({"k": "delete", "pos": pos}),
            Fault::Splice { off, len, with, note } => {
                json!({"k": "splice", "off": off, "len": len, "with": crate::hex(with), "note": note})
            },
        }
    }

    pub fn from_json(v: &Value) -> Fault {
        let u = |k: &str| v[k].as_u64().unwrap() as usize;
        match v["k"].as_str().unwrap() {
            "bitflip" => Fault::BitFlip { pos: u("pos"), bit: u("bit") as u8 },
            "byteset" => Fault::ByteSet { pos: u("pos"), val: u("val") as u8 },
            "truncate" => Fault::Truncate { len: u("len") },
            "insert" => Fault::Insert { pos: u("pos"), val: u("val") as u8 },
            "delete" => Fault::Delete { pos: u("pos") },
            "splice" => Fault::Splice {
                off: u("off"),
                len: u("len"),
                with: crate::unhex(v["with"].as_str().unwrap()),
                note: v["note"].as_str().unwrap_or("").to_string(),
            },
            k => crate::report::machinery(&format!("unknown fault kind {k}")),
        }
    }

    pub fn short(&self) -> String {
        match self {
            Fault::BitFlip { pos, bit } => format!("flip@{pos}.{bit}"),
            Fault::ByteSet { pos, val } => format!("set@{pos}={val:#04x}"),
            Fault::Truncate { len } => format!("trunc@{len}"),
            Fault::Insert { pos, val } => format!("ins@{pos}={val:#04x}"),
            Fault::Delete { pos } => format!("del@{pos}"),
            Fault::Splice { off, len, with, note } => format!("splice@{off}+{len}->{}B {note}", with.len()),
        }
    }
}

#[derive(Clone, Copy)]
pub struct ByteFaultOpts {
    pub bit_flips: bool,
    /// every byte ← {0x00, 0xFF, b+1, b−1, 0x80, 0x01}
    pub byte_sets: bool,
    /// every byte ← every value (small encodings only)
    pub all_values: bool,
    pub truncations: bool,
    pub insertions: bool,
    pub deletions: bool,
}

impl ByteFaultOpts {
    pub const ALL: ByteFaultOpts = ByteFaultOpts {
        bit_flips: true,
        byte_sets: true,
        all_values: false,
        truncations: true,
        insertions: true,
        deletions: true,
    };
}

/// All single byte-level faults of `b` that change it.
pub fn byte_faults(b: &[u8], o: ByteFaultOpts) -> Vec<Fault> {
    let mut out = Vec::new();
    for (pos, &x) in b.iter().enumerate() {
        if o.all_values {
            for val in 0..=255u8 {
                if val != x {
                    out.push(Fault::ByteSet { pos, val });
                }
            }
        } else {
            if o.bit_flips {
                for bit in 0..8 {
                    out.push(Fault::BitFlip { pos, bit });
                }
            }
            if o.byte_sets {
                let mut vals = vec![0x00, 0xFF, x.wrapping_add(1), x.wrapping_sub(1), 0x80, 0x01, 0x7F, 0xFE];
                vals.sort();
                vals.dedup();
                for val in vals {
                    // skip values a single bit flip already produces
                    if val != x && !(o.bit_flips && (val ^ x).count_ones() == 1) {
                        out.push(Fault::ByteSet { pos, val });
                    }
                }
            }
        }
    }
    if o.truncations {
        for len in 0..b.len() {
            out.push(Fault::Truncate { len });
        }
    }
    if o.insertions {
        for pos in 0..=b.len() {
            for val in [0x00u8, 0x01, 0xFF] {
                out.push(Fault::Insert { pos, val });
            }
        }
    }
    if o.deletions {
        for pos in 0..b.len() {
            if pos + 1 < b.len() && b[pos] == b[pos + 1] {
                continue; // deleting either of two equal neighbours gives the same string
            }
            out.push(Fault::Delete { pos });
        }
    }
    out
}

#[derive(Clone, Copy, Debug, PartialEq, Eq)]
pub enum FieldKind {
    U8,
    U16,
    U32,
    U64,
    Vint,
}

#[derive(Clone, Debug)]
pub struct Field {
    pub name: String,
    pub off: usize,
    pub len: usize,
    pub kind: FieldKind,
    pub value: u64,
}

pub fn vint_encode(value: u64) -> Vec<u8> {
    // documented rule: len = 1 + floor((bits-1)/7) for ≤ 56 bits, else 9 bytes
    let bits = 64 - value.leading_zeros() as usize;
    let len = if bits <= 7 { 1 } else { 1 + (bits - 1) / 7 };
    if len > 8 {
        let mut v = vec![0u8];
        v.extend_from_slice(&value.to_le_bytes());
        v
    } else {
        let enc = ((value << 1) | 1) << (len - 1);
        enc.to_le_bytes()[..len].to_vec()
    }
}

/// over-long (non-minimal) encoding of `value` using `len` bytes (1..=9), if it fits
pub fn vint_encode_with_len(value: u64, len: usize) -> Option<Vec<u8>> {
    if len == 9 {
        let mut v = vec![0u8];
        v.extend_from_slice(&value.to_le_bytes());
        return Some(v);
    }
    if len == 0 || len > 9 {
        return None;
    }
    let cap_bits = 7 * len;
    if cap_bits < 64 && value >> cap_bits != 0 {
        return None;
    }
    let enc = ((value as u128) << len) | (1u128 << (len - 1));
    Some(enc.to_le_bytes()[..len].to_vec())
}

pub const BOUNDARY: [u64; 22] = [
    0,
    1,
    2,
    3,
    7,
    8,
    63,
    64,
    65,
    127,
    128,
    254,
    255,
    256,
    65535,
    65536,
    1 << 31,
    1 << 32,
    (1 << 56) - 1,
    1 << 56,
    1 << 63,
    u64::MAX,
];

/// Field-level edits: every boundary value that fits the field's type, value ± 1, and for vints
/// additionally every over-long re-encoding of the original value.
pub fn field_faults(f: &Field) -> Vec<Fault> {
    let max = match f.kind {
        FieldKind::U8 => 0xFF,
        FieldKind::U16 => 0xFFFF,
        FieldKind::U32 => 0xFFFF_FFFF,
        FieldKind::U64 | FieldKind::Vint => u64::MAX,
    };
    let mut vals: Vec<u64> = BOUNDARY.iter().copied().filter(|v| *v <= max).collect();
    vals.push(max);
    vals.push(max - 1);
    vals.push(f.value.wrapping_add(1) & max);
    vals.push(f.value.wrapping_sub(1) & max);
    vals.push((f.value.wrapping_mul(2)) & max);
    vals.push(f.value / 2);
    vals.sort();
    vals.dedup();
    let mut out = Vec::new();
    for v in vals {
        if v == f.value {
            continue;
        }
        let with = match f.kind {
            FieldKind::U8 => vec![v as u8],
            FieldKind::U16 => (v as u16).to_le_bytes().to_vec(),
            FieldKind::U32 => (v as u32).to_le_bytes().to_vec(),
            FieldKind::U64 => v.to_le_bytes().to_vec(),
            FieldKind::Vint => vint_encode(v),
        };
        out.push(Fault::Splice { off: f.off, len: f.len, with, note: format!("{}={}", f.name, v) });
    }
    if f.kind == FieldKind::Vint {
        for len in 1..=9 {
            if len != f.len {
                if let Some(with) = vint_encode_with_len(f.value, len) {
                    out.push(Fault::Splice {
                        off: f.off,
                        len: f.len,
                        with,
                        note: format!("{} overlong len {}", f.name, len),
                    });
                }
            }
        }
    }
    out
}

#[cfg(test)]
mod tests {
    use super::*;
    #[test]
    fn vint() {
        assert_eq!(vint_encode(0), vec![1]);
        assert_eq!(vint_encode(127), vec![0xFF]);
        assert_eq!(vint_encode(128), vec![0x02, 0x02]);
        assert_eq!(vint_encode(u64::MAX).len(), 9);
        assert_eq!(vint_encode((1 << 56) - 1).len(), 8);
        assert_eq!(vint_encode(1 << 56).len(), 9);
        assert_eq!(vint_encode_with_len(5, 2).unwrap(), vec![0b10110 & 0xFF, 0]);
    }
}
