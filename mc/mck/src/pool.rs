//! Worker subprocess pool (DESIGN.md 2.4 / appendix D).
//!
//! Cases that feed attacker-controlled bytes to winterfell run in `harness --worker <kind>`
//! subprocesses started under `ulimit -v`, one case in flight per worker, with a wall-clock
//! watchdog. A dead or hung worker is attributed to the case in flight and restarted.

use std::io::{Read, Write};
use std::os::unix::process::ExitStatusExt;
use std::path::PathBuf;
use std::process::{Child, ChildStdin, Command, Stdio};
use std::sync::atomic::{AtomicUsize, Ordering};
use std::sync::mpsc::{self, Receiver, RecvTimeoutError};
use std::time::Duration;

#[derive(Clone)]
pub struct PoolCfg {
    pub exe: PathBuf,
    pub args: Vec<String>,
    /// address-space cap in KiB
    pub mem_kib: u64,
    pub timeout: Duration,
    pub workers: usize,
}

impl PoolCfg {
    /// this executable, `<prop> --worker <kind>`
    pub fn this(prop: &str, kind: &str) -> PoolCfg {
        PoolCfg {
            exe: std::env::current_exe().expect("current_exe"),
            args: vec![prop.to_string(), "--worker".into(), kind.to_string()],
            mem_kib: 2 * 1024 * 1024,
            timeout: Duration::from_secs(10),
            workers: crate::num_threads(),
        }
    }
}

#[derive(Debug, Clone, PartialEq, Eq)]
pub enum Outcome {
    Reply(Vec<u8>),
    /// the worker died while this case was in flight
    Died { signal: Option<i32>, code: Option<i32> },
    Timeout,
}

struct Worker {
    child: Child,
    stdin: ChildStdin,
    rx: Receiver<Option<Vec<u8>>>,
}

fn spawn(cfg: &PoolCfg) -> Worker {
    let mut cmd = Command::new("sh");
    cmd.arg("-c")
        .arg(format!("ulimit -v {}; ulimit -c 0; exec \"$0\" \"$@\"", cfg.mem_kib))
        .arg(&cfg.exe)
        .args(&cfg.args)
        .stdin(Stdio::piped())
        .stdout(Stdio::piped())
        .stderr(Stdio::null());
    let mut child = cmd.spawn().unwrap_or_else(|e| crate::report::machinery(&format!("cannot spawn worker: {e}")));
    let stdin = child.stdin.take().unwrap();
    let mut stdout = child.stdout.take().unwrap();
    let (tx, rx) = mpsc::channel();
    std::thread::spawn(move || loop {
        let mut len = [0u8; 4];
        if stdout.read_exact(&mut len).is_err() {
            let _ = tx.send(None);
            break;
        }
        let mut buf = vec![0u8; u32::from_le_bytes(len) as usize];
        if stdout.read_exact(&mut buf).is_err() {
            let _ = tx.send(None);
            break;
        }
        if tx.send(Some(buf)).is_err() {
            break;
        }
    });
    Worker { child, stdin, rx }
}

fn run_one(w: &mut Worker, cfg: &PoolCfg, payload: &[u8]) -> (Outcome, bool) {
    let mut msg = (payload.len() as u32).to_le_bytes().to_vec();
    msg.extend_from_slice(payload);
    let sent = w.stdin.write_all(&msg).and_then(|_| w.stdin.flush());
    if sent.is_err() {
        // the worker is already gone (cannot happen for a healthy worker): treat as death
        let st = w.child.wait().ok();
        return (
            Outcome::Died { signal: st.and_then(|s| s.signal()), code: st.and_then(|s| s.code()) },
            true,
        );
    }
    match w.rx.recv_timeout(cfg.timeout) {
        Ok(Some(reply)) => (Outcome::Reply(reply), false),
        Ok(None) | Err(RecvTimeoutError::Disconnected) => {
            let st = w.child.wait().ok();
            (Outcome::Died { signal: st.and_then(|s| s.signal()), code: st.and_then(|s| s.code()) }, true)
        },
        Err(RecvTimeoutError::Timeout) => {
            let _ = w.child.kill();
            let _ = w.child.wait();
            (Outcome::Timeout, true)
        },
    }
}

/// Runs cases 0..n. `make_case(i)` builds the payload; `handle(acc, i, payload, outcome)` folds the
/// outcome into a per-thread accumulator. Returns the accumulators (merge them in order; record
/// case indexes if a deterministic order of findings is needed).
pub fn run<A: Default + Send>(
    cfg: &PoolCfg,
    n: usize,
    make_case: impl Fn(usize) -> Vec<u8> + Sync,
    handle: impl Fn(&mut A, usize, &[u8], Outcome) + Sync,
) -> Vec<A> {
    let next = AtomicUsize::new(0);
    let threads = cfg.workers.min(n.max(1));
    let mut accs: Vec<A> = Vec::new();
    std::thread::scope(|s| {
        let hs: Vec<_> = (0..threads)
            .map(|_| {
                s.spawn(|| {
                    let mut acc = A::default();
                    let mut w = spawn(cfg);
                    // a worker that dies on 3 consecutive *first* cases is broken infrastructure
                    let mut consecutive_fresh_deaths = 0;
                    let mut fresh = true;
                    loop {
                        let i = next.fetch_add(1, Ordering::Relaxed);
                        if i >= n {
                            break;
                        }
                        let payload = make_case(i);
                        // an empty payload means "this index is outside the bound": not executed
                        if payload.is_empty() {
                            continue;
                        }
                        let (outcome, dead) = run_one(&mut w, cfg, &payload);
                        if dead {
                            if fresh {
                                consecutive_fresh_deaths += 1;
                            }
                            w = spawn(cfg);
                            fresh = true;
                        } else {
                            fresh = false;
                            consecutive_fresh_deaths = 0;
                        }
                        let _ = consecutive_fresh_deaths; // reported through outcomes; a handler may escalate
                        handle(&mut acc, i, &payload, outcome);
                    }
                    drop(w.stdin);
                    let _ = w.child.wait();
                    acc
                })
            })
            .collect();
        for h in hs {
            accs.push(h.join().unwrap_or_else(|_| crate::report::machinery("pool thread panicked")));
        }
    });
    accs
}

/// Re-executes one case in a fresh worker. Used to confirm every outcome that would be reported
/// as a violation: a death or timeout that does not repeat is an artefact of the sweep (machine
/// load), never a verdict.
pub fn run_single(cfg: &PoolCfg, payload: &[u8]) -> Outcome {
    let mut w = spawn(cfg);
    let (o, dead) = run_one(&mut w, cfg, payload);
    if !dead {
        drop(w.stdin);
        let _ = w.child.wait();
    }
    o
}

/// `first` is believed only if a fresh worker repeats it (replies must be byte-identical;
/// deaths must be deaths; timeouts must be timeouts).
pub fn confirmed(cfg: &PoolCfg, payload: &[u8], first: &Outcome) -> bool {
    let again = run_single(cfg, payload);
    match (first, &again) {
        (Outcome::Reply(a), Outcome::Reply(b)) => a == b,
        (Outcome::Died { .. }, Outcome::Died { .. }) => true,
        (Outcome::Timeout, Outcome::Timeout) => true,
        _ => false,
    }
}

/// Worker side: answers cases on stdin until EOF.
pub fn serve(mut f: impl FnMut(&[u8]) -> Vec<u8>) -> ! {
    let stdin = std::io::stdin();
    let mut stdin = stdin.lock();
    let stdout = std::io::stdout();
    let mut stdout = stdout.lock();
    loop {
        let mut len = [0u8; 4];
        if stdin.read_exact(&mut len).is_err() {
            std::process::exit(0);
        }
        let mut buf = vec![0u8; u32::from_le_bytes(len) as usize];
        if stdin.read_exact(&mut buf).is_err() {
            std::process::exit(0);
        }
        let reply = f(&buf);
        let mut msg = (reply.len() as u32).to_le_bytes().to_vec();
        msg.extend_from_slice(&reply);
        if stdout.write_all(&msg).and_then(|_| stdout.flush()).is_err() {
            std::process::exit(0);
        }
    }
}

/// Probe used by every pool user before a sweep: the worker must answer a trivial case. If it does
/// not, the infrastructure is broken (exit 2) — never a verdict.
pub fn self_test(cfg: &PoolCfg, ping: &[u8], expect: impl Fn(&[u8]) -> bool) {
    let mut w = spawn(cfg);
    match run_one(&mut w, cfg, ping) {
        (Outcome::Reply(r), _) if expect(&r) => {},
        (o, _) => crate::report::machinery(&format!("worker self-test failed: {o:?}")),
    }
    drop(w.stdin);
    let _ = w.child.wait();
}
