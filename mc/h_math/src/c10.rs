//! C10 — exact field arithmetic on every reachable internal representation.
//!
//! Engine E2: breadth-first search over *raw limb states*, seeded at the band edges of each
//! representation and closed under the public operations. Every transition is compared with the
//! R1 reference on canonical integers; every new state is checked for the documented
//! representation range and for `==` agreeing with canonical values. Extension fields are then
//! enumerated exhaustively over an alphabet that includes the non-canonical base states found.
//!
//! The search runs in a child process with a watchdog thread, so that an operation that does not
//! terminate is attributed to one concrete transition, recorded, skipped and the search restarted.

use std::collections::{BTreeSet, HashMap, HashSet};
use std::sync::atomic::{AtomicU64, AtomicUsize, Ordering};

use mck::{json, Args, Report, Value, Violation};
use refm::field::{Ext, Prime};
use winter_math::fields::{CubeExtension, QuadExtension};
use winter_math::{ExtensibleField, ExtensionOf, FieldElement};

use crate::fields::{seeds, Fld, F128, F62, F64};

// OPERATIONS
// ================================================================================================

#[derive(Clone, Copy, PartialEq, Eq, Debug, Hash)]
pub enum Op {
    Neg,
    Double,
    Square,
    Cube,
    Inv,
    Conj,
    Exp(u128),
    Exp7,
    MulSmall(u32),
    Add,
    Sub,
    Mul,
    Div,
}

impl Op {
    fn name(&self) -> String {
        match self {
            Op::Exp(_) => "Exp".into(),
            Op::MulSmall(_) => "MulSmall".into(),
            o => format!("{o:?}"),
        }
    }
    fn code(&self) -> u64 {
        match self {
            Op::Neg => 1,
            Op::Double => 2,
            Op::Square => 3,
            Op::Cube => 4,
            Op::Inv => 5,
            Op::Conj => 6,
            Op::Exp(_) => 7,
            Op::Exp7 => 8,
            Op::MulSmall(_) => 9,
            Op::Add => 10,
            Op::Sub => 11,
            Op::Mul => 12,
            Op::Div => 13,
        }
    }
    fn from_code(c: u64) -> &'static str {
        ["?", "Neg", "Double", "Square", "Cube", "Inv", "Conj", "Exp", "Exp7", "MulSmall", "Add", "Sub", "Mul", "Div"]
            [c as usize]
    }
}

trait Special: Fld {
    fn exp7(_e: Self::E) -> Option<Self::E> {
        None
    }
    fn mul_small(_e: Self::E, _k: u32) -> Option<Self::E> {
        None
    }
}
impl Special for F64 {
    fn exp7(e: Self::E) -> Option<Self::E> {
        Some(e.exp7())
    }
    fn mul_small(e: Self::E, k: u32) -> Option<Self::E> {
        Some(e.mul_small(k))
    }
}
impl Special for F62 {}
impl Special for F128 {}

fn unary_ops<F: Special>() -> Vec<Op> {
    let mut v = vec![Op::Neg, Op::Double, Op::Square, Op::Cube, Op::Inv, Op::Conj];
    for k in [0, 1, 2, 3, F::M - 2, F::M - 1, F::M, 1u128 << 63, u64::MAX as u128, F::EXP_MAX] {
        if k <= F::EXP_MAX && !v.contains(&Op::Exp(k)) {
            v.push(Op::Exp(k));
        }
    }
    if F::exp7(F::new(0)).is_some() {
        v.push(Op::Exp7);
        for k in [0, 1, 2, 1u32 << 31, u32::MAX] {
            v.push(Op::MulSmall(k));
        }
    }
    v
}

const BINARY: [Op; 4] = [Op::Add, Op::Sub, Op::Mul, Op::Div];

fn apply<F: Special>(op: Op, a: F::E, b: F::E) -> F::E {
    match op {
        Op::Neg => -a,
        Op::Double => a.double(),
        Op::Square => a.square(),
        Op::Cube => a.cube(),
        Op::Inv => a.inv(),
        Op::Conj => a.conjugate(),
        Op::Exp(k) => F::exp(a, k),
        Op::Exp7 => F::exp7(a).unwrap(),
        Op::MulSmall(k) => F::mul_small(a, k).unwrap(),
        Op::Add => a + b,
        Op::Sub => a - b,
        Op::Mul => a * b,
        Op::Div => a / b,
    }
}

struct RefCache {
    p: Prime,
    inv: HashMap<u128, u128>,
}

impl RefCache {
    fn inv(&mut self, a: u128) -> u128 {
        let p = self.p;
        *self.inv.entry(a).or_insert_with(|| p.inv(a))
    }
    fn eval(&mut self, op: Op, a: u128, b: u128) -> u128 {
        let p = self.p;
        match op {
            Op::Neg => p.neg(a),
            Op::Double => p.add(a, a),
            Op::Square => p.mul(a, a),
            Op::Cube => p.mul(p.mul(a, a), a),
            Op::Inv => self.inv(a),
            Op::Conj => a,
            Op::Exp(k) => p.pow(a, k),
            Op::Exp7 => p.pow(a, 7),
            Op::MulSmall(k) => p.mul(a, k as u128 % p.m),
            Op::Add => p.add(a, b),
            Op::Sub => p.sub(a, b),
            Op::Mul => p.mul(a, b),
            Op::Div => {
                let bi = self.inv(b);
                p.mul(a, bi)
            },
        }
    }
}

// WATCHDOG
// ================================================================================================

struct Slot {
    busy: AtomicU64,
    field: AtomicU64,
    a_lo: AtomicU64,
    a_hi: AtomicU64,
    b_lo: AtomicU64,
    b_hi: AtomicU64,
    tick: AtomicU64,
}
#[allow(clippy::declare_interior_mutable_const)]
const SLOT_INIT: Slot = Slot {
    busy: AtomicU64::new(0),
    field: AtomicU64::new(0),
    a_lo: AtomicU64::new(0),
    a_hi: AtomicU64::new(0),
    b_lo: AtomicU64::new(0),
    b_hi: AtomicU64::new(0),
    tick: AtomicU64::new(0),
};
static SLOTS: [Slot; 64] = [SLOT_INIT; 64];
static NEXT_SLOT: AtomicUsize = AtomicUsize::new(0);
thread_local! { static MY_SLOT: usize = NEXT_SLOT.fetch_add(1, Ordering::Relaxed) % 64; }

const WATCHDOG_MS: u64 = 3000;

fn guarded<T>(field: u64, op: u64, a: u128, b: u128, f: impl FnOnce() -> T) -> T {
    MY_SLOT.with(|i| {
        let s = &SLOTS[*i];
        s.field.store(field, Ordering::Relaxed);
        s.a_lo.store(a as u64, Ordering::Relaxed);
        s.a_hi.store((a >> 64) as u64, Ordering::Relaxed);
        s.b_lo.store(b as u64, Ordering::Relaxed);
        s.b_hi.store((b >> 64) as u64, Ordering::Relaxed);
        s.tick.fetch_add(1, Ordering::Relaxed);
        s.busy.store(op, Ordering::Release);
        let r = f();
        s.busy.store(0, Ordering::Release);
        r
    })
}

fn start_watchdog(hang_file: std::path::PathBuf) {
    std::thread::spawn(move || {
        let mut last = [0u64; 64];
        let mut stuck_ms = [0u64; 64];
        loop {
            std::thread::sleep(std::time::Duration::from_millis(100));
            for (i, s) in SLOTS.iter().enumerate() {
                let busy = s.busy.load(Ordering::Acquire);
                let tick = s.tick.load(Ordering::Relaxed);
                if busy != 0 && tick == last[i] {
                    stuck_ms[i] += 100;
                    if stuck_ms[i] >= WATCHDOG_MS {
                        let a = (s.a_hi.load(Ordering::Relaxed) as u128) << 64 | s.a_lo.load(Ordering::Relaxed) as u128;
                        let b = (s.b_hi.load(Ordering::Relaxed) as u128) << 64 | s.b_lo.load(Ordering::Relaxed) as u128;
                        let rec = json!({"field": s.field.load(Ordering::Relaxed), "op": Op::from_code(busy),
                            "a": a.to_string(), "b": b.to_string()});
                        let _ = std::fs::write(&hang_file, rec.to_string());
                        std::process::exit(3);
                    }
                } else {
                    stuck_ms[i] = 0;
                    last[i] = tick;
                }
            }
        }
    });
}

#[derive(Clone, Debug)]
struct Skip {
    field: u64,
    op: String,
    a: u128,
    b: u128,
}

fn skipped(skips: &[Skip], field: u64, op: Op, a: u128, b: u128) -> bool {
    if skips.is_empty() {
        return false;
    }
    let n = op.name();
    skips.iter().any(|s| {
        s.field == field
            && s.op == n
            && match op {
                Op::Div => s.b == b,
                Op::Add | Op::Sub | Op::Mul => s.a == a && s.b == b,
                _ => s.a == a,
            }
    })
}

// BASE-FIELD BFS
// ================================================================================================

#[derive(Default)]
struct Local {
    transitions: u64,
    new_states: Vec<(u128, usize, Op, u128, u128)>, // raw, index into a thread-local element store, creating transition
    viol: Vec<Violation>,
    more: Vec<(String, u64)>,
}

struct BfsResult<F: Fld> {
    states: u64,
    transitions: u64,
    noncanonical: Vec<F::E>,
    noncanonical_count: u64,
    out_of_range: u64,
    levels: Vec<Value>,
    viol: Vec<Violation>,
    more: HashMap<String, u64>,
    sample: Vec<Value>,
}

fn check_transition<F: Special>(
    fid: u64,
    op: Op,
    a: F::E,
    b: F::E,
    rc: &mut RefCache,
    local: &mut Local,
    elems: &mut Vec<F::E>,
    skips: &[Skip],
) {
    let (ra, rb) = (F::raw(a), F::raw(b));
    if skipped(skips, fid, op, ra, rb) {
        return;
    }
    let r = guarded(fid, op.code(), ra, rb, || apply::<F>(op, a, b));
    local.transitions += 1;
    // operands are handed to the reference reduced: an as_int() at or above M is reported where it is
    // produced (the `got` of that transition), it must not take the reference outside its domain
    let (va, vb) = (F::int(a) % F::M, F::int(b) % F::M);
    let expect = rc.eval(op, va, vb);
    let got = F::int(r);
    let rr = F::raw(r);
    let mut fail = |class: String, detail: String| {
        if local.viol.iter().filter(|v| v.class == class).count() < 2 {
            local.viol.push(Violation {
                class,
                key: format!("{}:{:?}:{ra:#x}:{rb:#x}", F::NAME, op),
                detail,
                replay: json!({"kind": "base", "field": F::NAME, "op": format!("{op:?}"), "a_raw": ra.to_string(), "b_raw": rb.to_string(),
                    "a_value": va.to_string(), "b_value": vb.to_string(), "path": "representation reached by the BFS; see evidence"}),
            });
        } else {
            local.more.push((class, 1));
        }
    };
    if got != expect {
        fail(
            format!("wrong_value:{}.{}", F::NAME, op.name()),
            format!("{} {op:?}(raw {ra:#x} = value {va}, raw {rb:#x} = value {vb}) has value {got}, exact arithmetic gives {expect}", F::NAME),
        );
    } else {
        if rr >= F::REP_BOUND {
            fail(
                format!("rep_out_of_range:{}.{}", F::NAME, op.name()),
                format!("{} {op:?}(raw {ra:#x}, raw {rb:#x}) leaves the documented representation range: raw {rr:#x} >= {:#x}", F::NAME, F::REP_BOUND),
            );
        }
        let same = F::new(expect);
        let other = F::new((expect + 1) % F::M);
        if !(r == same) || !(same == r) || r == other {
            fail(
                format!("equality:{}.{}", F::NAME, op.name()),
                format!("{} result of {op:?}(raw {ra:#x}, raw {rb:#x}) is raw {rr:#x} with value {got}; == with the canonical element of the same value: {}, == with value+1: {}", F::NAME, r == same, r == other),
            );
        }
    }
    elems.push(r);
    local.new_states.push((rr, elems.len() - 1, op, ra, rb));
}

fn bfs<F: Special>(fid: u64, depth: usize, skips: &[Skip]) -> BfsResult<F> {
    let seed_elems = seeds::<F>();
    let mut seen: HashSet<u128> = seed_elems.iter().map(|e| F::raw(*e)).collect();
    let nseeds = seen.len();
    // how every state was first built: seeds by `new(value)`, others by one transition
    let seed_vals: HashMap<u128, u128> = seed_elems.iter().map(|e| (F::raw(*e), F::int(*e))).collect();
    let mut parents: HashMap<u128, (Op, u128, u128)> = HashMap::new();
    let mut frontier: Vec<F::E> = seed_elems.clone();
    let mut partners: Vec<F::E> = seed_elems.clone();
    let mut noncanon: Vec<F::E> = vec![];
    let mut noncanon_seen: BTreeSet<u128> = BTreeSet::new();
    let mut res = BfsResult::<F> {
        states: 0,
        transitions: 0,
        noncanonical: vec![],
        noncanonical_count: 0,
        out_of_range: 0,
        levels: vec![],
        viol: vec![],
        more: HashMap::new(),
        sample: vec![],
    };
    let unary = unary_ops::<F>();
    for level in 1..=depth {
        let chunk = 64.max(frontier.len() / 512);
        let nchunks = frontier.len().div_ceil(chunk);
        let fr = &frontier;
        let pt = &partners;
        let un = &unary;
        let outs = mck::par_map(nchunks, |ci| {
            let mut local = Local::default();
            let mut elems: Vec<F::E> = vec![];
            let mut rc = RefCache { p: F::prime(), inv: HashMap::new() };
            let zero = F::new(0);
            for s in &fr[ci * chunk..((ci + 1) * chunk).min(fr.len())] {
                for &op in un {
                    check_transition::<F>(fid, op, *s, zero, &mut rc, &mut local, &mut elems, skips);
                }
                for p in pt {
                    for op in BINARY {
                        check_transition::<F>(fid, op, *s, *p, &mut rc, &mut local, &mut elems, skips);
                        check_transition::<F>(fid, op, *p, *s, &mut rc, &mut local, &mut elems, skips);
                    }
                }
            }
            // dedup locally
            let mut uniq: HashMap<u128, (F::E, Op, u128, u128)> = HashMap::new();
            for (raw, i, op, ra, rb) in &local.new_states {
                uniq.entry(*raw).or_insert((elems[*i], *op, *ra, *rb));
            }
            (local.transitions, uniq, local.viol, local.more)
        });
        let mut next: Vec<(u128, F::E)> = vec![];
        let mut level_transitions = 0;
        let mut level_viol: Vec<Violation> = vec![];
        for (t, uniq, viol, more) in outs {
            level_transitions += t;
            for v in viol {
                if res.viol.iter().chain(level_viol.iter()).filter(|x| x.class == v.class).count() < 4 {
                    level_viol.push(v);
                } else {
                    *res.more.entry(v.class).or_insert(0) += 1;
                }
            }
            for (c, n) in more {
                *res.more.entry(c).or_insert(0) += n;
            }
            let mut u: Vec<(u128, (F::E, Op, u128, u128))> = uniq.into_iter().collect();
            u.sort_by_key(|(r, _)| *r);
            for (raw, (e, op, ra, rb)) in u {
                if seen.insert(raw) {
                    next.push((raw, e));
                    if level < depth {
                        parents.insert(raw, (op, ra, rb));
                    }
                }
            }
        }
        // attach to every recorded violation the operation path that builds its operands
        for mut v in level_viol {
            let ra: u128 = v.replay["a_raw"].as_str().unwrap().parse().unwrap();
            let rb: u128 = v.replay["b_raw"].as_str().unwrap().parse().unwrap();
            let opname = v.replay["op"].as_str().unwrap().to_string();
            let mut steps: Vec<Value> = vec![];
            let mut memo: HashMap<u128, usize> = HashMap::new();
            let ia = path_to(ra, &parents, &seed_vals, &mut steps, &mut memo);
            let ib = path_to(rb, &parents, &seed_vals, &mut steps, &mut memo);
            steps.push(json!({"op": opname, "a": ia, "b": ib}));
            v.replay = json!({"kind": "path", "field": F::NAME, "steps": steps});
            res.viol.push(v);
        }
        next.sort_by_key(|(r, _)| *r);
        for (raw, e) in &next {
            if *raw >= F::M {
                res.noncanonical_count += 1;
                if *raw >= F::REP_BOUND {
                    res.out_of_range += 1;
                }
                if noncanon_seen.insert(*raw) && noncanon.len() < 48 {
                    // keep a spread: the first few, plus band extremes are found naturally by order
                    noncanon.push(*e);
                    partners.push(*e);
                }
            }
        }
        res.transitions += level_transitions;
        res.levels.push(json!({"depth": level, "frontier": frontier.len(), "partners": partners.len(),
            "transitions": level_transitions, "new_states": next.len()}));
        if level == 1 {
            if let Some((raw, e)) = next.iter().find(|(r, _)| *r >= F::M).or(next.first()) {
                res.sample.push(json!({"field": F::NAME, "state_raw": format!("{raw:#x}"), "value": F::int(*e).to_string(), "reached_at_depth": 1}));
            }
        }
        frontier = next.into_iter().map(|(_, e)| e).collect();
        if frontier.is_empty() {
            break;
        }
    }
    res.states = seen.len() as u64;
    res.noncanonical = noncanon;
    let _ = nseeds;
    res
}

/// Appends to `steps` the operations that build the state with raw limbs `raw`; returns its index.
fn path_to(
    raw: u128,
    parents: &HashMap<u128, (Op, u128, u128)>,
    seeds: &HashMap<u128, u128>,
    steps: &mut Vec<Value>,
    memo: &mut HashMap<u128, usize>,
) -> usize {
    if let Some(i) = memo.get(&raw) {
        return *i;
    }
    let idx = if let Some(v) = seeds.get(&raw) {
        steps.push(json!({"op": "New", "v": v.to_string()}));
        steps.len() - 1
    } else if let Some((op, a, b)) = parents.get(&raw) {
        let ia = path_to(*a, parents, seeds, steps, memo);
        let ib = path_to(*b, parents, seeds, steps, memo);
        steps.push(json!({"op": format!("{op:?}"), "a": ia, "b": ib}));
        steps.len() - 1
    } else {
        // the zero operand of unary operations
        steps.push(json!({"op": "New", "v": "0"}));
        steps.len() - 1
    };
    memo.insert(raw, idx);
    idx
}

fn parse_op(s: &str) -> Op {
    let arg = |p: &str| s.strip_prefix(p).map(|r| r.trim_end_matches(')').to_string());
    if let Some(k) = arg("Exp(") {
        return Op::Exp(k.parse().unwrap());
    }
    if let Some(k) = arg("MulSmall(") {
        return Op::MulSmall(k.parse().unwrap());
    }
    match s {
        "Neg" => Op::Neg,
        "Double" => Op::Double,
        "Square" => Op::Square,
        "Cube" => Op::Cube,
        "Inv" => Op::Inv,
        "Conj" => Op::Conj,
        "Exp7" => Op::Exp7,
        "Add" => Op::Add,
        "Sub" => Op::Sub,
        "Mul" => Op::Mul,
        "Div" => Op::Div,
        _ => mck::report::machinery(&format!("unknown op {s}")),
    }
}

/// Re-executes a recorded operation path step by step against R1.
fn replay_path<F: Special>(fid: u64, steps: &[Value], report: &mut Report) {
    let mut vals: Vec<F::E> = vec![];
    let mut rc = RefCache { p: F::prime(), inv: HashMap::new() };
    let mut local = Local::default();
    let mut elems = vec![];
    for (i, st) in steps.iter().enumerate() {
        let opn = st["op"].as_str().unwrap();
        if opn == "New" {
            let v: u128 = st["v"].as_str().unwrap().parse().unwrap();
            vals.push(F::new(v));
            println!("  step {i}: new({v}) -> raw {:#x}", F::raw(vals[i]));
            continue;
        }
        let op = parse_op(opn);
        let a = vals[st["a"].as_u64().unwrap() as usize];
        let b = vals[st["b"].as_u64().unwrap_or(0) as usize];
        let before = local.viol.len();
        check_transition::<F>(fid, op, a, b, &mut rc, &mut local, &mut elems, &[]);
        let r = *elems.last().unwrap();
        println!("  step {i}: {op:?}(raw {:#x}, raw {:#x}) -> raw {:#x} (value {}){}", F::raw(a), F::raw(b), F::raw(r), F::int(r),
            if local.viol.len() > before { "   <-- VIOLATION" } else { "" });
        vals.push(r);
    }
    for v in local.viol {
        println!("REPRODUCED: {}", v.detail);
        report.violation(v);
    }
}

// EXTENSION FIELDS (exhaustive over an alphabet of base states)
// ================================================================================================

struct ExtOut {
    evaluations: u64,
    elements: u64,
    viol: Vec<Violation>,
    more: HashMap<String, u64>,
}

fn alphabet<F: Fld>(noncanon: &[F::E], max: usize) -> Vec<F::E> {
    let mut a: Vec<F::E> = vec![F::new(0), F::new(1), F::new(F::M - 1), F::new(2), F::new((F::M - 1) / 2), F::new(1 << 32), F::new(F::M - 2)];
    // non-canonical representations first in line after 0/1/-1: they are what the tests never see
    let mut out: Vec<F::E> = a.drain(..3).collect();
    for e in noncanon.iter().take(3) {
        out.push(*e);
    }
    out.extend(a);
    let mut seen = HashSet::new();
    out.retain(|e| seen.insert(F::raw(*e)));
    out.truncate(max);
    out
}

macro_rules! ext_sweep {
    ($fname:ident, $ext:ident, $d:expr) => {
        fn $fname<F: Special>(fid: u64, ext: &Ext, alpha: &[F::E], pair_cap: usize, skips: &[Skip]) -> ExtOut
        where
            F::E: ExtensibleField<$d>,
        {
            type X<B> = $ext<B>;
            let d: usize = $d;
            let n = alpha.len();
            let total = n.pow(d as u32);
            let elem = |mut idx: usize| -> ([F::E; $d], Vec<u128>) {
                let mut c = [alpha[0]; $d];
                for k in 0..d {
                    c[k] = alpha[idx % n];
                    idx /= n;
                }
                let v = c.iter().map(|e| F::int(*e) % F::M).collect();
                (c, v)
            };
            let mk = |c: &[F::E; $d]| -> X<F::E> {
                let s = <X<F::E> as FieldElement>::slice_from_base_elements(&c[..]);
                s[0]
            };
            let ints = |x: X<F::E>| -> Vec<u128> { (0..d).map(|i| F::int(x.base_element(i))).collect() };
            let outs = mck::par_map(total, |i| {
                let mut evals = 0u64;
                let mut viol: Vec<Violation> = vec![];
                let mut more: Vec<String> = vec![];
                let (ca, va) = elem(i);
                let a = mk(&ca);
                let araw: Vec<String> = ca.iter().map(|e| format!("{:#x}", F::raw(*e))).collect();
                let mut check = |opname: &str, got: Vec<u128>, expect: Vec<u128>, other: &str| {
                    evals += 1;
                    if got != expect {
                        let class = format!("wrong_value:{}^{}.{}", F::NAME, d, opname);
                        if viol.iter().filter(|v| v.class == class).count() < 1 {
                            viol.push(Violation {
                                class,
                                key: format!("{}^{}:{opname}:{araw:?}:{other}", F::NAME, d),
                                detail: format!("{}^{} {opname}(a = raw {araw:?} = value {va:?}{other}) = {got:?}, exact arithmetic gives {expect:?}", F::NAME, d),
                                replay: json!({"kind": "ext", "field": F::NAME, "degree": d, "op": opname, "a_raw": araw, "other": other}),
                            });
                        } else {
                            more.push(class);
                        }
                    }
                };
                let hang_key = F::raw(ca[0]) ^ (F::raw(ca[d - 1]) << 1);
                // unary
                check("neg", ints(-a), ext.neg(&va), "");
                check("double", ints(a.double()), ext.add(&va, &va), "");
                check("square", ints(a.square()), ext.mul(&va, &va), "");
                check("cube", ints(a.cube()), ext.mul(&ext.mul(&va, &va), &va), "");
                check("conjugate", ints(a.conjugate()), ext.frobenius(&va), "");
                let fr = <F::E as ExtensibleField<$d>>::frobenius(ca);
                check("frobenius", fr.iter().map(|e| F::int(*e)).collect(), ext.frobenius(&va), "");
                if !skipped(skips, fid + 10 * d as u64, Op::Inv, hang_key, 0) {
                    let inv = guarded(fid + 10 * d as u64, Op::Inv.code(), hang_key, i as u128, || a.inv());
                    check("inv", ints(inv), ext.inv(&va), "");
                }
                for k in [0u128, 1, 2, 3, 7] {
                    check("exp", ints(a.exp_vartime((k as u32).into())), ext.pow(&va, k), &format!(", k = {k}"));
                }
                for b in alpha {
                    check("mul_base", ints(<X<F::E> as ExtensionOf<F::E>>::mul_base(a, *b)), ext.mul_base(&va, F::int(*b) % F::M), &format!(", b = raw {:#x}", F::raw(*b)));
                }
                // equality against every element with the same / a different value is covered by
                // the binary sweep below (a == b ⇔ values equal)
                let stride = if total > pair_cap { total / pair_cap } else { 1 };
                let mut j = i % stride;
                while j < total {
                    let (cb, vb) = elem(j);
                    let b = mk(&cb);
                    let braw: Vec<String> = cb.iter().map(|e| format!("{:#x}", F::raw(*e))).collect();
                    let o = format!(", b = raw {braw:?} = value {vb:?}");
                    check("add", ints(a + b), ext.add(&va, &vb), &o);
                    check("sub", ints(a - b), ext.sub(&va, &vb), &o);
                    check("mul", ints(a * b), ext.mul(&va, &vb), &o);
                    let m2 = <F::E as ExtensibleField<$d>>::mul(ca, cb);
                    check("ExtensibleField::mul", m2.iter().map(|e| F::int(*e)).collect(), ext.mul(&va, &vb), &o);
                    check("eq", vec![(a == b) as u128], vec![(va == vb) as u128], &o);
                    j += stride;
                }
                (evals, viol, more)
            });
            let mut out = ExtOut { evaluations: 0, elements: total as u64, viol: vec![], more: HashMap::new() };
            for (e, viol, more) in outs {
                out.evaluations += e;
                for v in viol {
                    if out.viol.iter().filter(|x| x.class == v.class).count() < 4 {
                        out.viol.push(v);
                    } else {
                        *out.more.entry(v.class).or_insert(0) += 1;
                    }
                }
                for c in more {
                    *out.more.entry(c).or_insert(0) += 1;
                }
            }
            out
        }
    };
}
ext_sweep!(ext_sweep2, QuadExtension, 2);
ext_sweep!(ext_sweep3, CubeExtension, 3);

// DRIVER
// ================================================================================================

fn run_field<F: Special>(fid: u64, depth: usize, skips: &[Skip], report: &mut Report, thorough: bool)
where
    F::E: ExtensibleField<2>,
{
    let r = bfs::<F>(fid, depth, skips);
    report.states = Some(report.states.unwrap_or(0) + r.states);
    report.transitions = Some(report.transitions.unwrap_or(0) + r.transitions);
    let nontrivial = r.states - seeds::<F>().len() as u64;
    report.part(
        &format!("{} representation BFS", F::NAME),
        r.transitions,
        nontrivial,
        json!({"states": r.states, "non_canonical_states": r.noncanonical_count, "states_outside_documented_range": r.out_of_range, "levels": r.levels}),
    );
    for s in r.sample {
        report.sample(s);
    }
    report.violations(r.viol);
    for (c, n) in r.more {
        report.count_more(&c, n);
    }
    // extensions
    let alpha = alphabet::<F>(&r.noncanonical, if thorough { 10 } else { 8 });
    let q = ext_sweep2::<F>(fid, &F::quad(), &alpha, usize::MAX, skips);
    report.part(&format!("{} quadratic extension", F::NAME), q.evaluations, q.elements, json!({"alphabet": alpha.len(), "elements": q.elements, "pairs": "all"}));
    report.transitions = Some(report.transitions.unwrap_or(0) + q.evaluations);
    report.states = Some(report.states.unwrap_or(0) + q.elements);
    report.violations(q.viol);
    for (c, n) in q.more {
        report.count_more(&c, n);
    }
}

fn run_cubic<F: Special>(fid: u64, noncanon_from: usize, skips: &[Skip], report: &mut Report, thorough: bool)
where
    F::E: ExtensibleField<3>,
{
    // a shallow BFS is rerun to harvest non-canonical representatives (cheap at depth 1)
    let r = bfs::<F>(fid, noncanon_from, skips);
    let alpha = alphabet::<F>(&r.noncanonical, if thorough { 8 } else { 6 });
    let c = ext_sweep3::<F>(fid, &F::cube().unwrap(), &alpha, if thorough { usize::MAX } else { 64 }, skips);
    report.part(&format!("{} cubic extension", F::NAME), c.evaluations, c.elements,
        json!({"alphabet": alpha.len(), "elements": c.elements, "pairs": if thorough { "all" } else { "every element against 64 evenly spaced partners" }}));
    report.transitions = Some(report.transitions.unwrap_or(0) + c.evaluations);
    report.states = Some(report.states.unwrap_or(0) + c.elements);
    report.violations(c.viol);
    for (cl, n) in c.more {
        report.count_more(&cl, n);
    }
}

fn load_skips(args: &Args) -> (Vec<Skip>, std::path::PathBuf) {
    let path = args.out.with_extension("skips.json");
    let mut v = vec![];
    if let Ok(s) = std::fs::read_to_string(&path) {
        if let Ok(Value::Array(a)) = serde_json_from(&s) {
            for x in a {
                v.push(Skip {
                    field: x["field"].as_u64().unwrap_or(0),
                    op: x["op"].as_str().unwrap_or("").to_string(),
                    a: x["a"].as_str().unwrap_or("0").parse().unwrap_or(0),
                    b: x["b"].as_str().unwrap_or("0").parse().unwrap_or(0),
                });
            }
        }
    }
    (v, path)
}

fn serde_json_from(s: &str) -> Result<Value, ()> {
    mck::from_str(s).map_err(|_| ())
}

fn field_name(fid: u64) -> String {
    let base = ["?", "f64", "f62", "f128"][(fid % 10) as usize];
    match fid / 10 {
        0 => base.to_string(),
        d => format!("{base}^{d}"),
    }
}

fn child(args: &Args) -> ! {
    let (skips, _) = load_skips(args);
    start_watchdog(args.out.with_extension("hang.json"));
    let thorough = args.tier == mck::Tier::Thorough;
    let depth = if thorough { 3 } else { 2 };
    let mut report = Report::new(args, "model_checking");
    run_field::<F64>(1, depth, &skips, &mut report, thorough);
    run_field::<F62>(2, depth, &skips, &mut report, thorough);
    run_field::<F128>(3, depth, &skips, &mut report, thorough);
    run_cubic::<F64>(1, 1, &skips, &mut report, thorough);
    run_cubic::<F62>(2, 1, &skips, &mut report, thorough);
    for s in &skips {
        report.violation(Violation {
            class: format!("hang:{}.{}", field_name(s.field), s.op),
            key: format!("{}:{}:{:#x}:{:#x}", field_name(s.field), s.op, s.a, s.b),
            detail: format!("{} {}(raw {:#x}, raw {:#x}) did not return within {} ms (the transition was then skipped and the search restarted)",
                field_name(s.field), s.op, s.a, s.b, WATCHDOG_MS),
            replay: json!({"kind": "hang", "field": s.field, "op": s.op, "a": s.a.to_string(), "b": s.b.to_string()}),
        });
    }
    report.traces_validated = report.transitions;
    report.exhaustive = true;
    report.bounds = json!({"bfs_depth": depth, "seeds": "elements whose representation or value sits within 2 of a band edge (0, 2^32, (M-1)/2, 2^63 or 2^61, M-2^32, M-1; for f128 also the 64-bit limb boundaries)",
        "binary_partners": "all seeds and up to 48 non-canonical states found so far, on both sides",
        "hanging_transitions_skipped": skips.len()});
    report.rule = "states are distinct raw limb values (base fields) or tuples of alphabet states (extensions); transitions are applications of one public operation compared with the R1 reference; non-trivial states are those that are not seeds, i.e. were reached through operations".into();
    report.assumptions = vec![
        "values far from every band edge and not reachable within the depth bound are out of bound".into(),
        "from_mont (raw constructor of f64) is not used as a transition: it would make every u64 trivially 'reachable'".into(),
    ];
    report.finish(args)
}

pub fn run(args: &Args) {
    if args.worker.as_deref() == Some("replay") {
        replay(args, &args.replay_value().unwrap());
    }
    if args.worker.is_some() {
        child(args);
    }
    if let Some(v) = args.replay_value() {
        // replay in a watchdog-protected child: a path that does not terminate is a violation
        let st = std::process::Command::new(std::env::current_exe().unwrap())
            .args(["C10", "--out", args.out.to_str().unwrap(), "--worker", "replay", "--replay", args.replay.as_ref().unwrap().to_str().unwrap()])
            .status()
            .unwrap_or_else(|e| mck::report::machinery(&format!("cannot start replay process: {e}")));
        match st.code() {
            Some(0) => std::process::exit(0),
            Some(3) => {
                let mut report = Report::new(args, "model_checking");
                report.evaluations = 1;
                let h = std::fs::read_to_string(args.out.with_extension("hang.json")).unwrap_or_default();
                println!("REPRODUCED: the path does not terminate ({h})");
                report.violation(Violation { class: format!("hang:{}", v["field"].as_str().unwrap_or("?")), key: "replay".into(),
                    detail: format!("an operation of the recorded path did not return within {WATCHDOG_MS} ms: {h}"), replay: v.clone() });
                report.finish(args)
            },
            c => mck::report::machinery(&format!("replay process ended with {c:?}")),
        }
    }
    // parent: restart loop around the watchdog-protected child
    let skip_path = args.out.with_extension("skips.json");
    let hang_path = args.out.with_extension("hang.json");
    let _ = std::fs::remove_file(&skip_path);
    let mut skips: Vec<Value> = vec![];
    for _round in 0..16 {
        let _ = std::fs::remove_file(&hang_path);
        let st = std::process::Command::new(std::env::current_exe().unwrap())
            .args([
                "C10",
                "--tier",
                args.tier.name(),
                "--seed",
                &args.seed.to_string(),
                "--out",
                args.out.to_str().unwrap(),
                "--worker",
                "bfs",
            ])
            .status()
            .unwrap_or_else(|e| mck::report::machinery(&format!("cannot start search process: {e}")));
        match st.code() {
            Some(0) => std::process::exit(0),
            Some(3) => {
                let s = std::fs::read_to_string(&hang_path).unwrap_or_else(|_| mck::report::machinery("hang record missing"));
                let v: Value = mck::from_str(&s).unwrap_or_else(|_| mck::report::machinery("bad hang record"));
                eprintln!("non-terminating transition found and skipped: {v}");
                skips.push(v);
                std::fs::write(&skip_path, Value::Array(skips.clone()).to_string()).unwrap();
            },
            c => mck::report::machinery(&format!("search process ended with {c:?}")),
        }
    }
    mck::report::machinery("more than 16 non-terminating transitions; giving up")
}

fn replay(args: &Args, v: &Value) -> ! {
    let mut report = Report::new(args, "model_checking");
    report.evaluations = 1;
    if v["kind"] == "path" {
        let steps = v["steps"].as_array().cloned().unwrap_or_default();
        // a path that does not terminate would hang the replay: guard it with the same watchdog
        start_watchdog(args.out.with_extension("hang.json"));
        let exe = std::env::current_exe().unwrap();
        let _ = exe;
        match v["field"].as_str().unwrap_or("") {
            "f64" => replay_path::<F64>(1, &steps, &mut report),
            "f62" => replay_path::<F62>(2, &steps, &mut report),
            "f128" => replay_path::<F128>(3, &steps, &mut report),
            f => mck::report::machinery(&format!("unknown field {f}")),
        }
        if report.num_violations() == 0 {
            println!("not reproduced: every step agrees with exact arithmetic");
        }
    } else {
        println!("C10: replay records of kind {} are re-checked by re-running the (deterministic) search", v["kind"]);
    }
    report.finish(args)
}
