//! The three base fields behind one small interface, plus the bridge to the R1 reference.

use refm::field::{Ext, Prime, M128, M62, M64};
use winter_math::fields::{f128, f62, f64};
use winter_math::{ExtensibleField, FieldElement, StarkField};
use winter_utils::AsBytes;

pub trait Fld: 'static + Sync + Send {
    type E: StarkField + ExtensibleField<2>;
    const NAME: &'static str;
    const M: u128;
    /// exclusive upper bound of the documented internal representation range
    const REP_BOUND: u128;
    /// raw limbs of the internal representation
    fn raw(e: Self::E) -> u128;
    fn int(e: Self::E) -> u128;
    /// the element the public constructor builds for an integer (reduced modulo M by contract)
    fn new(v: u128) -> Self::E;
    fn exp(e: Self::E, k: u128) -> Self::E;
    /// largest exponent the field's integer type holds
    const EXP_MAX: u128;
    fn prime() -> Prime {
        Prime::new(Self::M)
    }
    fn quad() -> Ext;
    fn cube() -> Option<Ext>;
    /// integers r such that an element whose *representation* equals r is interesting
    fn band_edges() -> Vec<u128>;
    /// R such that representation = value · R mod M (1 for fields without Montgomery form)
    fn mont_r() -> u128;
}

pub struct F64;
pub struct F62;
pub struct F128;

fn edges_around(points: &[u128], radius: u128, max: u128) -> Vec<u128> {
    let mut v = vec![];
    for &p in points {
        for d in 0..=radius {
            if p >= d {
                v.push(p - d);
            }
            if p + d <= max {
                v.push(p + d);
            }
        }
    }
    v.sort();
    v.dedup();
    v
}

impl Fld for F64 {
    type E = f64::BaseElement;
    const NAME: &'static str = "f64";
    const M: u128 = M64;
    const REP_BOUND: u128 = M64;
    const EXP_MAX: u128 = u64::MAX as u128;
    fn raw(e: Self::E) -> u128 {
        e.inner() as u128
    }
    fn int(e: Self::E) -> u128 {
        e.as_int() as u128
    }
    fn new(v: u128) -> Self::E {
        f64::BaseElement::new(v as u64)
    }
    fn exp(e: Self::E, k: u128) -> Self::E {
        e.exp(k as u64)
    }
    fn quad() -> Ext {
        Ext::f64_quad()
    }
    fn cube() -> Option<Ext> {
        Some(Ext::f64_cube())
    }
    fn band_edges() -> Vec<u128> {
        edges_around(&[0, 1 << 32, (M64 - 1) / 2, 1 << 63, M64 - (1 << 32), M64 - 1], 2, M64 - 1)
    }
    fn mont_r() -> u128 {
        (1u128 << 64) % M64
    }
}

impl Fld for F62 {
    type E = f62::BaseElement;
    const NAME: &'static str = "f62";
    const M: u128 = M62;
    const REP_BOUND: u128 = 2 * M62;
    const EXP_MAX: u128 = u64::MAX as u128;
    fn raw(e: Self::E) -> u128 {
        let b = e.as_bytes();
        u64::from_le_bytes(b.try_into().unwrap()) as u128
    }
    fn int(e: Self::E) -> u128 {
        e.as_int() as u128
    }
    fn new(v: u128) -> Self::E {
        f62::BaseElement::new(v as u64)
    }
    fn exp(e: Self::E, k: u128) -> Self::E {
        e.exp(k as u64)
    }
    fn quad() -> Ext {
        Ext::f62_quad()
    }
    fn cube() -> Option<Ext> {
        Some(Ext::f62_cube())
    }
    fn band_edges() -> Vec<u128> {
        edges_around(&[0, 1 << 32, (M62 - 1) / 2, 1 << 61, M62 - 1], 2, M62 - 1)
    }
    fn mont_r() -> u128 {
        (1u128 << 64) % M62
    }
}

impl Fld for F128 {
    type E = f128::BaseElement;
    const NAME: &'static str = "f128";
    const M: u128 = M128;
    const REP_BOUND: u128 = M128;
    const EXP_MAX: u128 = u128::MAX;
    fn raw(e: Self::E) -> u128 {
        let b = e.as_bytes();
        u128::from_le_bytes(b.try_into().unwrap())
    }
    fn int(e: Self::E) -> u128 {
        e.as_int()
    }
    fn new(v: u128) -> Self::E {
        f128::BaseElement::new(v)
    }
    fn exp(e: Self::E, k: u128) -> Self::E {
        e.exp(k)
    }
    fn quad() -> Ext {
        Ext::f128_quad()
    }
    fn cube() -> Option<Ext> {
        None
    }
    fn band_edges() -> Vec<u128> {
        edges_around(&[0, 1 << 32, 1 << 64, (1 << 64) + (1 << 32), (M128 - 1) / 2, 1 << 127, M128 - (1 << 64), M128 - 1], 2, M128 - 1)
    }
    fn mont_r() -> u128 {
        1
    }
}

/// elements whose representation sits on the band edges (value = r · R⁻¹) plus the same integers
/// taken as values
pub fn seeds<F: Fld>() -> Vec<F::E> {
    let p = F::prime();
    let rinv = p.inv(F::mont_r());
    let mut out: Vec<F::E> = vec![];
    let mut seen = std::collections::BTreeSet::new();
    for r in F::band_edges() {
        for v in [p.mul(r % F::M, rinv), r % F::M] {
            let e = F::new(v);
            if seen.insert(F::raw(e)) {
                out.push(e);
            }
        }
    }
    for e in [<F::E as FieldElement>::ZERO, <F::E as FieldElement>::ONE, <F::E as StarkField>::GENERATOR] {
        if seen.insert(F::raw(e)) {
            out.push(e);
        }
    }
    out
}

/// A second internal representation of the same value, reached through short public-operation
/// paths that are identities on values (None for fields whose representation is always canonical).
/// Only f62 (lazy reduction in [0, 2M)) has such twins on the current tree; the search is generic so
/// that a representation change elsewhere is picked up too.
pub fn twin<E: FieldElement>(e: E) -> Option<E> {
    let raw = |x: E| E::elements_as_bytes(&[x]).to_vec();
    let one = E::ONE;
    let two = one + one;
    let z = one + (-one);
    let cands = [
        (e + one) - one,
        (e - one) + one,
        -(-e),
        e + z,
        e - z,
        z + e,
        (e + two) - two,
        (e - two) + two,
        (e.double()) - e,
        e * one,
        (e * two) - e,
        -((-e) + z),
    ];
    let r0 = raw(e);
    cands.into_iter().find(|c| *c == e && raw(*c) != r0)
}
