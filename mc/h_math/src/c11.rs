//! C11 — field constants (primality certificate, generator, two-adicity, roots of unity of every
//! order, irreducible extension polynomials, Frobenius constants) and canonical encodings
//! (every decoder accepts exactly the integers below the modulus and returns that value).
//!
//! Everything is exhaustive over the stated finite lists.

use mck::{json, Args, Report, Violation};
use refm::field::{factor, Ext};
use winter_math::fields::{CubeExtension, QuadExtension};
use winter_math::{ExtensibleField, FieldElement, StarkField};
use winter_utils::{Deserializable, Randomizable, Serializable, SliceReader};

use crate::fields::{Fld, F128, F62, F64};

fn viol(report: &mut Report, class: String, key: String, detail: String) {
    report.violation(Violation { class, key: key.clone(), detail, replay: json!({"kind": "constant-or-encoding", "case": key}) });
}

fn le_bytes(v: u128, n: usize) -> Vec<u8> {
    v.to_le_bytes()[..n].to_vec()
}

fn constants<F: Fld>(report: &mut Report) -> u64 {
    let p = F::prime();
    let n = F::NAME;
    let mut evals = 0u64;
    let g = F::int(<F::E as StarkField>::GENERATOR);
    // --- modulus constants -----------------------------------------------------------------------
    let m_bytes = <F::E as StarkField>::get_modulus_le_bytes();
    let elem_bytes = <F::E as FieldElement>::ELEMENT_BYTES;
    if m_bytes != le_bytes(F::M, elem_bytes) {
        viol(report, format!("modulus_bytes:{n}"), n.into(), format!("{n}: get_modulus_le_bytes = {m_bytes:?}, documented modulus {}", F::M));
    }
    let bits = 128 - F::M.leading_zeros();
    if <F::E as StarkField>::MODULUS_BITS != bits {
        viol(report, format!("modulus_bits:{n}"), n.into(), format!("{n}: MODULUS_BITS = {}, modulus has {bits} bits", <F::E as StarkField>::MODULUS_BITS));
    }
    evals += 2;
    // --- Lucas certificate: M is prime and g generates -------------------------------------------
    let (qs, complete) = factor(F::M - 1, 1 << 36);
    if !complete {
        mck::report::machinery(&format!("{n}: could not factor M-1 by trial division (cofactor not proven prime)"));
    }
    // the factor list itself is re-checked: product of prime powers must give back M-1
    let mut rest = F::M - 1;
    for q in &qs {
        while rest % q == 0 {
            rest /= q;
        }
    }
    assert_eq!(rest, 1, "factorisation incomplete");
    if p.pow(g, F::M - 1) != 1 {
        viol(report, format!("not_prime_or_bad_generator:{n}"), n.into(), format!("{n}: g^(M-1) != 1 for g = {g}"));
    }
    for q in &qs {
        evals += 1;
        if p.pow(g, (F::M - 1) / q) == 1 {
            viol(report, format!("generator_order:{n}"), format!("{n}/q={q}"), format!("{n}: GENERATOR {g} has g^((M-1)/{q}) = 1, so it does not generate the multiplicative group"));
        }
    }
    let two_adicity = (F::M - 1).trailing_zeros();
    if <F::E as StarkField>::TWO_ADICITY != two_adicity {
        viol(report, format!("two_adicity:{n}"), n.into(), format!("{n}: TWO_ADICITY = {}, M-1 is divisible by 2^{two_adicity} exactly", <F::E as StarkField>::TWO_ADICITY));
    }
    report.sample(json!({"field": n, "prime_factors_of_M_minus_1": qs.iter().map(|q| q.to_string()).collect::<Vec<_>>(), "generator": g.to_string(), "two_adicity": two_adicity}));
    // --- roots of unity of every order -------------------------------------------------------------
    for k in 1..=<F::E as StarkField>::TWO_ADICITY {
        evals += 1;
        let r = match mck::catch(|| <F::E as StarkField>::get_root_of_unity(k)) {
            Ok(r) => F::int(r),
            Err(e) => {
                viol(report, format!("root_of_unity_panic:{n}"), format!("{n}/k={k}"), format!("{n}: get_root_of_unity({k}) panicked at {}", e.location));
                continue;
            },
        };
        let half = p.pow(r, 1u128 << (k - 1));
        let full = p.mul(half, half);
        if full != 1 || half != F::M - 1 {
            viol(report, format!("root_of_unity_order:{n}"), format!("{n}/k={k}"),
                format!("{n}: get_root_of_unity({k}) = {r}: r^(2^{k}) = {full}, r^(2^{}) = {half} (must be 1 and -1)", k - 1));
        }
    }
    evals
}

/// gcd of two polynomials over F_p (coefficients low to high), monic result degree only
fn poly_gcd_degree(p: &refm::field::Prime, a: &[u128], b: &[u128]) -> usize {
    let trim = |v: &[u128]| {
        let mut v = v.to_vec();
        while v.last() == Some(&0) {
            v.pop();
        }
        v
    };
    let (mut a, mut b) = (trim(a), trim(b));
    while !b.is_empty() {
        // a mod b
        let mut r = a.clone();
        let lb_inv = p.inv(*b.last().unwrap());
        while r.len() >= b.len() {
            let c = p.mul(*r.last().unwrap(), lb_inv);
            let shift = r.len() - b.len();
            for (i, x) in b.iter().enumerate() {
                let t = p.mul(c, *x);
                r[shift + i] = p.sub(r[shift + i], t);
            }
            r = trim(&r);
            if r.is_empty() {
                break;
            }
        }
        a = b;
        b = r;
    }
    a.len().saturating_sub(1)
}

fn irreducible(ext: &Ext) -> bool {
    let p = &ext.p;
    let d = ext.degree();
    // f(x) = x^d - rule
    let mut f: Vec<u128> = ext.rule.iter().map(|c| p.neg(*c)).collect();
    f.push(1);
    // x^p mod f, computed in the quotient ring
    let mut x = vec![0u128; d];
    x[1] = 1;
    let xp = ext.frobenius(&x);
    // g = x^p - x; f has a root in F_p iff gcd(f, g) is not constant. A quadratic or cubic is
    // irreducible iff it has no root in F_p.
    let g = ext.sub(&xp, &x);
    if g.iter().all(|c| *c == 0) {
        return false; // f splits completely
    }
    poly_gcd_degree(p, &f, &g) == 0
}

macro_rules! ext_constants {
    ($fname:ident, $ext:ident, $d:expr) => {
        fn $fname<F: Fld>(ext: &Ext, report: &mut Report) -> u64
        where
            F::E: ExtensibleField<$d>,
        {
            let n = format!("{}^{}", F::NAME, $d);
            let mut evals = 1u64;
            if !irreducible(ext) {
                viol(report, format!("reducible_polynomial:{n}"), n.clone(), format!("{n}: the documented extension polynomial x^{} = {:?} (low to high) has a root in the base field", $d, ext.rule));
            }
            // the implementation multiplies modulo exactly this polynomial: phi^d == rule
            let zero = F::new(0);
            let one = F::new(1);
            let mut phi = [zero; $d];
            phi[1] = one;
            let mut acc = phi;
            for _ in 1..$d {
                acc = <F::E as ExtensibleField<$d>>::mul(acc, phi);
            }
            let got: Vec<u128> = acc.iter().map(|e| F::int(*e)).collect();
            evals += 1;
            if got != ext.rule {
                viol(report, format!("implemented_polynomial:{n}"), n.clone(), format!("{n}: phi^{} = {got:?} in the implementation, documented polynomial says {:?}", $d, ext.rule));
            }
            // Frobenius constants: the p-th power of every basis element and of a few mixed ones
            let coeffs = [0u128, 1, 2, F::M - 1];
            let total = coeffs.len().pow($d);
            for i in 0..total {
                let mut idx = i;
                let mut c = [zero; $d];
                let mut v = vec![0u128; $d];
                for k in 0..$d {
                    v[k] = coeffs[idx % coeffs.len()];
                    c[k] = F::new(v[k]);
                    idx /= coeffs.len();
                }
                let fr: Vec<u128> = <F::E as ExtensibleField<$d>>::frobenius(c).iter().map(|e| F::int(*e)).collect();
                let expect = ext.frobenius(&v);
                evals += 1;
                if fr != expect {
                    viol(report, format!("frobenius_constants:{n}"), format!("{n}/{v:?}"), format!("{n}: frobenius({v:?}) = {fr:?}, the p-th power is {expect:?}"));
                }
            }
            // extension element decoding: every component must be canonical
            let eb = <F::E as FieldElement>::ELEMENT_BYTES;
            let comp = [0u128, 1, F::M - 1, F::M, F::M + 1];
            let maxint: u128 = if eb == 16 { u128::MAX } else { (1u128 << (8 * eb)) - 1 };
            let ncomp = comp.len().pow($d);
            for i in 0..ncomp {
                let mut idx = i;
                let mut bytes = vec![];
                let mut vals = vec![];
                for _ in 0..$d {
                    let v = comp[idx % comp.len()].min(maxint);
                    idx /= comp.len();
                    vals.push(v);
                    bytes.extend(le_bytes(v, eb));
                }
                let valid = vals.iter().all(|v| *v < F::M);
                let a = <$ext<F::E>>::try_from(bytes.as_slice()).ok();
                let b = <$ext<F::E>>::read_from(&mut SliceReader::new(&bytes)).ok();
                let c = <$ext<F::E> as Randomizable>::from_random_bytes(&bytes);
                evals += 3;
                for (name, r) in [("try_from(&[u8])", a), ("read_from", b), ("from_random_bytes", c)] {
                    match r {
                        Some(e) if valid => {
                            let got: Vec<u128> = (0..$d).map(|k| F::int(e.base_element(k))).collect();
                            if got != vals || e.to_bytes() != bytes {
                                viol(report, format!("ext_decode_value:{n}.{name}"), format!("{n}/{vals:?}"), format!("{n} {name}({vals:?}) decoded {got:?}, re-encoded {:?}", e.to_bytes()));
                            }
                        },
                        None if !valid => {},
                        Some(_) => viol(report, format!("ext_decode_accepts_noncanonical:{n}.{name}"), format!("{n}/{vals:?}"), format!("{n} {name} accepted components {vals:?} although one is >= M")),
                        None => viol(report, format!("ext_decode_rejects_canonical:{n}.{name}"), format!("{n}/{vals:?}"), format!("{n} {name} rejected canonical components {vals:?}")),
                    }
                }
            }
            evals
        }
    };
}
ext_constants!(ext_constants2, QuadExtension, 2);
ext_constants!(ext_constants3, CubeExtension, 3);

fn band(m: u128, width: u128, type_max: u128) -> Vec<u128> {
    let mut v = vec![];
    let mut push = |lo: u128, hi: u128| {
        let mut x = lo;
        loop {
            if x <= type_max {
                v.push(x);
            }
            if x >= hi || x == u128::MAX {
                break;
            }
            x += 1;
        }
    };
    push(0, width);
    push(m - width, m.saturating_add(width));
    if let Some(m2) = m.checked_mul(2) {
        push(m2 - width, m2.saturating_add(width));
    }
    push(type_max - width, type_max);
    for k in 0..128u32 {
        let p = 1u128 << k;
        push(p.saturating_sub(2), p.saturating_add(2));
    }
    v.sort();
    v.dedup();
    v
}

fn decoders<F: Fld>(report: &mut Report, width: u128) -> (u64, u64) {
    let n = F::NAME;
    let eb = <F::E as FieldElement>::ELEMENT_BYTES;
    let mut evals = 0u64;
    let mut nontrivial = 0u64;
    let mut check = |report: &mut Report, name: &str, v: u128, got: Option<F::E>, must_accept: Option<bool>| {
        evals += 1;
        let accept = must_accept.unwrap_or(v < F::M);
        match got {
            Some(e) if accept => {
                let expect = v % F::M;
                let bytes = e.to_bytes();
                if F::int(e) != expect || bytes != le_bytes(expect, eb) || !(e == F::new(expect)) {
                    viol(report, format!("decode_value:{n}.{name}"), format!("{n}/{name}/{v}"), format!("{n} {name}({v}) has value {}, bytes {bytes:?}; expected value {expect}", F::int(e)));
                }
            },
            None if !accept => {},
            Some(e) => viol(report, format!("decode_accepts_noncanonical:{n}.{name}"), format!("{n}/{name}/{v}"), format!("{n} {name}({v}) accepted a value >= M and returned {}", F::int(e))),
            None => viol(report, format!("decode_rejects_canonical:{n}.{name}"), format!("{n}/{name}/{v}"), format!("{n} {name}({v}) rejected a value below the modulus")),
        }
    };
    // integers of every width
    for v in band(F::M, width, u64::MAX as u128) {
        nontrivial += 1;
        check(report, "try_from(u64)", v, <F::E as TryFrom<u64>>::try_from(v as u64).ok(), None);
        if eb == 8 {
            let b = le_bytes(v, 8);
            check(report, "try_from(&[u8])", v, <F::E>::try_from(b.as_slice()).ok(), None);
            check(report, "read_from", v, <F::E>::read_from(&mut SliceReader::new(&b)).ok(), None);
            check(report, "read_from_bytes", v, <F::E>::read_from_bytes(&b).ok(), None);
            check(report, "from_random_bytes", v, <F::E as Randomizable>::from_random_bytes(&b), None);
            // the constructor reduces
            check(report, "new", v, Some(F::new(v)), Some(true));
        }
    }
    for v in band(F::M, width, u128::MAX) {
        nontrivial += 1;
        check(report, "try_from(u128)", v, <F::E as TryFrom<u128>>::try_from(v).ok(), None);
        if eb == 16 {
            let b = le_bytes(v, 16);
            check(report, "try_from(&[u8])", v, <F::E>::try_from(b.as_slice()).ok(), None);
            check(report, "read_from", v, <F::E>::read_from(&mut SliceReader::new(&b)).ok(), None);
            check(report, "from_random_bytes", v, <F::E as Randomizable>::from_random_bytes(&b), None);
            check(report, "new", v, Some(F::new(v)), Some(true));
        }
    }
    for v in (0..=u16::MAX as u128).step_by(1) {
        if v <= 255 {
            check(report, "from(u8)", v, Some(<F::E as From<u8>>::from(v as u8)), Some(true));
        }
        check(report, "from(u16)", v, Some(<F::E as From<u16>>::from(v as u16)), Some(true));
    }
    for v in band(F::M, width.min(256), u32::MAX as u128) {
        check(report, "from(u32)", v, Some(<F::E as From<u32>>::from(v as u32)), Some(true));
    }
    // byte slices of every length 0..=ELEMENT_BYTES+1: only the exact length decodes
    for len in 0..=eb + 1 {
        for fill in [0u8, 1, 0xFF] {
            let b = vec![fill; len];
            evals += 1;
            let r = <F::E>::try_from(b.as_slice()).ok();
            let mut val = 0u128;
            for (i, x) in b.iter().enumerate().take(16) {
                val |= (*x as u128) << (8 * i);
            }
            let should = len == eb && val < F::M;
            if r.is_some() != should {
                viol(report, format!("slice_length:{n}"), format!("{n}/len={len}/fill={fill}"), format!("{n}: try_from(&[{fill}; {len}]) accepted = {}, expected {should}", r.is_some()));
            }
            // padding constructor: documented for strictly shorter slices
            if len < eb {
                evals += 1;
                match mck::catch(|| <F::E as StarkField>::from_bytes_with_padding(&b)) {
                    Ok(e) if F::int(e) == val => {},
                    Ok(e) => viol(report, format!("from_bytes_with_padding_value:{n}"), format!("{n}/len={len}/fill={fill}"), format!("{n}: from_bytes_with_padding gave {}, expected {val}", F::int(e))),
                    Err(p) => viol(report, format!("from_bytes_with_padding_panic:{n}"), format!("{n}/len={len}/fill={fill}"), format!("{n}: from_bytes_with_padding panicked at {} on a {len}-byte slice", p.location)),
                }
            }
        }
    }
    (evals, nontrivial)
}

pub fn run(args: &Args) {
    let mut report = Report::new(args, "exploration");
    let wl: u32 = if args.tier == mck::Tier::Thorough { 22 } else { 12 };
    let width: u128 = 1 << wl;
    let c = constants::<F64>(&mut report) + constants::<F62>(&mut report) + constants::<F128>(&mut report);
    report.part("modulus, generator, two-adicity, roots of unity of every order", c, c, json!("Lucas certificate from a trial-division factorisation of M-1 done by the harness"));
    let e = ext_constants2::<F64>(&Ext::f64_quad(), &mut report)
        + ext_constants3::<F64>(&Ext::f64_cube(), &mut report)
        + ext_constants2::<F62>(&Ext::f62_quad(), &mut report)
        + ext_constants3::<F62>(&Ext::f62_cube(), &mut report)
        + ext_constants2::<F128>(&Ext::f128_quad(), &mut report);
    report.part("extension polynomials, Frobenius constants, extension decoders", e, e, json!("irreducibility: gcd(f, x^p - x) = 1 computed in R1; Frobenius vs literal p-th power on all coefficient tuples over {0,1,2,-1}"));
    let (d1, n1) = decoders::<F64>(&mut report, width);
    let (d2, n2) = decoders::<F62>(&mut report, width);
    let (d3, n3) = decoders::<F128>(&mut report, width);
    report.part("integer and byte decoders on boundary bands", d1 + d2 + d3, n1 + n2 + n3,
        json!({"bands": format!("[0,2^{wl}], [M-2^{wl},M+2^{wl}], [2M-2^{wl},2M+2^{wl}], top 2^{wl} of the integer type, within 2 of every power of two"), "slice_lengths": "0..=ELEMENT_BYTES+1"}));
    report.sample(json!({"decoder": "f64 try_from(u64)", "input": (F64::M).to_string(), "expected": "rejected (equals the modulus)"}));
    report.exhaustive = true;
    report.rule = "every listed constant, every root-of-unity order, every coefficient tuple and every integer of the boundary bands is one case; distinct by construction; non-trivial = the case exercises a decoder or a constant of the implementation (all do)".into();
    report.assumptions = vec!["R1 (schoolbook modular arithmetic) is trusted".into(), "integers outside the boundary bands are out of bound".into()];
    report.finish(args)
}
