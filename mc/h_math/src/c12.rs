//! C12 — FFT evaluation / interpolation / degree inference against the O(n²) definition (R2),
//! for every power-of-two size in the bound, every blowup, several offsets, base and extension
//! coefficients. In the `conc` build the same cases run under the controlled scheduler.

use mck::{json, Args, Report, Violation};
use refm::poly as r2;
use winter_math::fields::{f128, f62, f64, CubeExtension, QuadExtension};
use winter_math::{fft, FieldElement, StarkField};

use crate::c14::Sweep;

#[derive(Clone, Copy, PartialEq, Debug)]
struct W<E: FieldElement>(E);
impl<E: FieldElement> r2::F for W<E> {
    fn zero(&self) -> Self {
        W(E::ZERO)
    }
    fn one(&self) -> Self {
        W(E::ONE)
    }
    fn add(&self, o: &Self) -> Self {
        W(self.0 + o.0)
    }
    fn sub(&self, o: &Self) -> Self {
        W(self.0 - o.0)
    }
    fn mul(&self, o: &Self) -> Self {
        W(self.0 * o.0)
    }
    fn inv(&self) -> Self {
        W(self.0.inv())
    }
    fn is_zero(&self) -> bool {
        self.0 == E::ZERO
    }
}

/// the domain {offset · g^i}, by repeated multiplication
fn domain<B: StarkField>(size: usize, offset: B) -> Vec<B> {
    let g = B::get_root_of_unity(size.ilog2());
    let mut v = Vec::with_capacity(size);
    let mut x = offset;
    for _ in 0..size {
        v.push(x);
        x *= g;
    }
    v
}

fn naive_eval<B: StarkField, E: FieldElement<BaseField = B>>(p: &[E], xs: &[B]) -> Vec<E> {
    let wp: Vec<W<E>> = p.iter().map(|c| W(*c)).collect();
    xs.iter().map(|x| r2::eval(&wp, &W(E::from(*x))).0).collect()
}

#[derive(Clone, Debug)]
pub enum Coeffs {
    Unit(usize),
    Counter,
    AllMinusOne,
    /// degree exactly d: counter coefficients up to d, zeros above
    Degree(usize),
}

fn coeffs<E: FieldElement>(n: usize, c: &Coeffs) -> Vec<E> {
    match c {
        Coeffs::Unit(k) => (0..n).map(|i| if i == *k { E::ONE } else { E::ZERO }).collect(),
        Coeffs::Counter => (0..n).map(|i| E::from(i as u32 + 1) * E::from(2654435761u32) + E::from(i as u32)).collect(),
        Coeffs::AllMinusOne => vec![-E::ONE; n],
        Coeffs::Degree(d) => (0..n).map(|i| if i <= *d { E::from(i as u32 + 3) } else { E::ZERO }).collect(),
    }
}

fn coeff_alphabet(n: usize) -> Vec<Coeffs> {
    let mut v = vec![Coeffs::Counter, Coeffs::AllMinusOne];
    if n <= 64 {
        v.extend((0..n).map(Coeffs::Unit));
    } else {
        for k in [0, 1, 2, n / 2 - 1, n / 2, n / 2 + 1, n - 2, n - 1] {
            v.push(Coeffs::Unit(k));
        }
    }
    v
}

pub fn size_sweep<B: StarkField, E: FieldElement<BaseField = B>>(name: &str, log_n: u32, naive_cap: usize, tag: &str, s: &mut Sweep) {
    let n = 1usize << log_n;
    let offsets: Vec<B> = vec![B::ONE, B::GENERATOR, B::from(7u8), -B::ONE, B::GENERATOR.inv()];
    let blowups = [1usize, 2, 4, 8, 16];
    let twiddles = fft::get_twiddles::<B>(n);
    let inv_twiddles = fft::get_inv_twiddles::<B>(n);
    macro_rules! guard {
        ($what:expr, $key:expr, $e:expr) => {
            match mck::catch(|| $e) {
                Ok(v) => Some(v),
                Err(p) => {
                    s.fail(format!("panic:{name}:{}:{}", $what, p.location), $key.clone(), format!("{name} {} panicked at {} ({}) for {}{tag}", $what, p.location, p.message, $key));
                    None
                },
            }
        };
    }
    for c in coeff_alphabet(n) {
        let p: Vec<E> = coeffs(n, &c);
        let key = format!("{name}/n={n}/{c:?}");
        // expected values on the unshifted domain
        let dense = !matches!(c, Coeffs::Unit(_));
        if dense && n * n > naive_cap {
            continue;
        }
        let expect_on = |size: usize, offset: B| -> Vec<E> {
            match &c {
                Coeffs::Unit(k) => domain::<B>(size, offset).iter().map(|x| E::from(x.exp_vartime((*k as u32).into()))).collect(),
                _ => naive_eval(&p, &domain::<B>(size, offset)),
            }
        };
        // --- evaluate_poly (in place) and serial_fft ---------------------------------------------------
        s.evals += 2;
        s.nontrivial += 2;
        let e0 = expect_on(n, B::ONE);
        let mut a = p.clone();
        if guard!("evaluate_poly", key, fft::evaluate_poly(&mut a, &twiddles)).is_some() && a != e0 {
            let i = a.iter().zip(&e0).position(|(x, y)| x != y);
            s.fail(format!("wrong:{name}:evaluate_poly"), key.clone(), format!("{key}{tag}: evaluate_poly differs from naive evaluation first at index {i:?}"));
        }
        let mut a2 = p.clone();
        if guard!("serial_fft", key, fft::serial_fft(&mut a2, &twiddles)).is_some() && a2 != e0 {
            s.fail(format!("wrong:{name}:serial_fft"), key.clone(), format!("{key}{tag}: serial_fft differs from naive evaluation"));
        }
        // --- interpolate_poly inverts evaluation ----------------------------------------------------------
        s.evals += 1;
        s.nontrivial += 1;
        let mut b = e0.clone();
        if guard!("interpolate_poly", key, fft::interpolate_poly(&mut b, &inv_twiddles)).is_some() && b != p {
            s.fail(format!("wrong:{name}:interpolate_poly"), key.clone(), format!("{key}{tag}: interpolate_poly(naive evaluations) does not give back the coefficients"));
        }
        // --- with offset and blowup --------------------------------------------------------------------------
        for &off in &offsets {
            for &blowup in &blowups {
                if (n * blowup).ilog2() > B::TWO_ADICITY {
                    continue;
                }
                if dense && n * n * blowup > naive_cap {
                    continue;
                }
                s.evals += 1;
                s.nontrivial += 1;
                let k2 = format!("{key}/offset={off}/blowup={blowup}");
                let e = expect_on(n * blowup, off);
                if let Some(got) = guard!("evaluate_poly_with_offset", k2, fft::evaluate_poly_with_offset(&p, &twiddles, off, blowup)) {
                    if got != e {
                        let i = got.iter().zip(&e).position(|(x, y)| x != y);
                        s.fail(format!("wrong:{name}:evaluate_poly_with_offset"), k2.clone(), format!("{k2}{tag}: result differs from naive evaluation over the offset domain first at index {i:?} (lengths {} / {})", got.len(), e.len()));
                    }
                }
                if blowup == 1 {
                    s.evals += 1;
                    s.nontrivial += 1;
                    let mut b = e.clone();
                    if guard!("interpolate_poly_with_offset", k2, fft::interpolate_poly_with_offset(&mut b, &inv_twiddles, off)).is_some() && b != p {
                        s.fail(format!("wrong:{name}:interpolate_poly_with_offset"), k2.clone(), format!("{k2}{tag}: interpolation over the offset domain does not give back the coefficients"));
                    }
                }
            }
        }
    }
    // --- degree inference for every degree ------------------------------------------------------------------------
    if n <= 256 {
        for d in 0..n {
            for &off in &offsets[..3] {
                s.evals += 1;
                s.nontrivial += 1;
                let p: Vec<E> = coeffs(n, &Coeffs::Degree(d));
                let ev = naive_eval(&p, &domain::<B>(n, off));
                let key = format!("{name}/n={n}/degree={d}/offset={off}");
                if let Some(got) = guard!("infer_degree", key, fft::infer_degree(&ev, off)) {
                    if got != d {
                        s.fail(format!("wrong:{name}:infer_degree"), key.clone(), format!("{key}{tag}: infer_degree = {got}"));
                    }
                }
            }
        }
    }
    // --- permute_index is the bit reversal ----------------------------------------------------------------------------
    for i in 0..n.min(4096) {
        s.evals += 1;
        let mut r = 0usize;
        for bit in 0..log_n {
            if i >> bit & 1 == 1 {
                r |= 1 << (log_n - 1 - bit);
            }
        }
        if fft::permute_index(n, i) != r {
            s.fail("wrong:permute_index".into(), format!("n={n}/i={i}"), format!("permute_index({n}, {i}) = {}, bit reversal is {r}", fft::permute_index(n, i)));
        }
    }
}

/// serial FFT at sizes beyond the full-comparison bound: each checked output entry is recomputed
/// by Horner's rule (O(n) per entry), on a fixed spread of rows including the edges
fn large_spot<B: StarkField, E: FieldElement<BaseField = B>>(name: &str, log_n: u32, s: &mut Sweep) {
    let n = 1usize << log_n;
    let tw = fft::get_twiddles::<B>(n);
    let itw = fft::get_inv_twiddles::<B>(n);
    let horner = |p: &[E], x: B| -> E {
        let x = E::from(x);
        p.iter().rev().fold(E::ZERO, |a, c| a * x + *c)
    };
    let p: Vec<E> = coeffs::<E>(n, &Coeffs::Counter);
    let rows = |m: usize| -> Vec<usize> {
        let mut r: Vec<usize> = (0..m).step_by((m / 90).max(1)).collect();
        r.extend([1, 2, m / 2 - 1, m / 2, m / 2 + 1, m - 2, m - 1]);
        r.sort();
        r.dedup();
        r
    };
    let mut check = |what: &str, got: Result<Vec<E>, mck::Panicked>, blowup: usize, offset: B, s: &mut Sweep| {
        s.evals += 1;
        s.nontrivial += 1;
        let key = format!("{name}/n=2^{log_n}/{what}/blowup={blowup}");
        match got {
            Err(pn) => s.fail(format!("panic:{name}:{what}:{}", pn.location), key, format!("{name} {what} panicked at {} ({})", pn.location, pn.message)),
            Ok(v) => {
                let m = n * blowup;
                if v.len() != m {
                    return s.fail(format!("wrong:{name}:{what}:length"), key, format!("{name} {what}: {} values for a domain of {m}", v.len()));
                }
                let g = B::get_root_of_unity(m.trailing_zeros());
                for r in rows(m) {
                    let x = offset * g.exp((r as u64).into());
                    if v[r] != horner(&p, x) {
                        return s.fail(format!("wrong:{name}:{what}:large"), key, format!("{name} {what} at n = 2^{log_n}, blowup {blowup}: entry {r} differs from Horner evaluation at offset * g^{r}"));
                    }
                }
            },
        }
    };
    check("evaluate_poly", mck::catch(|| { let mut v = p.clone(); fft::evaluate_poly(&mut v, &tw); v }), 1, B::ONE, s);
    check("serial_fft", mck::catch(|| { let mut v = p.clone(); fft::serial_fft(&mut v, &tw); v }), 1, B::ONE, s);
    let blowups: &[usize] = if log_n <= 13 { &[2, 16, 32] } else { &[2] };
    for &b in blowups {
        for off in [B::GENERATOR, B::from(7u8)] {
            check("evaluate_poly_with_offset", mck::catch(|| fft::evaluate_poly_with_offset(&p, &tw, off, b)), b, off, s);
        }
    }
    // interpolation inverts evaluation (full comparison, no oracle cost)
    s.evals += 2;
    match mck::catch(|| { let mut v = p.clone(); fft::evaluate_poly(&mut v, &tw); fft::interpolate_poly(&mut v, &itw); v }) {
        Ok(v) if v == p => {},
        _ => s.fail(format!("wrong:{name}:interpolate_poly:large"), format!("{name}/n=2^{log_n}"), format!("{name}: interpolate_poly does not invert evaluate_poly at n = 2^{log_n}")),
    }
    match mck::catch(|| { let mut v = fft::evaluate_poly_with_offset(&p, &tw, B::from(7u8), 1); fft::interpolate_poly_with_offset(&mut v, &itw, B::from(7u8)); v }) {
        Ok(v) if v == p => {},
        _ => s.fail(format!("wrong:{name}:interpolate_poly_with_offset:large"), format!("{name}/n=2^{log_n}"), format!("{name}: interpolate_poly_with_offset does not invert evaluation at n = 2^{log_n}")),
    }
}

/// conc build: the sizes that take the concurrent FFT paths, under every thread count and every
/// single-region deviation of the controlled scheduler (engine E3); same oracle (naive DFT)
#[cfg(feature = "conc")]
fn run_conc(args: &Args) -> ! {
    let mut report = Report::new(args, "exploration");
    let thorough = args.tier == mck::Tier::Thorough;
    type B64 = f64::BaseElement;
    type B128 = f128::BaseElement;
    let logs: Vec<u32> = if thorough { vec![9, 10, 11, 12] } else { vec![10, 11] };
    let ts_all = [1usize, 2, 3, 4, 5, 8, 16];
    let ts_dev: Vec<usize> = if thorough { vec![2, 4, 8] } else { vec![2, 4] };
    let naive_cap: usize = 1 << 26;
    fn one<B: StarkField, E: FieldElement<BaseField = B>>(name: &str, l: u32, cap: usize, ts_all: &[usize], ts_dev: &[usize]) -> (Sweep, rayon::ExploreStats) {
        // the naive expectations are computed once; every schedule re-runs only the FFT calls
        let _ = cap;
        let n = 1usize << l;
        let tw = fft::get_twiddles::<B>(n);
        let itw = fft::get_inv_twiddles::<B>(n);
        let polys: Vec<Vec<E>> = vec![coeffs::<E>(n, &Coeffs::Unit(1)), coeffs::<E>(n, &Coeffs::Unit(n - 1)), coeffs::<E>(n, &Coeffs::Counter)];
        let off = B::GENERATOR;
        let plain: Vec<Vec<E>> = polys.iter().map(|p| naive_eval(p, &domain::<B>(n, B::ONE))).collect();
        let blown: Vec<Vec<Vec<E>>> = polys.iter().map(|p| [2usize, 8].iter().map(|b| naive_eval(p, &domain::<B>(n * b, off))).collect()).collect();
        let shifted: Vec<Vec<E>> = polys.iter().map(|p| naive_eval(p, &domain::<B>(n, off))).collect();
        let mut s = Sweep::new();
        let st = rayon::explore(ts_all, ts_dev, 0, |tag| {
            for (k, p) in polys.iter().enumerate() {
                let key = format!("{name}/n={n}/poly={k} [{tag}]");
                let mut chk = |what: &str, got: Result<Vec<E>, mck::Panicked>, want: &Vec<E>, s: &mut Sweep| {
                    s.evals += 1;
                    s.nontrivial += 1;
                    match got {
                        Err(pn) => s.fail(format!("panic:{name}:{what}:{}", pn.location), key.clone(), format!("{name} {what} panicked at {} ({}) for {key}", pn.location, pn.message)),
                        Ok(g) if &g != want => s.fail(format!("wrong:{name}:{what}:concurrent"), key.clone(), format!("{name} {what} differs from the naive evaluation for {key}")),
                        _ => {},
                    }
                };
                chk("evaluate_poly", mck::catch(|| { let mut v = p.clone(); fft::evaluate_poly(&mut v, &tw); v }), &plain[k], &mut s);
                for (bi, b) in [2usize, 8].iter().enumerate() {
                    chk("evaluate_poly_with_offset", mck::catch(|| fft::evaluate_poly_with_offset(p, &tw, off, *b)), &blown[k][bi], &mut s);
                }
                chk("interpolate_poly", mck::catch(|| { let mut v = plain[k].clone(); fft::interpolate_poly(&mut v, &itw); v }), p, &mut s);
                chk("interpolate_poly_with_offset", mck::catch(|| { let mut v = shifted[k].clone(); fft::interpolate_poly_with_offset(&mut v, &itw, off); v }), p, &mut s);
            }
        });
        (s, st)
    }
    // short polynomials with large blowups: the LDE domain crosses the parallel threshold although the
    // polynomial does not (n = 2..512, n * blowup in {512, 1024, 2048, 4096}), for thread counts up to 64
    fn small_blowup<B: StarkField, E: FieldElement<BaseField = B>>(name: &str) -> (Sweep, rayon::ExploreStats) {
        let off = B::GENERATOR;
        let mut cases: Vec<(usize, usize, Vec<B>, Vec<E>, Vec<E>)> = vec![];
        for ln in 1..=9u32 {
            let n = 1usize << ln;
            for lde in [512usize, 1024, 2048, 4096] {
                if lde <= n {
                    continue;
                }
                let b = lde / n;
                let p = coeffs::<E>(n, &Coeffs::Counter);
                let want = naive_eval(&p, &domain::<B>(lde, off));
                cases.push((n, b, fft::get_twiddles::<B>(n), p, want));
            }
        }
        let mut s = Sweep::new();
        let st = rayon::explore(&[1, 2, 3, 4, 5, 8, 16, 32, 64], &[2, 4], 0, |tag| {
            for (n, b, tw, p, want) in &cases {
                s.evals += 1;
                s.nontrivial += 1;
                let key = format!("{name}/n={n}/blowup={b} [{tag}]");
                match mck::catch(|| fft::evaluate_poly_with_offset(p, tw, off, *b)) {
                    Err(pn) => s.fail(format!("panic:{name}:evaluate_poly_with_offset:{}", pn.location), key.clone(), format!("{name} evaluate_poly_with_offset panicked at {} ({}) for {key}", pn.location, pn.message)),
                    Ok(g) if &g != want => s.fail(format!("wrong:{name}:evaluate_poly_with_offset:concurrent"), key.clone(), format!("{name} evaluate_poly_with_offset differs from the naive evaluation for {key}")),
                    _ => {},
                }
            }
        });
        (s, st)
    }
    let extra = [small_blowup::<B64, B64>("f64"), small_blowup::<B64, QuadExtension<B64>>("f64^2")];
    let (mut xe, mut xs, mut xn, mut xt) = (0, 0, 0, 0);
    for (s, st) in extra {
        xe += s.evals;
        xs += st.schedules;
        xn += st.nontrivial;
        xt += st.task_runs;
        report.violations(s.viol);
        for (c, n) in s.more {
            report.count_more(&c, n);
        }
    }
    report.part("conc build: evaluate_poly_with_offset on short polynomials (2..512 coefficients) with blowups that take the LDE domain to 512..4096 points, T in {1,2,3,4,5,8,16,32,64}", xe, xe,
        json!({"schedules": xs, "nontrivial_schedules": xn, "task_executions": xt}));
    let jobs: Vec<(usize, u32)> = (0..3).flat_map(|k| logs.iter().map(move |l| (k, *l))).collect();
    let outs = mck::par_map(jobs.len(), |j| match jobs[j].0 {
        0 => one::<B64, B64>("f64", jobs[j].1, naive_cap, &ts_all, &ts_dev),
        1 => one::<B128, B128>("f128", jobs[j].1, naive_cap, &ts_all, &ts_dev),
        _ => one::<B64, QuadExtension<B64>>("f64^2", jobs[j].1, naive_cap, &ts_all, &ts_dev),
    });
    let (mut evals, mut sched, mut nontrivial, mut tasks) = (0, 0, 0, 0);
    let mut regions = vec![];
    for ((k, l), (s, st)) in jobs.iter().zip(outs) {
        evals += s.evals;
        sched += st.schedules;
        nontrivial += st.nontrivial;
        tasks += st.task_runs;
        if *k == 0 {
            regions.push(json!({"log2_size": l, "regions_(threads,total,multi)": st.regions}));
        }
        report.violations(s.viol);
        for (c, n) in s.more {
            report.count_more(&c, n);
        }
    }
    report.part("conc build under the controlled scheduler: evaluate / interpolate (with offset, blowups) on sizes taking the concurrent FFT, T in {1,2,3,4,5,8,16}, every region reversed and rotated", evals, nontrivial,
        json!({"schedules": sched, "task_executions": tasks, "regions_f64": regions}));
    report.exhaustive = true;
    report.bounds = json!({"log2_sizes": logs, "thread_counts": ts_all, "deviation_bound": 1});
    report.rule = "one case per (field, size, coefficient vector, function, offset, blowup, schedule); each compares a whole output vector with the naive DFT".into();
    report.assumptions = vec!["tasks are atomic (no scheduling point inside a task)".into()];
    report.finish(args)
}

pub fn run(args: &Args) {
    #[cfg(feature = "conc")]
    if args.variant.starts_with("conc") {
        run_conc(args);
    }
    let mut report = Report::new(args, "exploration");
    let thorough = args.tier == mck::Tier::Thorough;
    let max_log = if thorough { 12 } else { 10 };
    let naive_cap: usize = if thorough { 1 << 28 } else { 1 << 24 };
    type B64 = f64::BaseElement;
    type B62 = f62::BaseElement;
    type B128 = f128::BaseElement;
    // (field kind, log size) jobs
    let jobs: Vec<(usize, u32)> = (0..7).flat_map(|k| (1..=max_log).map(move |l| (k, l))).collect();
    let outs = mck::par_map(jobs.len(), |j| {
        let (k, l) = jobs[j];
        let mut s = Sweep::new();
        // extension columns cost 2-3x: stop one size earlier in the quick tier
        let lcap = if k >= 3 && !thorough { max_log - 1 } else { max_log };
        if l <= lcap {
            match k {
                0 => size_sweep::<B64, B64>("f64", l, naive_cap, "", &mut s),
                1 => size_sweep::<B62, B62>("f62", l, naive_cap, "", &mut s),
                2 => size_sweep::<B128, B128>("f128", l, naive_cap, "", &mut s),
                3 => size_sweep::<B64, QuadExtension<B64>>("f64^2", l, naive_cap, "", &mut s),
                4 => size_sweep::<B64, CubeExtension<B64>>("f64^3", l, naive_cap, "", &mut s),
                5 => size_sweep::<B62, QuadExtension<B62>>("f62^2", l, naive_cap, "", &mut s),
                _ => size_sweep::<B128, QuadExtension<B128>>("f128^2", l, naive_cap, "", &mut s),
            }
        }
        (k, s)
    });
    let names = ["f64", "f62", "f128", "f64^2", "f64^3", "f62^2", "f128^2"];
    let mut per: Vec<(u64, u64)> = vec![(0, 0); 7];
    for (k, s) in outs {
        per[k].0 += s.evals;
        per[k].1 += s.nontrivial;
        report.violations(s.viol);
        for (c, n) in s.more {
            report.count_more(&c, n);
        }
    }
    for (k, (e, n)) in per.iter().enumerate() {
        report.part(names[k], *e, *n, json!({"sizes": format!("2^1..2^{max_log}")}));
    }
    // large sizes: the whole output cannot be compared with an O(n^2) evaluation, but every output
    // entry can be checked on its own by Horner's rule — all entries of a fixed spread of 96 rows
    {
        let top = if thorough { 18 } else { 16 };
        let jobs: Vec<(usize, u32)> = (0..4).flat_map(|k| (max_log + 1..=top).map(move |l| (k, l))).collect();
        let outs = mck::par_map(jobs.len(), |j| {
            let (k, l) = jobs[j];
            let mut s = Sweep::new();
            match k {
                0 => large_spot::<B64, B64>("f64", l, &mut s),
                1 => large_spot::<B128, B128>("f128", l, &mut s),
                2 => large_spot::<B64, CubeExtension<B64>>("f64^3", l, &mut s),
                _ => large_spot::<B62, QuadExtension<B62>>("f62^2", l, &mut s),
            }
            s
        });
        let mut t = Sweep::new();
        for o in outs {
            t.merge(o);
        }
        report.part("large sizes (serial): evaluate / evaluate with offset (blowups 1, 2, 16, 32) / interpolate, spot-checked by Horner on 96 rows", t.evals, t.nontrivial, json!({"sizes": format!("2^{}..2^{top}", max_log + 1)}));
        report.violations(t.viol);
        for (c, n) in t.more {
            report.count_more(&c, n);
        }
    }
    report.sample(json!({"function": "evaluate_poly_with_offset", "field": "f64", "n": 64, "coefficients": "unit vector e_63", "offset": "GENERATOR", "blowup": 16, "oracle": "(offset * g^i)^63 for every i"}));
    report.sample(json!({"function": "infer_degree", "field": "f62", "n": 256, "degree": 255}));
    report.exhaustive = true;
    report.bounds = json!({"sizes": format!("every power of two from 2 to 2^{max_log} (crosses the 512-element recursion switch)"), "blowups": [1, 2, 4, 8, 16],
        "offsets": "1, GENERATOR, 7, -1, GENERATOR^-1", "coefficients": "every unit vector (n <= 64; 8 positions beyond), counter vector, all -1",
        "dense_naive_cap": naive_cap, "degree_inference": "every degree 0..n-1 for n <= 256"});
    report.rule = "one case per (field, size, coefficient vector, function, offset, blowup); all distinct; each compares a whole output vector with the definition".into();
    report.assumptions = vec!["serial build here; the concurrent FFT is compared bit for bit with this one under E3 in the conc build".into(), "field arithmetic is the one checked by C10".into()];
    report.finish(args)
}

#[allow(dead_code)]
fn _u(_: Violation) {}
