//! C13 — polynomial helpers against the definitional reference R2, exhaustively over all
//! coefficient vectors of length ≤ 4 (thorough: ≤ 8, extension fields ≤ 5) over a four-letter alphabet, for every
//! supported field and extension; plus, for the division helpers (linear in the dividend), every unit
//! vector and one dense vector of every length up to 20 (thorough 36) against every divisor x^a - b.

use mck::{json, Args, Report, Violation};
use refm::poly as r2;
use winter_math::fields::{f128, f62, f64, CubeExtension, QuadExtension};
use winter_math::{polynom, FieldElement};

/// winterfell element as an R2 scalar (its arithmetic is vouched for by C10)
#[derive(Clone, Copy, PartialEq, Debug)]
struct W<E: FieldElement>(E);
impl<E: FieldElement> r2::F for W<E> {
    fn zero(&self) -> Self {
        W(E::ZERO)
    }
    fn one(&self) -> Self {
        W(E::ONE)
    }
    fn add(&self, o: &Self) -> Self {
        W(self.0 + o.0)
    }
    fn sub(&self, o: &Self) -> Self {
        W(self.0 - o.0)
    }
    fn mul(&self, o: &Self) -> Self {
        W(self.0 * o.0)
    }
    fn inv(&self) -> Self {
        W(self.0.inv())
    }
    fn is_zero(&self) -> bool {
        self.0 == E::ZERO
    }
}

fn w<E: FieldElement>(v: &[E]) -> Vec<W<E>> {
    v.iter().map(|e| W(*e)).collect()
}
fn unw<E: FieldElement>(v: &[W<E>]) -> Vec<E> {
    v.iter().map(|e| e.0).collect()
}
fn padded<E: FieldElement>(v: &[E], n: usize) -> Vec<E> {
    let mut v = v.to_vec();
    while v.len() < n {
        v.push(E::ZERO);
    }
    v
}

struct Sweep {
    evals: u64,
    viol: Vec<Violation>,
    more: Vec<(String, u64)>,
}

impl Sweep {
    fn fail(&mut self, class: String, key: String, detail: String) {
        if self.viol.iter().filter(|v| v.class == class).count() < 3 {
            self.viol.push(Violation { class, key: key.clone(), detail, replay: json!({"kind": "poly", "case": key}) });
        } else if let Some(m) = self.more.iter_mut().find(|(c, _)| *c == class) {
            m.1 += 1;
        } else {
            self.more.push((class, 1));
        }
    }
}

/// all vectors of length 0..=maxlen over the alphabet, shortest first
fn vectors<E: Copy>(alpha: &[E], maxlen: usize) -> Vec<Vec<E>> {
    let mut out = vec![vec![]];
    let mut level: Vec<Vec<E>> = vec![vec![]];
    for _ in 0..maxlen {
        let mut next = vec![];
        for v in &level {
            for a in alpha {
                let mut x = v.clone();
                x.push(*a);
                next.push(x);
            }
        }
        out.extend(next.iter().cloned());
        level = next;
    }
    out
}

fn sweep<E: FieldElement>(name: &str, alpha: &[E], maxlen: usize, pair_len: usize) -> Sweep {
    let mut s = Sweep { evals: 0, viol: vec![], more: vec![] };
    let z = W(E::ZERO);
    // fields with redundant internal representations: a second representation of 0 and of 1 join the
    // alphabet (equal values, different bytes), so every function also sees them in every position
    let mut alpha_v: Vec<E> = alpha.to_vec();
    for e in [E::ZERO, E::ONE] {
        if let Some(t) = crate::fields::twin(e) {
            alpha_v.push(t);
        }
    }
    let (maxlen, pair_len) = if alpha_v.len() > alpha.len() { (maxlen.min(6), pair_len.min(4)) } else { (maxlen, pair_len) };
    let alpha: &[E] = &alpha_v;
    let polys = vectors(alpha, maxlen);
    let small = vectors(alpha, pair_len);
    macro_rules! guard {
        ($class:expr, $key:expr, $e:expr) => {
            match mck::catch(|| $e) {
                Ok(v) => Some(v),
                Err(p) => {
                    s.fail(format!("panic:{}:{}:{}", name, $class, p.location), $key, format!("{name} {} panicked at {} ({}) on {}", $class, p.location, p.message, $key));
                    None
                },
            }
        };
    }
    // ---- unary: eval, eval_many, degree_of, remove_leading_zeros, mul_by_scalar --------------------
    for p in &polys {
        let key = format!("{name}/p={p:?}");
        s.evals += 1;
        let xs: Vec<E> = alpha.to_vec();
        let expect: Vec<E> = xs.iter().map(|x| r2::eval(&w(p), &W(*x)).0).collect();
        for (x, e) in xs.iter().zip(&expect) {
            s.evals += 1;
            if let Some(got) = guard!("eval", format!("{key}/x={x:?}"), polynom::eval(p, *x)) {
                if got != *e {
                    s.fail(format!("wrong:{name}:eval"), format!("{key}/x={x:?}"), format!("{name} eval({p:?}, {x:?}) = {got:?}, definition gives {e:?}"));
                }
            }
        }
        if let Some(got) = guard!("eval_many", key.clone(), polynom::eval_many(p, &xs)) {
            if got != expect {
                s.fail(format!("wrong:{name}:eval_many"), key.clone(), format!("{name} eval_many({p:?}) = {got:?}, definition gives {expect:?}"));
            }
        }
        if let Some(got) = guard!("degree_of", key.clone(), polynom::degree_of(p)) {
            if got != r2::degree(&w(p)) {
                s.fail(format!("wrong:{name}:degree_of"), key.clone(), format!("{name} degree_of({p:?}) = {got}, definition gives {}", r2::degree(&w(p))));
            }
        }
        if let Some(got) = guard!("remove_leading_zeros", key.clone(), polynom::remove_leading_zeros(p)) {
            if got != unw(&r2::trim(&w(p))) {
                s.fail(format!("wrong:{name}:remove_leading_zeros"), key.clone(), format!("{name} remove_leading_zeros({p:?}) = {got:?}"));
            }
        }
        for k in alpha {
            s.evals += 1;
            if let Some(got) = guard!("mul_by_scalar", key.clone(), polynom::mul_by_scalar(p, *k)) {
                let e: Vec<E> = p.iter().map(|c| *c * *k).collect();
                if got != e {
                    s.fail(format!("wrong:{name}:mul_by_scalar"), key.clone(), format!("{name} mul_by_scalar({p:?}, {k:?}) = {got:?}"));
                }
            }
        }
        // synthetic division by x^a - b
        for a in [1usize, 2, 3, 4] {
            if p.len() <= a {
                continue;
            }
            for b in alpha.iter().filter(|b| **b != E::ZERO) {
                s.evals += 1;
                let mut divisor = vec![E::ZERO; a + 1];
                divisor[0] = -*b;
                divisor[a] = E::ONE;
                let (q, _) = r2::divrem(&w(p), &w(&divisor), &z);
                let expect = padded(&unw(&q), p.len());
                let k2 = format!("{key}/a={a}/b={b:?}");
                if let Some(got) = guard!("syn_div", k2.clone(), polynom::syn_div(p, a, *b)) {
                    if got != expect {
                        s.fail(format!("wrong:{name}:syn_div"), k2.clone(), format!("{name} syn_div({p:?}, {a}, {b:?}) = {got:?}, long division gives {expect:?}"));
                    }
                }
                let mut q2 = p.clone();
                if guard!("syn_div_in_place", k2.clone(), polynom::syn_div_in_place(&mut q2, a, *b)).is_some() && q2 != expect {
                    s.fail(format!("wrong:{name}:syn_div_in_place"), k2.clone(), format!("{name} syn_div_in_place({p:?}, {a}, {b:?}) = {q2:?}, long division gives {expect:?}"));
                }
            }
        }
    }
    // ---- long dividends: synthetic division is linear in the dividend, so for every (length, a, b)
    // the unit vectors plus one dense vector decide every linear implementation; lengths reach well
    // past 2a so that block-wise / chunked implementations see partial blocks at either end
    let long = 4 * maxlen + 4;
    for len in 2..=long {
        let mut basis: Vec<Vec<E>> = (0..len)
            .map(|i| {
                let mut v = vec![E::ZERO; len];
                v[i] = E::ONE;
                v
            })
            .collect();
        basis.push((0..len).map(|i| alpha[(i * i + 1) % alpha.len()] + E::from((3 * i + 1) as u32)).collect());
        for a in 1..len {
            let mut divisor = vec![E::ZERO; a + 1];
            divisor[a] = E::ONE;
            for b in alpha.iter().filter(|b| **b != E::ZERO) {
                divisor[0] = -*b;
                for p in &basis {
                    s.evals += 1;
                    let (q, _) = r2::divrem(&w(p), &w(&divisor), &z);
                    let expect = padded(&unw(&q), len);
                    let k2 = format!("{name}/long/len={len}/p={p:?}/a={a}/b={b:?}");
                    if let Some(got) = guard!("syn_div", k2.clone(), polynom::syn_div(p, a, *b)) {
                        if got != expect {
                            s.fail(format!("wrong:{name}:syn_div"), k2.clone(), format!("{name} syn_div({p:?}, {a}, {b:?}) = {got:?}, long division gives {expect:?}"));
                        }
                    }
                    let mut q2 = p.clone();
                    if guard!("syn_div_in_place", k2.clone(), polynom::syn_div_in_place(&mut q2, a, *b)).is_some() && q2 != expect {
                        s.fail(format!("wrong:{name}:syn_div_in_place"), k2.clone(), format!("{name} syn_div_in_place({p:?}, {a}, {b:?}) = {q2:?}, long division gives {expect:?}"));
                    }
                    if r2::degree(&w(p)) >= a {
                        if let Some(got) = guard!("div", k2.clone(), polynom::div(p, &divisor)) {
                            if !r2::polys_equal(&w(&got), &q) {
                                s.fail(format!("wrong:{name}:div"), k2.clone(), format!("{name} div({p:?}, x^{a} - {b:?}) = {got:?}, long division gives {:?}", unw(&q)));
                            }
                        }
                    }
                }
            }
        }
    }
    // ---- long operands of the (bi)linear helpers on a basis: mul(e_i, e_j) for all lengths <= 12,
    // eval of every unit vector of length <= `long` at every alphabet point (x^i by repeated product)
    for la in 1..=12usize {
        for lb in 1..=12usize {
            for i in 0..la {
                for j in 0..lb {
                    s.evals += 1;
                    let mut a = vec![E::ZERO; la];
                    a[i] = alpha[(i + 1) % alpha.len()] + E::ONE + E::ONE + E::ONE;
                    let mut b = vec![E::ZERO; lb];
                    b[j] = E::ONE;
                    let key = format!("{name}/long/a={a:?}/b={b:?}");
                    if let Some(got) = guard!("mul", key.clone(), polynom::mul(&a, &b)) {
                        if got != unw(&r2::mul(&w(&a), &w(&b), &z)) {
                            s.fail(format!("wrong:{name}:mul"), key.clone(), format!("{name} mul({a:?}, {b:?}) = {got:?}"));
                        }
                    }
                }
            }
        }
    }
    for len in 1..=long {
        for i in 0..len {
            let mut p = vec![E::ZERO; len];
            p[i] = E::ONE;
            for x in alpha {
                s.evals += 1;
                let mut e = E::ONE;
                for _ in 0..i {
                    e *= *x;
                }
                let key = format!("{name}/long/p=e_{i} of {len}/x={x:?}");
                if let Some(got) = guard!("eval", key.clone(), polynom::eval(&p, *x)) {
                    if got != e {
                        s.fail(format!("wrong:{name}:eval"), key, format!("{name} eval(e_{i} of length {len}, {x:?}) = {got:?}, x^{i} = {e:?}"));
                    }
                }
            }
        }
    }
    // ---- roots: poly_from_roots, syn_div_roots_in_place ---------------------------------------------
    let root_lists = vectors(alpha, 3);
    for roots in &root_lists {
        s.evals += 1;
        let key = format!("{name}/roots={roots:?}");
        let expect = unw(&r2::from_roots(&w(roots), &z));
        if let Some(got) = guard!("poly_from_roots", key.clone(), polynom::poly_from_roots(roots)) {
            if got != expect {
                s.fail(format!("wrong:{name}:poly_from_roots"), key.clone(), format!("{name} poly_from_roots({roots:?}) = {got:?}, product of linear factors is {expect:?}"));
            }
        }
        if roots.is_empty() {
            continue;
        }
        for p in small.iter().filter(|p| p.len() > roots.len()) {
            s.evals += 1;
            let (q, _) = r2::divrem(&w(p), &w(&expect), &z);
            let e = padded(&unw(&q), p.len());
            let mut got = p.clone();
            let k2 = format!("{key}/p={p:?}");
            if guard!("syn_div_roots_in_place", k2.clone(), polynom::syn_div_roots_in_place(&mut got, roots)).is_some() && got != e {
                s.fail(format!("wrong:{name}:syn_div_roots_in_place"), k2, format!("{name} syn_div_roots_in_place({p:?}, {roots:?}) = {got:?}, long division gives {e:?}"));
            }
        }
        // long dividends on a basis (the division is linear in the dividend)
        for len in roots.len() + 1..=long.min(16) {
            for u in 0..=len {
                let p: Vec<E> = if u < len {
                    (0..len).map(|i| if i == u { E::ONE } else { E::ZERO }).collect()
                } else {
                    (0..len).map(|i| alpha[(i * i + 1) % alpha.len()] + E::from((3 * i + 1) as u32)).collect()
                };
                s.evals += 1;
                let (q, _) = r2::divrem(&w(&p), &w(&expect), &z);
                let e = padded(&unw(&q), len);
                let mut got = p.clone();
                let k2 = format!("{key}/long/p={p:?}");
                if guard!("syn_div_roots_in_place", k2.clone(), polynom::syn_div_roots_in_place(&mut got, roots)).is_some() && got != e {
                    s.fail(format!("wrong:{name}:syn_div_roots_in_place"), k2, format!("{name} syn_div_roots_in_place({p:?}, {roots:?}) = {got:?}, long division gives {e:?}"));
                }
            }
        }
    }
    // ---- binary: add, sub, mul, div over all ordered pairs ------------------------------------------
    for a in &small {
        for b in &small {
            s.evals += 1;
            let key = format!("{name}/a={a:?}/b={b:?}");
            if let Some(got) = guard!("add", key.clone(), polynom::add(a, b)) {
                if got != unw(&r2::add(&w(a), &w(b), &z)) {
                    s.fail(format!("wrong:{name}:add"), key.clone(), format!("{name} add({a:?}, {b:?}) = {got:?}"));
                }
            }
            if let Some(got) = guard!("sub", key.clone(), polynom::sub(a, b)) {
                if got != unw(&r2::sub(&w(a), &w(b), &z)) {
                    s.fail(format!("wrong:{name}:sub"), key.clone(), format!("{name} sub({a:?}, {b:?}) = {got:?}"));
                }
            }
            if !a.is_empty() && !b.is_empty() {
                if let Some(got) = guard!("mul", key.clone(), polynom::mul(a, b)) {
                    if got != unw(&r2::mul(&w(a), &w(b), &z)) {
                        s.fail(format!("wrong:{name}:mul"), key.clone(), format!("{name} mul({a:?}, {b:?}) = {got:?}"));
                    }
                }
            }
            // documented preconditions of div: b not empty, b not the zero constant, deg b <= deg a
            let tb = r2::trim(&w(b));
            if !b.is_empty() && !tb.is_empty() && r2::degree(&w(b)) <= r2::degree(&w(a)) && !a.is_empty() {
                let (q, _) = r2::divrem(&w(a), &w(b), &z);
                if let Some(got) = guard!("div", key.clone(), polynom::div(a, b)) {
                    if !r2::polys_equal(&w(&got), &q) {
                        s.fail(format!("wrong:{name}:div"), key.clone(), format!("{name} div({a:?}, {b:?}) = {got:?}, long division gives {:?}", unw(&q)));
                    }
                }
            }
        }
    }
    // ---- interpolation: every set of ≤ 4 distinct x over the alphabet (+1 extra point), all y tuples ---
    let mut xs_alpha: Vec<E> = alpha.to_vec();
    xs_alpha.push(alpha[alpha.len() - 1] - E::ONE - E::ONE); // one more point so that 4-point sets with and without 0 exist
    let ys_alpha: Vec<E> = alpha.iter().take(3).copied().collect();
    let nx = xs_alpha.len();
    for mask in 1u32..(1 << nx) {
        let xs: Vec<E> = (0..nx).filter(|i| mask >> i & 1 == 1).map(|i| xs_alpha[i]).collect();
        if xs.len() > 4 {
            continue;
        }
        // x sets in both orders
        for rev in [false, true] {
            let xs: Vec<E> = if rev { xs.iter().rev().copied().collect() } else { xs.clone() };
            if rev && xs.len() < 2 {
                continue;
            }
            for ys in vectors(&ys_alpha, xs.len()).into_iter().filter(|v| v.len() == xs.len()) {
                s.evals += 1;
                let key = format!("{name}/xs={xs:?}/ys={ys:?}");
                let expect = unw(&r2::lagrange(&w(&xs), &w(&ys), &z));
                for rlz in [false, true] {
                    if let Some(got) = guard!("interpolate", key.clone(), polynom::interpolate(&xs, &ys, rlz)) {
                        let e = if rlz { unw(&r2::trim(&w(&expect))) } else { expect.clone() };
                        if got != e {
                            s.fail(format!("wrong:{name}:interpolate"), key.clone(), format!("{name} interpolate({xs:?}, {ys:?}, {rlz}) = {got:?}, Lagrange's formula gives {e:?}"));
                        }
                    }
                }
                macro_rules! batch {
                    ($n:expr) => {
                        if xs.len() == $n {
                            let xa: [E; $n] = xs.clone().try_into().unwrap();
                            let ya: [E; $n] = ys.clone().try_into().unwrap();
                            // two batches: this one and a shifted copy, to exercise batching
                            let xb: [E; $n] = core::array::from_fn(|i| xa[($n - 1) - i]);
                            let yb: [E; $n] = core::array::from_fn(|i| ya[($n - 1) - i]);
                            if let Some(got) = guard!("interpolate_batch", key.clone(), polynom::interpolate_batch(&[xa, xb], &[ya, yb])) {
                                if got.len() != 2 || got[0].to_vec() != expect || got[1].to_vec() != expect {
                                    s.fail(format!("wrong:{name}:interpolate_batch"), key.clone(), format!("{name} interpolate_batch({xs:?}, {ys:?}) = {got:?}, Lagrange's formula gives {expect:?}"));
                                }
                            }
                        }
                    };
                }
                batch!(1);
                batch!(2);
                batch!(3);
                batch!(4);
            }
        }
    }
    s
}

pub fn run(args: &Args) {
    let mut report = Report::new(args, "exploration");
    let thorough = args.tier == mck::Tier::Thorough;
    let (maxlen, pair_len) = if thorough { (8, 5) } else { (4, 3) };
    // extension fields: one step less than the base fields
    let (xl, xp) = if thorough { (5, 4) } else { (4, 3) };
    use f128::BaseElement as B128;
    use f62::BaseElement as B62;
    use f64::BaseElement as B64;
    let outs = mck::par_map(7, |i| match i {
        0 => { let a = vec![B64::ZERO, B64::ONE, B64::new(2), -B64::ONE]; (0, sweep("f64", &a, maxlen, pair_len), format!("{a:?}")) },
        1 => { let a = vec![B62::ZERO, B62::ONE, B62::new(2), -B62::ONE]; (1, sweep("f62", &a, maxlen, pair_len), format!("{a:?}")) },
        2 => { let a = vec![B128::ZERO, B128::ONE, B128::new(2), -B128::ONE]; (2, sweep("f128", &a, maxlen, pair_len), format!("{a:?}")) },
        3 => { type Q = QuadExtension<B64>; let a = vec![Q::ZERO, Q::ONE, Q::new(B64::ZERO, B64::ONE), -Q::ONE]; (3, sweep("f64^2", &a, xl, xp), format!("{a:?}")) },
        4 => { type C = CubeExtension<B64>; let a = vec![C::ZERO, C::ONE, C::new(B64::ZERO, B64::ONE, B64::new(2)), -C::ONE]; (4, sweep("f64^3", &a, xl, xp), format!("{a:?}")) },
        5 => { type Q = QuadExtension<B62>; let a = vec![Q::ZERO, Q::ONE, Q::new(B62::ZERO, B62::ONE), -Q::ONE]; (5, sweep("f62^2", &a, xl, xp), format!("{a:?}")) },
        _ => { type Q = QuadExtension<B128>; let a = vec![Q::ZERO, Q::ONE, Q::new(B128::ZERO, B128::ONE), -Q::ONE]; (6, sweep("f128^2", &a, xl, xp), format!("{a:?}")) },
    });
    let names = ["f64", "f62", "f128", "f64^2", "f64^3", "f62^2", "f128^2"];
    for (i, s, alpha) in outs {
        report.part(names[i], s.evals, s.evals, json!({"alphabet": alpha}));
        report.violations(s.viol);
        for (c, n) in s.more {
            report.count_more(&c, n);
        }
    }
    report.sample(json!({"function": "interpolate", "xs": "[0, 1, -1]", "ys": "[1, 0, 1]", "oracle": "Lagrange's formula evaluated term by term"}));
    report.sample(json!({"function": "div", "a": "[1, 0, 2, -1]", "b": "[-1, 1]", "oracle": "long division; quotient compared as polynomials"}));
    report.exhaustive = true;
    report.bounds = json!({"coefficient_alphabet": "{0, 1, 2 (or the extension generator), -1} plus, for fields with redundant internal representations (f62 and its extensions), a second representation of 0 and of 1 (vector length then capped at 6, pairs at 4)", "max_vector_length": maxlen, "pairs_up_to_length": pair_len, "extension_fields_max_vector_length": xl, "extension_fields_pairs_up_to_length": xp, "fields": names});
    report.rule = "one case per (function, argument tuple) over the exhaustive vector sets; all distinct; every case is compared with the definitional reference R2, so all are non-trivial".into();
    report.assumptions = vec!["field arithmetic of the elements is the one checked by C10".into(), "mul on empty inputs and div outside its documented preconditions are not called".into()];
    report.finish(args)
}
