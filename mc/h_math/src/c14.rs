//! C14 — batch field utilities against element-wise definitions: batch inversion with every
//! pattern of zeros, power series, in-place addition and scaled accumulation, and the slice
//! grouping / flattening / transposition helpers, for every length in the stated ranges.
//!
//! In the `conc` build the same cases run under the controlled scheduler (E3) for every thread
//! count and task order.

use mck::{json, Args, Report, Violation};
use winter_math::fields::{f128, f62, f64, QuadExtension};
use winter_math::{add_in_place, batch_inversion, get_power_series, get_power_series_with_offset, mul_acc, FieldElement};
use winter_utils::{flatten_slice_elements, flatten_vector_elements, group_slice_elements, transpose_slice};

pub struct Sweep {
    pub evals: u64,
    pub nontrivial: u64,
    pub viol: Vec<Violation>,
    pub more: Vec<(String, u64)>,
}

impl Sweep {
    pub fn new() -> Sweep {
        Sweep { evals: 0, nontrivial: 0, viol: vec![], more: vec![] }
    }
    pub fn fail(&mut self, class: String, key: String, detail: String) {
        if self.viol.iter().filter(|v| v.class == class).count() < 3 {
            self.viol.push(Violation { class, key: key.clone(), detail, replay: json!({"kind": "batch", "case": key}) });
        } else if let Some(m) = self.more.iter_mut().find(|(c, _)| *c == class) {
            m.1 += 1;
        } else {
            self.more.push((class, 1));
        }
    }
    pub fn merge(&mut self, o: Sweep) {
        self.evals += o.evals;
        self.nontrivial += o.nontrivial;
        for v in o.viol {
            if self.viol.iter().filter(|x| x.class == v.class).count() < 3 {
                self.viol.push(v);
            } else {
                self.more.push((v.class, 1));
            }
        }
        self.more.extend(o.more);
    }
}

/// index-labelled, pairwise distinct, non-zero elements
fn label<E: FieldElement>(i: usize) -> E {
    E::from((i as u32).wrapping_mul(2654435761) | 1) + E::from(i as u32)
}

pub fn batch_inversion_case<E: FieldElement>(name: &str, len: usize, zero_at: &[usize], tag: &str, s: &mut Sweep) {
    let mut v: Vec<E> = (0..len).map(label::<E>).collect();
    for &z in zero_at {
        if z < len {
            v[z] = E::ZERO;
        }
    }
    if !zero_at.is_empty() {
        s.nontrivial += 1;
    }
    batch_inversion_values(name, &v, &format!("len={len}/zeros={zero_at:?}"), tag, s);
    // the same zero pattern on a vector of inverse pairs (x, 1/x, y, 1/y, ...): the product of every
    // even-aligned run of non-zero inputs is exactly ONE
    if len >= 2 && (len <= 8 || len >= 1023) {
        let mut w: Vec<E> = (0..len).map(|i| if i % 2 == 0 { label::<E>(i) } else { label::<E>(i - 1).inv() }).collect();
        for &z in zero_at {
            if z + 1 < len {
                // zero a whole pair so that the remaining product stays ONE
                w[z & !1] = E::ZERO;
                w[(z & !1) + 1] = E::ZERO;
            }
        }
        s.nontrivial += 1;
        batch_inversion_values(name, &w, &format!("len={len}/inverse-pairs/zeros={zero_at:?}"), tag, s);
    }
}

/// batch_inversion on a given vector against element-wise inversion (zero stays zero)
pub fn batch_inversion_values<E: FieldElement>(name: &str, v: &[E], desc: &str, tag: &str, s: &mut Sweep) {
    let len = v.len();
    s.evals += 1;
    let key = format!("{name}/batch_inversion/{desc}{tag}");
    match mck::catch(|| batch_inversion(v)) {
        Err(p) => s.fail(format!("panic:{name}:batch_inversion:{}", p.location), key.clone(), format!("batch_inversion panicked at {} ({}) for {key}", p.location, p.message)),
        Ok(inv) => {
            if inv.len() != len {
                s.fail(format!("wrong_length:{name}:batch_inversion"), key, format!("result has {} elements for {len} inputs", inv.len()));
                return;
            }
            for i in 0..len {
                let expect = if v[i] == E::ZERO { E::ZERO } else { v[i].inv() };
                if inv[i] != expect {
                    s.fail(format!("wrong:{name}:batch_inversion"), key.clone(), format!("{key}: element {i} is {:?}, expected {:?}", inv[i], expect));
                    break;
                }
            }
        },
    }
}

/// every vector of length <= maxlen over an alphabet closed under inversion and negation
/// {0, 1, -1, 2, 1/2, g, 1/g}: products of sub-runs hit 1, -1 and 0 in every position
pub fn value_alphabet_cases<E: FieldElement>(name: &str, maxlen: usize, s: &mut Sweep) {
    let two = E::ONE + E::ONE;
    let g = label::<E>(3);
    let mut alpha = vec![E::ZERO, E::ONE, -E::ONE, two, two.inv(), g, g.inv()];
    // second internal representations of 0 and 1 where the field has them (f62)
    for e in [E::ZERO, E::ONE] {
        if let Some(t) = crate::fields::twin(e) {
            alpha.push(t);
        }
    }
    let mut idx = vec![0usize; maxlen];
    for len in 1..=maxlen {
        let total = alpha.len().pow(len as u32);
        for code in 0..total {
            let mut c = code;
            for slot in idx.iter_mut().take(len) {
                *slot = c % alpha.len();
                c /= alpha.len();
            }
            let v: Vec<E> = idx[..len].iter().map(|i| alpha[*i]).collect();
            s.nontrivial += 1;
            batch_inversion_values(name, &v, &format!("alphabet/{:?}", &idx[..len]), "", s);
        }
    }
}

pub fn power_series_case<E: FieldElement>(name: &str, len: usize, tag: &str, s: &mut Sweep) {
    let b: E = label::<E>(7);
    let off: E = label::<E>(11);
    s.evals += 2;
    s.nontrivial += 2;
    let key = format!("{name}/power_series/len={len}{tag}");
    let mut expect = Vec::with_capacity(len);
    let mut acc = E::ONE;
    for _ in 0..len {
        expect.push(acc);
        acc *= b;
    }
    match mck::catch(|| get_power_series(b, len)) {
        Err(p) => s.fail(format!("panic:{name}:get_power_series:{}", p.location), key.clone(), format!("get_power_series(b, {len}) panicked at {} ({}){tag}", p.location, p.message)),
        Ok(got) => {
            if got != expect {
                let i = got.iter().zip(&expect).position(|(a, b)| a != b);
                s.fail(format!("wrong:{name}:get_power_series"), key.clone(), format!("get_power_series(b, {len}){tag}: first difference at index {i:?} (lengths {} / {})", got.len(), expect.len()));
            }
        },
    }
    let expect2: Vec<E> = expect.iter().map(|x| *x * off).collect();
    match mck::catch(|| get_power_series_with_offset(b, off, len)) {
        Err(p) => s.fail(format!("panic:{name}:get_power_series_with_offset:{}", p.location), key.clone(), format!("get_power_series_with_offset(b, s, {len}) panicked at {} ({}){tag}", p.location, p.message)),
        Ok(got) => {
            if got != expect2 {
                let i = got.iter().zip(&expect2).position(|(a, b)| a != b);
                s.fail(format!("wrong:{name}:get_power_series_with_offset"), key, format!("get_power_series_with_offset(b, s, {len}){tag}: first difference at index {i:?}"));
            }
        },
    }
}

pub fn accumulate_case<E: FieldElement>(name: &str, len: usize, tag: &str, s: &mut Sweep) {
    let a: Vec<E> = (0..len).map(label::<E>).collect();
    let b: Vec<E> = (0..len).map(|i| label::<E>(i + 100_000)).collect();
    let c: E = label::<E>(5);
    s.evals += 2;
    s.nontrivial += 2;
    let key = format!("{name}/accumulate/len={len}{tag}");
    let mut x = a.clone();
    if mck::catch(|| add_in_place(&mut x, &b)).is_err() {
        s.fail(format!("panic:{name}:add_in_place"), key.clone(), format!("add_in_place panicked for {key}"));
    } else if x != a.iter().zip(&b).map(|(p, q)| *p + *q).collect::<Vec<_>>() {
        s.fail(format!("wrong:{name}:add_in_place"), key.clone(), format!("add_in_place differs from element-wise addition for {key}"));
    }
    let mut y = a.clone();
    if mck::catch(|| mul_acc::<E, E>(&mut y, &b, c)).is_err() {
        s.fail(format!("panic:{name}:mul_acc"), key.clone(), format!("mul_acc panicked for {key}"));
    } else if y != a.iter().zip(&b).map(|(p, q)| *p + *q * c).collect::<Vec<_>>() {
        s.fail(format!("wrong:{name}:mul_acc"), key, format!("mul_acc differs from a[i] + b[i]*c"));
    }
}

fn grouping_cases(s: &mut Sweep, max_rows: usize) {
    macro_rules! group {
        ($n:expr) => {
            for rows in 0..=max_rows {
                let len = rows * $n;
                let src: Vec<u32> = (0..len as u32).collect();
                s.evals += 3;
                s.nontrivial += 3;
                let key = format!("grouping/N={}/rows={rows}", $n);
                let g: &[[u32; $n]] = group_slice_elements::<u32, $n>(&src);
                let ok_g = g.len() == rows && g.iter().enumerate().all(|(r, a)| a.iter().enumerate().all(|(c, v)| *v as usize == r * $n + c));
                if !ok_g {
                    s.fail("wrong:group_slice_elements".into(), key.clone(), format!("group_slice_elements::<_, {}> reordered or lost elements for {rows} rows", $n));
                }
                let f: &[u32] = flatten_slice_elements::<u32, $n>(g);
                if f != &src[..] {
                    s.fail("wrong:flatten_slice_elements".into(), key.clone(), format!("flatten_slice_elements::<_, {}> is not the inverse of grouping for {rows} rows", $n));
                }
                let fv: Vec<u32> = flatten_vector_elements::<u32, $n>(g.to_vec());
                if fv != src {
                    s.fail("wrong:flatten_vector_elements".into(), key.clone(), format!("flatten_vector_elements::<_, {}> reordered elements for {rows} rows", $n));
                }
                // transpose: element (i, j) of the result is source[i + j * rows]
                if rows > 0 {
                    s.evals += 1;
                    s.nontrivial += 1;
                    match mck::catch(|| transpose_slice::<u32, $n>(&src)) {
                        Err(p) => s.fail(format!("panic:transpose_slice:{}", p.location), key.clone(), format!("transpose_slice::<_, {}> panicked for {rows} rows", $n)),
                        Ok(t) => {
                            let ok = t.len() == rows && t.iter().enumerate().all(|(i, a)| a.iter().enumerate().all(|(j, v)| *v as usize == i + j * rows));
                            if !ok {
                                s.fail("wrong:transpose_slice".into(), key.clone(), format!("transpose_slice::<_, {}> for {rows} rows is not the documented transposition", $n));
                            }
                        },
                    }
                }
            }
        };
    }
    group!(1);
    group!(2);
    group!(4);
    group!(8);
    group!(16);
}

pub fn field_sweep<E: FieldElement>(name: &str, small_max: usize, all_patterns_up_to: usize, big_lens: &[usize], tag: &str) -> Sweep {
    let mut s = Sweep::new();
    value_alphabet_cases::<E>(name, if small_max > 40 { 6 } else { 5 }, &mut s);
    for len in 0..=small_max {
        if len <= all_patterns_up_to {
            for mask in 0u32..(1 << len) {
                let zeros: Vec<usize> = (0..len).filter(|i| mask >> i & 1 == 1).collect();
                batch_inversion_case::<E>(name, len, &zeros, tag, &mut s);
            }
        } else {
            for zeros in [vec![], vec![0], vec![len - 1], vec![0, len - 1], vec![len / 2], (0..len).collect::<Vec<_>>(), (0..len).step_by(2).collect()] {
                batch_inversion_case::<E>(name, len, &zeros, tag, &mut s);
            }
        }
        power_series_case::<E>(name, len, tag, &mut s);
        accumulate_case::<E>(name, len, tag, &mut s);
    }
    for &len in big_lens {
        // zeros at every batch edge (batches are 1024 elements, or len / threads)
        let mut edges = vec![];
        for k in 0..=len / 1024 {
            for d in [0usize, 1] {
                let p = k * 1024;
                if p >= d && p - d < len {
                    edges.push(p - d);
                }
                if p + d < len {
                    edges.push(p + d);
                }
            }
        }
        edges.sort();
        edges.dedup();
        for zeros in [vec![], edges.clone(), vec![0], vec![len - 1], vec![1023.min(len - 1), 1024.min(len - 1)]] {
            batch_inversion_case::<E>(name, len, &zeros, tag, &mut s);
        }
        power_series_case::<E>(name, len, tag, &mut s);
        accumulate_case::<E>(name, len, tag, &mut s);
    }
    s
}

pub fn big_lens(thorough: bool) -> Vec<usize> {
    let mut v = vec![1023, 1024, 1025, 2047, 2048, 2049, 3071, 3072, 3073, 4096];
    if thorough {
        v.extend([4095, 4097, 5000, 8191, 8192, 8193, 16383, 16384, 16385]);
    }
    v
}

/// conc build: the same cases for lengths around the parallel batch boundaries, under every thread
/// count and every single-region deviation of the controlled scheduler (engine E3)
#[cfg(feature = "conc")]
fn run_conc(args: &Args) -> ! {
    let mut report = Report::new(args, "exploration");
    let thorough = args.tier == mck::Tier::Thorough;
    let lens: Vec<usize> = if thorough { vec![1023, 1024, 1025, 2048, 2049, 3072, 4095, 4096, 4097, 8192, 16384, 16385, 32768] } else { vec![1024, 2048, 2049, 4096, 8192] };
    let ts_all = [1usize, 2, 3, 4, 5, 8, 16];
    let ts_dev: Vec<usize> = if thorough { vec![2, 3, 4, 8] } else { vec![2, 4] };
    fn one<E: FieldElement>(name: &str, len: usize, ts_all: &[usize], ts_dev: &[usize]) -> (Sweep, rayon::ExploreStats) {
        let mut s = Sweep::new();
        let st = rayon::explore(ts_all, ts_dev, 1, |tag| {
            let tag = format!(" [{tag}]");
            let t = rayon::current_num_threads().next_power_of_two();
            // zeros on every edge of the batches this thread count produces
            let bs = (len / t).max(1);
            let mut edges: Vec<usize> = (0..=len / bs).flat_map(|k| [(k * bs).saturating_sub(1), k * bs]).filter(|p| *p < len).collect();
            edges.sort();
            edges.dedup();
            for zeros in [vec![], edges, vec![0, len - 1]] {
                batch_inversion_case::<E>(name, len, &zeros, &tag, &mut s);
            }
            power_series_case::<E>(name, len, &tag, &mut s);
            accumulate_case::<E>(name, len, &tag, &mut s);
        });
        (s, st)
    }
    let jobs: Vec<(usize, usize)> = (0..3).flat_map(|f| lens.iter().map(move |l| (f, *l))).collect();
    let outs = mck::par_map(jobs.len(), |j| match jobs[j].0 {
        0 => one::<f64::BaseElement>("f64", jobs[j].1, &ts_all, &ts_dev),
        1 => one::<f128::BaseElement>("f128", jobs[j].1, &ts_all, &ts_dev),
        _ => one::<QuadExtension<f64::BaseElement>>("f64^2", jobs[j].1, &ts_all, &ts_dev),
    });
    let (mut sched, mut nontrivial, mut tasks) = (0, 0, 0);
    let mut evals = 0;
    let mut regions = vec![];
    for ((f, l), (s, st)) in jobs.iter().zip(outs) {
        evals += s.evals;
        sched += st.schedules;
        nontrivial += st.nontrivial;
        tasks += st.task_runs;
        if *f == 0 {
            regions.push(json!({"len": l, "regions_(threads,total,multi)": st.regions}));
        }
        report.violations(s.viol);
        for (c, n) in s.more {
            report.count_more(&c, n);
        }
    }
    report.part("conc build under the controlled scheduler: batch_inversion / power series / add_in_place / mul_acc at the batch boundaries, T in {1,2,3,4,5,8,16}, every region in every alternative order", evals, nontrivial,
        json!({"schedules": sched, "task_executions": tasks, "lengths": lens, "regions_f64": regions}));
    report.exhaustive = true;
    report.bounds = json!({"lengths": lens, "thread_counts": ts_all, "deviation_bound": 1, "alternative_orders": "all m! up to 4 tasks; every rotation and adjacent transposition up to 32"});
    report.rule = "one case per (function, length, zero pattern, schedule); non-trivial = schedules that run a region with >= 2 tasks out of submission order".into();
    report.assumptions = vec!["tasks are atomic (no scheduling point inside a task)".into()];
    report.finish(args)
}

pub fn run(args: &Args) {
    #[cfg(feature = "conc")]
    if args.variant.starts_with("conc") {
        run_conc(args);
    }
    let mut report = Report::new(args, "exploration");
    let thorough = args.tier == mck::Tier::Thorough;
    let small = if thorough { 64 } else { 40 };
    let patterns = if thorough { 12 } else { 10 };
    let big = big_lens(thorough);
    let outs = mck::par_map(5, |i| match i {
        0 => field_sweep::<f64::BaseElement>("f64", small, patterns, &big, ""),
        1 => field_sweep::<f62::BaseElement>("f62", small, patterns, &big, ""),
        2 => field_sweep::<f128::BaseElement>("f128", small, patterns, &big, ""),
        3 => field_sweep::<QuadExtension<f64::BaseElement>>("f64^2", small, patterns.min(8), &big, ""),
        _ => {
            let mut s = Sweep::new();
            grouping_cases(&mut s, if thorough { 80 } else { 40 });
            s
        },
    });
    let names = ["f64", "f62", "f128", "f64^2", "group/flatten/transpose"];
    for (i, s) in outs.into_iter().enumerate() {
        report.part(names[i], s.evals, s.nontrivial, json!(null));
        report.violations(s.viol);
        for (c, n) in s.more {
            report.count_more(&c, n);
        }
    }
    report.sample(json!({"function": "batch_inversion", "len": 10, "zeros_at": [0, 3, 9], "oracle": "inverse of every non-zero input, zero for every zero"}));
    report.sample(json!({"function": "get_power_series", "len": 1025, "oracle": "repeated multiplication"}));
    report.exhaustive = true;
    report.bounds = json!({"lengths": format!("0..={small} and {big:?}"), "all_zero_patterns_up_to_length": patterns, "grouping_N": [1, 2, 4, 8, 16],
        "value_alphabet": "all vectors of length <= 5 (thorough 6) over {0, 1, -1, 2, 1/2, g, 1/g}; inverse-pair vectors (x, 1/x, y, 1/y, ...) for lengths <= 8 and >= 1023 under every zero pattern"});
    report.rule = "one case per (function, length, zero pattern); elements are index-labelled so that any reordering is visible; non-trivial batch-inversion cases contain at least one zero".into();
    report.assumptions = vec!["serial build: thread-count and task-order variation of the same cases is explored in the conc build under E3".into()];
    report.finish(args)
}
