//! h_math — harness for winter-math: C10 (field arithmetic on every reachable representation),
//! C11 (constants and canonical encodings), C12 (FFT), C13 (polynomial helpers), C14 (batch
//! utilities).

mod c10;
mod fields;

fn main() {
    mck::install_panic_hook();
    let args = mck::Args::parse();
    match args.prop.as_str() {
        "C10" => c10::run(&args),
        p => mck::report::machinery(&format!("h_math does not serve property {p:?}")),
    }
}
