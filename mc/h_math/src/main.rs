//! h_math — harness for winter-math: C10 (field arithmetic on every reachable representation),
//! C11 (constants and canonical encodings), C12 (FFT), C13 (polynomial helpers), C14 (batch
//! utilities).

mod c10;
mod c11;
mod c12;
mod c13;
mod c14;
mod fields;

fn main() {
    mck::install_panic_hook();
    let args = mck::Args::parse();
    match args.prop.as_str() {
        "C10" => c10::run(&args),
        "C11" => c11::run(&args),
        "C12" => c12::run(&args),
        "C13" => c13::run(&args),
        "C14" => c14::run(&args),
        p => mck::report::machinery(&format!("h_math does not serve property {p:?}")),
    }
}
