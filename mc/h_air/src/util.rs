//! Shared helpers of the h_air harness: violation collector with replay records and measured
//! branch counters, the R2 scalar wrapper, the assertion descriptor used by C21/C22 (step sets
//! by definition), and a tiny data-driven `Air` implementation.

use std::collections::BTreeMap;

use mck::{json, Value, Violation};
use refm::poly as r2;
use winter_air::{
    Air, AirContext, Assertion, BatchingMethod, EvaluationFrame, FieldExtension, ProofOptions, TraceInfo,
    TransitionConstraintDegree,
};
use winter_math::{ExtensibleField, FieldElement, StarkField, ToElements};

// COLLECTOR
// ================================================================================================

const KEEP: usize = 3;

pub struct Sweep {
    pub evals: u64,
    pub nontrivial: u64,
    pub viol: Vec<Violation>,
    pub more: BTreeMap<String, u64>,
    /// measured counters (branch coverage / non-vacuity), emitted in the part's note
    pub counters: BTreeMap<String, u64>,
}

impl Sweep {
    pub fn new() -> Sweep {
        Sweep { evals: 0, nontrivial: 0, viol: vec![], more: BTreeMap::new(), counters: BTreeMap::new() }
    }
    pub fn count(&mut self, name: &str) {
        self.add(name, 1);
    }
    pub fn add(&mut self, name: &str, n: u64) {
        if let Some(c) = self.counters.get_mut(name) {
            *c += n;
        } else {
            self.counters.insert(name.to_string(), n);
        }
    }
    pub fn fail(&mut self, class: impl Into<String>, key: impl Into<String>, detail: impl Into<String>, replay: Value) {
        let class = class.into();
        if self.viol.iter().filter(|v| v.class == class).count() < KEEP {
            self.viol.push(Violation { class, key: key.into(), detail: detail.into(), replay });
        } else {
            *self.more.entry(class).or_insert(0) += 1;
        }
    }
    pub fn absorb(&mut self, o: Sweep) {
        self.evals += o.evals;
        self.nontrivial += o.nontrivial;
        for v in o.viol {
            if self.viol.iter().filter(|x| x.class == v.class).count() < KEEP {
                self.viol.push(v);
            } else {
                *self.more.entry(v.class).or_insert(0) += 1;
            }
        }
        for (c, n) in o.more {
            *self.more.entry(c).or_insert(0) += n;
        }
        for (c, n) in o.counters {
            *self.counters.entry(c).or_insert(0) += n;
        }
    }
    pub fn counters_json(&self) -> Value {
        let mut m = mck::Map::new();
        for (k, v) in &self.counters {
            m.insert(k.clone(), json!(v));
        }
        Value::Object(m)
    }
    pub fn into_report(self, name: &str, mut note: Value, report: &mut mck::Report) {
        if !self.counters.is_empty() {
            if let Value::Object(m) = &mut note {
                m.insert("counters".into(), self.counters_json());
            } else if note.is_null() {
                note = json!({"counters": self.counters_json()});
            }
        }
        report.part(name, self.evals, self.nontrivial, note);
        report.violations(self.viol);
        for (c, n) in self.more {
            report.count_more(&c, n);
        }
    }
    /// for replay runs: report exactly what this sweep saw
    pub fn finish_replay(self, args: &mck::Args, replay: &Value) -> ! {
        let mut report = mck::Report::new(args, "exploration");
        report.rule = "replay of one recorded case".into();
        report.bounds = json!({"replay": replay});
        if self.viol.is_empty() {
            println!("not reproduced: the recorded case passes every check");
        }
        for v in &self.viol {
            println!("REPRODUCED [{}] {}: {}", v.class, v.key, v.detail);
        }
        self.into_report("replay", json!({}), &mut report);
        report.finish(args)
    }
}

/// Runs one shard of a sweep; a panic that escapes the per-call guards (i.e. one the harness did
/// not anticipate) is reported as a violation of its own class instead of killing the run.
pub fn guarded(tag: &str, f: impl FnOnce() -> Sweep) -> Sweep {
    match mck::catch(f) {
        Ok(s) => s,
        Err(p) => {
            let mut s = Sweep::new();
            s.fail(format!("panic:unguarded:{tag}:{}", p.location), tag.to_string(), format!("a panic escaped the per-call guards of a shard of '{tag}' at {} ({}); the shard's other results are lost", p.location, p.message), json!({"kind": "unguarded", "tag": tag}));
            s
        },
    }
}

pub fn merge_all(v: Vec<Sweep>) -> Sweep {
    let mut s = Sweep::new();
    for o in v {
        s.absorb(o);
    }
    s
}

// FIELDS
// ================================================================================================

/// what `Air::BaseField` needs
pub trait Base: StarkField + ExtensibleField<2> + ExtensibleField<3> {
    #[allow(dead_code)]
    const NAME: &'static str;
}
impl Base for winter_math::fields::f64::BaseElement {
    const NAME: &'static str = "f64";
}
impl Base for winter_math::fields::f62::BaseElement {
    const NAME: &'static str = "f62";
}
impl Base for winter_math::fields::f128::BaseElement {
    const NAME: &'static str = "f128";
}

/// winterfell element as an R2 scalar (its arithmetic is vouched for by C10)
#[derive(Clone, Copy, PartialEq, Debug)]
pub struct W<E: FieldElement>(pub E);
impl<E: FieldElement> r2::F for W<E> {
    fn zero(&self) -> Self {
        W(E::ZERO)
    }
    fn one(&self) -> Self {
        W(E::ONE)
    }
    fn add(&self, o: &Self) -> Self {
        W(self.0 + o.0)
    }
    fn sub(&self, o: &Self) -> Self {
        W(self.0 - o.0)
    }
    fn mul(&self, o: &Self) -> Self {
        W(self.0 * o.0)
    }
    fn inv(&self) -> Self {
        W(self.0.inv())
    }
    fn is_zero(&self) -> bool {
        self.0 == E::ZERO
    }
}

/// x^k by repeated multiplication (k is small everywhere this is used)
pub fn pow_naive<E: FieldElement>(x: E, k: usize) -> E {
    let mut r = E::ONE;
    for _ in 0..k {
        r *= x;
    }
    r
}

/// the points g^0 .. g^(n-1) of the trace domain, by repeated multiplication; `g` is the root of
/// unity winterfell documents as the trace-domain generator. Its exact order is asserted here.
pub fn trace_domain<B: StarkField>(n: usize) -> Vec<B> {
    let g = B::get_root_of_unity(n.trailing_zeros());
    let mut v = Vec::with_capacity(n);
    let mut x = B::ONE;
    for _ in 0..n {
        v.push(x);
        x *= g;
    }
    assert!(x == B::ONE, "trace domain generator does not have order dividing n");
    assert!(n == 1 || v[n / 2] != B::ONE, "trace domain generator has order smaller than n");
    v
}

/// pseudo-random but deterministic non-trivial element labelled by (a, b)
pub fn label<E: FieldElement>(a: u64, b: u64) -> E {
    let mut r = mck::Rng::new(a.wrapping_mul(0x1_0000_01B3).wrapping_add(b));
    let x = r.next();
    E::from((x >> 33) as u32 | 1) * E::from((x as u32) | 2) + E::from(b as u32)
}

// ASSERTION DESCRIPTORS
// ================================================================================================

#[derive(Clone, Copy, PartialEq, Eq, Debug, PartialOrd, Ord)]
pub enum Kind {
    Single,
    Periodic,
    Sequence,
}

impl Kind {
    pub fn name(&self) -> &'static str {
        match self {
            Kind::Single => "single",
            Kind::Periodic => "periodic",
            Kind::Sequence => "sequence",
        }
    }
}

/// The constructor call that builds an assertion; everything the oracle knows about the
/// assertion is derived from these numbers by the documented definitions.
#[derive(Clone, Copy, PartialEq, Eq, Debug)]
pub struct Desc {
    pub kind: Kind,
    pub col: usize,
    pub first: usize,
    /// stride passed to the constructor (0 for `single`)
    pub stride: usize,
    /// number of values passed to the constructor (1 for `single` and `periodic`)
    pub len: usize,
}

impl Desc {
    pub fn single(col: usize, step: usize) -> Desc {
        Desc { kind: Kind::Single, col, first: step, stride: 0, len: 1 }
    }
    pub fn periodic(col: usize, first: usize, stride: usize) -> Desc {
        Desc { kind: Kind::Periodic, col, first, stride, len: 1 }
    }
    pub fn sequence(col: usize, first: usize, stride: usize, len: usize) -> Desc {
        Desc { kind: Kind::Sequence, col, first, stride, len }
    }

    /// Kind according to the documented predicates: a one-value sequence is "one value, one step"
    /// i.e. a single assertion.
    pub fn effective(&self) -> Kind {
        if self.kind == Kind::Sequence && self.len == 1 {
            Kind::Single
        } else {
            self.kind
        }
    }

    /// documented constructor preconditions (`first == stride` is rejected by the code although
    /// the doc comment says "greater than"; reported as `None` = not judged)
    pub fn ctor_ok(&self) -> Option<bool> {
        match self.kind {
            Kind::Single => Some(true),
            Kind::Periodic | Kind::Sequence => {
                let stride_ok = self.stride.is_power_of_two() && self.stride >= 2;
                let len_ok = self.kind == Kind::Periodic || (self.len > 0 && self.len.is_power_of_two());
                if !stride_ok || !len_ok || self.first > self.stride {
                    Some(false)
                } else if self.first == self.stride {
                    None
                } else {
                    Some(true)
                }
            },
        }
    }

    /// documented rule of `validate_trace_length`
    pub fn fits(&self, length: usize) -> bool {
        if !length.is_power_of_two() {
            return false;
        }
        match self.effective() {
            Kind::Single => self.first < length,
            Kind::Periodic => self.stride <= length,
            Kind::Sequence => self.len * self.stride == length,
        }
    }

    /// the asserted steps at trace length n, by definition: first, first + stride, … (periodic:
    /// while below n; sequence: one step per value)
    pub fn steps(&self, n: usize) -> Vec<usize> {
        match self.effective() {
            Kind::Single => vec![self.first],
            Kind::Periodic => {
                let mut v = vec![];
                let mut s = self.first;
                while s < n {
                    v.push(s);
                    s += self.stride;
                }
                v
            },
            Kind::Sequence => (0..self.len).map(|i| self.first + i * self.stride).collect(),
        }
    }

    pub fn step_mask(&self, n: usize) -> Mask {
        assert!(n <= 512, "step masks hold 512 steps");
        let mut m = [0u128; 4];
        for s in self.steps(n) {
            m[s / 128] |= 1 << (s % 128);
        }
        m
    }

    /// the i-th value handed to the constructor
    pub fn value<E: FieldElement>(&self, i: usize) -> E {
        label::<E>((self.col as u64) << 40 | (self.first as u64) << 20 | self.stride as u64, ((self.kind as u64) << 32) + i as u64)
    }

    /// asserted value at the k-th asserted step
    pub fn value_at_kth<E: FieldElement>(&self, k: usize) -> E {
        match self.effective() {
            Kind::Sequence => self.value(k),
            _ => self.value(0),
        }
    }

    /// calls the real constructor
    pub fn build<E: FieldElement>(&self) -> Result<Assertion<E>, mck::Panicked> {
        let d = *self;
        mck::catch(move || match d.kind {
            Kind::Single => Assertion::single(d.col, d.first, d.value::<E>(0)),
            Kind::Periodic => Assertion::periodic(d.col, d.first, d.stride, d.value::<E>(0)),
            Kind::Sequence => Assertion::sequence(d.col, d.first, d.stride, (0..d.len).map(|i| d.value::<E>(i)).collect()),
        })
    }

    pub fn to_json(&self) -> Value {
        json!({"kind": self.kind.name(), "col": self.col, "first": self.first, "stride": self.stride, "len": self.len})
    }

    pub fn from_json(v: &Value) -> Desc {
        let kind = match v["kind"].as_str() {
            Some("single") => Kind::Single,
            Some("periodic") => Kind::Periodic,
            Some("sequence") => Kind::Sequence,
            _ => mck::report::machinery("bad assertion kind in replay record"),
        };
        let u = |k: &str| v[k].as_u64().unwrap_or_else(|| mck::report::machinery("bad assertion descriptor in replay record")) as usize;
        Desc { kind, col: u("col"), first: u("first"), stride: u("stride"), len: u("len") }
    }

    pub fn show(&self) -> String {
        match self.kind {
            Kind::Single => format!("single(col {}, step {})", self.col, self.first),
            Kind::Periodic => format!("periodic(col {}, first {}, stride {})", self.col, self.first, self.stride),
            Kind::Sequence => format!("sequence(col {}, first {}, stride {}, {} values)", self.col, self.first, self.stride, self.len),
        }
    }
}

pub type Mask = [u128; 4];

pub fn masks_meet(a: &Mask, b: &Mask) -> bool {
    (0..4).any(|i| a[i] & b[i] != 0)
}

pub fn pow2s(lo: usize, hi: usize) -> Vec<usize> {
    let mut v = vec![];
    let mut s = lo.next_power_of_two().max(1);
    while s <= hi {
        v.push(s);
        s *= 2;
    }
    v
}

/// every assertion valid at trace length n on `cols` columns: all single steps, all periodic
/// (stride, first), all sequences (stride, first) with n/stride values (incl. the one-value case)
pub fn catalogue(n: usize, cols: usize) -> Vec<Desc> {
    let mut v = vec![];
    for col in 0..cols {
        for step in 0..n {
            v.push(Desc::single(col, step));
        }
        for stride in pow2s(2, n) {
            for first in 0..stride {
                v.push(Desc::periodic(col, first, stride));
            }
        }
        for stride in pow2s(2, n) {
            for first in 0..stride {
                v.push(Desc::sequence(col, first, stride, n / stride));
            }
        }
    }
    v
}

// TINY AIR
// ================================================================================================

pub fn options(blowup: usize) -> ProofOptions {
    ProofOptions::new(1, blowup, 0, FieldExtension::None, 2, 0, BatchingMethod::Linear, BatchingMethod::Linear)
}

pub struct TinyInputs<B: StarkField> {
    pub assertions: Vec<Assertion<B>>,
    pub periodic: Vec<Vec<B>>,
    pub degrees: Vec<TransitionConstraintDegree>,
    pub exemptions: usize,
}

impl<B: StarkField> ToElements<B> for TinyInputs<B> {
    fn to_elements(&self) -> Vec<B> {
        vec![]
    }
}

/// A data-driven AIR whose only purpose is to reach the provided methods of the `Air` trait
/// (boundary constraints, periodic polynomials, context arithmetic) through the public API.
pub struct TinyAir<B: StarkField> {
    ctx: AirContext<B>,
    assertions: Vec<Assertion<B>>,
    periodic: Vec<Vec<B>>,
}

impl<B: Base> Air for TinyAir<B> {
    type BaseField = B;
    type PublicInputs = TinyInputs<B>;

    fn new(trace_info: TraceInfo, pi: TinyInputs<B>, options: ProofOptions) -> Self {
        let mut ctx = AirContext::new(trace_info, pi.degrees, pi.assertions.len(), options);
        if pi.exemptions != 1 {
            ctx = ctx.set_num_transition_exemptions(pi.exemptions);
        }
        TinyAir { ctx, assertions: pi.assertions, periodic: pi.periodic }
    }

    fn context(&self) -> &AirContext<B> {
        &self.ctx
    }

    fn evaluate_transition<E: FieldElement<BaseField = B>>(&self, _frame: &EvaluationFrame<E>, _periodic: &[E], result: &mut [E]) {
        for r in result.iter_mut() {
            *r = E::ZERO;
        }
    }

    fn get_assertions(&self) -> Vec<Assertion<B>> {
        self.assertions.clone()
    }

    fn get_periodic_column_values(&self) -> Vec<Vec<B>> {
        self.periodic.clone()
    }
}

pub fn tiny_air<B: Base>(width: usize, n: usize, assertions: Vec<Assertion<B>>, periodic: Vec<Vec<B>>) -> TinyAir<B> {
    TinyAir::new(
        TraceInfo::new(width, n),
        TinyInputs { assertions, periodic, degrees: vec![TransitionConstraintDegree::new(1)], exemptions: 1 },
        options(2),
    )
}
