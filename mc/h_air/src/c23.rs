//! C23 — transition divisors, degree declarations, composition-column count, periodic columns.

use mck::{json, Args, Report, Value};
use refm::poly as r2;
use winter_air::{Air, AirContext, ConstraintDivisor, TraceInfo, TransitionConstraintDegree};
use winter_math::fields::{f128, f62, f64};
use winter_math::FieldElement;

use crate::util::{guarded, label, merge_all, options, pow2s, pow_naive, tiny_air, trace_domain, Base, Sweep, W};

// TRANSITION DIVISOR
// ------------------------------------------------------------------------------------------------

/// numerator ∏(x^a − b) of a divisor as a dense polynomial (R2 products of sparse factors)
fn numerator_poly<B: Base>(d: &ConstraintDivisor<B>) -> Vec<W<B>> {
    let z = W(B::ZERO);
    let mut p = vec![W(B::ONE)];
    for (a, b) in d.numerator() {
        let mut f = vec![W(B::ZERO); a + 1];
        f[0] = W(B::ZERO - *b);
        f[*a] = W(B::ONE);
        p = r2::mul(&p, &f, &z);
    }
    p
}

fn check_divisor<B: Base>(fname: &str, n: usize, e: usize, lagrange: bool, s: &mut Sweep) {
    let rp = json!({"kind": "divisor", "field": fname, "n": n, "exemptions": e, "lagrange": lagrange});
    let key = format!("{fname} n={n} exemptions={e}");
    let z = W(B::ZERO);
    let dom = trace_domain::<B>(n);
    let d = match mck::catch(|| ConstraintDivisor::<B>::from_transition(n, e)) {
        Ok(d) => d,
        Err(p) => return s.fail(format!("panic:ConstraintDivisor::from_transition:{}", p.location), key, format!("panicked at {} ({})", p.location, p.message), rp),
    };
    s.evals += 1;
    if e > 1 {
        s.nontrivial += 1;
    }
    // documented degree
    if d.degree() != n - e {
        s.fail("wrong:ConstraintDivisor::from_transition:degree", key.clone(), format!("degree() = {}, documented n - exemptions = {}", d.degree(), n - e), rp.clone());
    }
    // the divisor as a polynomial, from its accessors: numerator / ∏(x − exemption) by R2 long
    // division must be exact and equal to ∏_{s < n−e} (x − g^s)
    let num = numerator_poly(&d);
    let den = r2::from_roots(&d.exemptions().iter().map(|x| W(*x)).collect::<Vec<_>>(), &z);
    let (q, r) = r2::divrem(&num, &den, &z);
    if !r2::trim(&r).is_empty() {
        s.fail("wrong:ConstraintDivisor::from_transition:not-a-polynomial", key.clone(), format!("numerator {:?} is not divisible by the product over the {} exemption points", d.numerator().iter().map(|t| t.0).collect::<Vec<_>>(), d.exemptions().len()), rp.clone());
        return;
    }
    let expect = r2::from_roots(&dom[..n - e].iter().map(|x| W(*x)).collect::<Vec<_>>(), &z);
    if !r2::polys_equal(&q, &expect) {
        let deg = r2::degree(&q);
        let zeros: Vec<usize> = (0..n).filter(|i| r2::eval(&q, &W(dom[*i])).0 == B::ZERO).collect();
        let want: Vec<usize> = (0..n - e).collect();
        s.fail("wrong:ConstraintDivisor::from_transition:vanishing-set", key.clone(), format!("divisor polynomial has degree {deg} and vanishes on {} trace-domain points; it must vanish exactly on steps 0..{} (all but the last {e}); first wrong step: {:?}", zeros.len(), n - e, (0..n).find(|i| zeros.contains(i) != want.contains(i))), rp.clone());
        return;
    }
    // evaluate_at against that polynomial: non-exempt trace points (no division hazard) …
    for i in 0..n - e {
        s.evals += 1;
        if d.evaluate_at::<B>(dom[i]) != B::ZERO {
            s.fail("wrong:ConstraintDivisor::evaluate_at:nonzero-on-enforced-step", key.clone(), format!("evaluate_at(g^{i}) is non-zero although step {i} is not exempt"), rp.clone());
            break;
        }
    }
    // … exempt points: the polynomial does not vanish there (definition); what evaluate_at returns
    // there (0·inv(0) = 0 by the library's convention) is only counted
    for i in n - e..n {
        s.evals += 1;
        s.nontrivial += 1;
        if r2::eval(&q, &W(dom[i])).0 == B::ZERO {
            s.fail("wrong:ConstraintDivisor::from_transition:vanishes-on-exempt-step", key.clone(), format!("divisor polynomial vanishes on exempt step {i}"), rp.clone());
        }
        if d.evaluate_at::<B>(dom[i]) == B::ZERO {
            s.count("evaluate_at on an exempt trace point returned 0 (0*inv(0) convention; not judged)");
        } else {
            s.count("evaluate_at on an exempt trace point returned non-zero");
        }
    }
    // … and an off-domain coset of 2n points: value equals the polynomial, and the documented
    // identity d(x) · ∏_{exempt}(x − g^s) = x^n − 1 holds
    let h = B::get_root_of_unity((2 * n).trailing_zeros());
    let mut x = B::GENERATOR;
    let mut pts = vec![];
    for j in 0..2 * n {
        s.evals += 1;
        let y = d.evaluate_at::<B>(x);
        pts.push((x, y));
        let mut ex = B::ONE;
        for st in n - e..n {
            ex *= x - dom[st];
        }
        if y * ex != pow_naive(x, n) - B::ONE {
            s.fail("wrong:ConstraintDivisor::evaluate_at:identity", key.clone(), format!("d(x)·∏(x − g^s) ≠ x^n − 1 at coset point {j}"), rp.clone());
            break;
        }
        if y != r2::eval(&q, &W(x)).0 {
            s.fail("wrong:ConstraintDivisor::evaluate_at:value", key.clone(), format!("evaluate_at differs from the divisor polynomial at coset point {j}"), rp.clone());
            break;
        }
        x *= h;
    }
    // DESIGN's route: interpolate the evaluations (R2 Lagrange through n−e+1 coset points), check
    // the remaining points lie on the interpolant, evaluate it on the trace domain
    if lagrange {
        s.count("divisors re-derived by Lagrange interpolation of evaluate_at");
        let m = n - e + 1;
        let xs: Vec<W<B>> = pts[..m].iter().map(|p| W(p.0)).collect();
        let ys: Vec<W<B>> = pts[..m].iter().map(|p| W(p.1)).collect();
        let lag = r2::lagrange(&xs, &ys, &z);
        let consistent = pts[m..].iter().all(|p| r2::eval(&lag, &W(p.0)).0 == p.1);
        let zeros: Vec<usize> = (0..n).filter(|i| r2::eval(&lag, &W(dom[*i])).0 == B::ZERO).collect();
        s.evals += 1;
        if !consistent || r2::degree(&lag) != n - e || zeros != (0..n - e).collect::<Vec<_>>() {
            s.fail("wrong:ConstraintDivisor::evaluate_at:interpolant", key.clone(), format!("interpolating evaluate_at over an off-domain coset gives degree {} (consistent with the other coset points: {consistent}), zeros on the trace domain at {} steps; expected degree {} and zeros exactly on steps 0..{}", r2::degree(&lag), zeros.len(), n - e, n - e), rp.clone());
        }
    }
}

// DEGREE DECLARATIONS
// ------------------------------------------------------------------------------------------------

fn cycle_lists(n: usize, max_len: usize) -> Vec<Vec<usize>> {
    let cs = pow2s(2, n);
    let mut out: Vec<Vec<usize>> = vec![vec![]];
    let mut level: Vec<Vec<usize>> = vec![vec![]];
    for _ in 0..max_len {
        let mut next = vec![];
        for l in &level {
            for c in &cs {
                let mut x = l.clone();
                x.push(*c);
                next.push(x);
            }
        }
        out.extend(next.iter().cloned());
        level = next;
    }
    out
}

fn declared(base: usize, cycles: &[usize]) -> Result<TransitionConstraintDegree, mck::Panicked> {
    let c = cycles.to_vec();
    mck::catch(move || if c.is_empty() { TransitionConstraintDegree::new(base) } else { TransitionConstraintDegree::with_cycles(base, c) })
}

/// documented formula  b·(n−1) + Σ n·(c_i − 1)/c_i
fn eval_degree_formula(base: usize, cycles: &[usize], n: usize) -> usize {
    base * (n - 1) + cycles.iter().map(|c| n * (c - 1) / c).sum::<usize>()
}

fn check_degree(base: usize, cycles: &[usize], n: usize, measure: bool, s: &mut Sweep) {
    let rp = json!({"kind": "degree", "base": base, "cycles": cycles, "n": n, "measure": measure});
    let key = format!("base={base} cycles={cycles:?} n={n}");
    s.evals += 1;
    if !cycles.is_empty() {
        s.nontrivial += 1;
    }
    let deg = match declared(base, cycles) {
        Ok(d) => d,
        Err(p) => return s.fail(format!("panic:TransitionConstraintDegree:{}", p.location), key, format!("constructor panicked inside its documented preconditions: {}", p.message), rp),
    };
    let expect = eval_degree_formula(base, cycles, n);
    let got = deg.get_evaluation_degree(n);
    if got != expect {
        s.fail("wrong:TransitionConstraintDegree::get_evaluation_degree", key.clone(), format!("get_evaluation_degree({n}) = {got}, documented formula gives {expect}"), rp.clone());
    }
    // blowup: power of two, at least 2, and n·blowup must exceed the degree of C(x)/z(x) with the
    // default single exemption (that is what the ce domain has to hold)
    let mb = deg.min_blowup_factor();
    let quotient_degree = expect - (n - 1);
    if !mb.is_power_of_two() || mb < 2 {
        s.fail("wrong:TransitionConstraintDegree::min_blowup_factor:not-a-power-of-two-above-one", key.clone(), format!("min_blowup_factor() = {mb}"), rp.clone());
    }
    if mb * n < quotient_degree + 1 {
        s.fail("wrong:TransitionConstraintDegree::min_blowup_factor:too-small", key.clone(), format!("min_blowup_factor() = {mb}: a domain of {} points cannot hold a quotient of degree {quotient_degree}", mb * n), rp.clone());
    }
    if mb > 2 && (mb / 2) * n >= quotient_degree + 1 {
        s.count("min_blowup_factor larger than this n needs (allowed: the estimate ignores n)");
    }
    if measure {
        // concrete constraint of this declaration over f64: T(x)^base · ∏ p_i(x^(n/c_i)), T a
        // generic column polynomial of degree n−1, p_i the interpolant of a generic cycle
        type B = f64::BaseElement;
        let z = W(B::ZERO);
        let dom = trace_domain::<B>(n);
        let col: Vec<W<B>> = (0..n).map(|i| W(label::<B>(31, i as u64))).collect();
        let t = r2::lagrange(&dom.iter().map(|x| W(*x)).collect::<Vec<_>>(), &col, &z);
        let mut c = vec![W(B::ONE)];
        for _ in 0..base {
            c = r2::mul(&c, &t, &z);
        }
        for (k, cyc) in cycles.iter().enumerate() {
            let sub = trace_domain::<B>(*cyc);
            let vals: Vec<W<B>> = (0..*cyc).map(|i| W(label::<B>(40 + k as u64, i as u64))).collect();
            let p = r2::lagrange(&sub.iter().map(|x| W(*x)).collect::<Vec<_>>(), &vals, &z);
            // substitute x -> x^(n/cyc)
            let m = n / cyc;
            let mut px = vec![W(B::ZERO); (p.len() - 1) * m + 1];
            for (i, co) in p.iter().enumerate() {
                px[i * m] = *co;
            }
            c = r2::mul(&c, &px, &z);
        }
        s.evals += 1;
        s.count("declarations whose degree was measured on a concrete constraint polynomial");
        let measured = r2::degree(&c);
        if measured != got {
            s.fail("wrong:TransitionConstraintDegree::get_evaluation_degree:measured", key, format!("a concrete constraint of this shape has degree {measured}, get_evaluation_degree says {got}"), rp);
        }
    }
}

fn check_degree_ctor(base: usize, cycles: &[usize], s: &mut Sweep) {
    s.evals += 1;
    let ok = base > 0 && cycles.iter().all(|c| *c >= 2 && c.is_power_of_two());
    let r = declared(base, cycles);
    if ok != r.is_ok() {
        s.fail("wrong:TransitionConstraintDegree:constructor-acceptance", format!("base={base} cycles={cycles:?}"), format!("documented preconditions say {}, constructor {}", if ok { "valid" } else { "invalid" }, if r.is_ok() { "accepted" } else { "panicked" }), json!({"kind": "degree_ctor", "base": base, "cycles": cycles}));
    }
    if !ok {
        s.nontrivial += 1;
    }
}

// COMPOSITION COLUMNS
// ------------------------------------------------------------------------------------------------

fn check_columns(base: usize, cycles: &[usize], n: usize, e: usize, s: &mut Sweep) {
    let rp = json!({"kind": "columns", "base": base, "cycles": cycles, "n": n, "exemptions": e});
    let key = format!("base={base} cycles={cycles:?} n={n} exemptions={e}");
    type B = f64::BaseElement;
    s.evals += 1;
    let deg = declared(base, cycles).unwrap();
    let blowup = deg.min_blowup_factor();
    let eval_degree = eval_degree_formula(base, cycles, n);
    let ctx = match mck::catch(|| AirContext::<B>::new(TraceInfo::new(1, n), vec![deg.clone()], 1, options(blowup))) {
        Ok(c) => c,
        Err(p) => return s.fail(format!("panic:AirContext::new:{}", p.location), key, format!("AirContext::new panicked with blowup = min_blowup_factor() = {blowup}: {}", p.message), rp),
    };
    if ctx.ce_domain_size() != n * blowup {
        s.fail("wrong:AirContext::ce_domain_size", key.clone(), format!("ce_domain_size() = {}, n·min_blowup = {}", ctx.ce_domain_size(), n * blowup), rp.clone());
    }
    // documented acceptance of set_num_transition_exemptions: 0 rejected; more than half the trace
    // rejected (the code tolerates n/2 + 1: not judged); rejected when the quotient no longer
    // fits the constraint evaluation domain
    let composition_degree = (eval_degree + e) as i64 - n as i64; // deg C − deg z, z of degree n − e
    let fits_ce = composition_degree <= (n * blowup) as i64 - 1;
    let expect: Option<bool> = if e == 0 || e > n / 2 + 1 || !fits_ce {
        Some(false)
    } else if e == n / 2 + 1 {
        None
    } else {
        Some(true)
    };
    let r = mck::catch(|| ctx.clone().set_num_transition_exemptions(e));
    match (expect, &r) {
        (Some(true), Err(p)) => s.fail("rejected:AirContext::set_num_transition_exemptions", key.clone(), format!("{e} exemptions are within the documented limits (at most half the trace; composition degree {composition_degree} fits the {}-point evaluation domain) but were rejected: {}", n * blowup, p.message), rp.clone()),
        (Some(false), Ok(_)) => s.fail("accepted:AirContext::set_num_transition_exemptions", key.clone(), format!("{e} exemptions accepted although documented as invalid (composition degree {composition_degree}, evaluation domain {})", n * blowup), rp.clone()),
        (None, Ok(_)) => s.count("n/2+1 exemptions accepted (doc says 'exceeds half of the trace length' panics; not judged)"),
        (None, Err(_)) => s.count("n/2+1 exemptions rejected"),
        (Some(false), Err(_)) => s.count(if e != 0 && e <= n / 2 + 1 { "exemption count rejected as documented: quotient would not fit the evaluation domain" } else { "exemption count rejected as documented: zero or more than half the trace" }),
        (Some(true), Ok(_)) => {},
    }
    let ctx = match r {
        Ok(c) if composition_degree >= 0 => c,
        _ => return,
    };
    s.evals += 1;
    s.nontrivial += 1;
    if ctx.num_transition_exemptions() != e {
        s.fail("wrong:AirContext::num_transition_exemptions", key.clone(), format!("reports {} after setting {e}", ctx.num_transition_exemptions()), rp.clone());
    }
    let cols = match mck::catch(|| ctx.num_constraint_composition_columns()) {
        Ok(c) => c,
        Err(p) => return s.fail(format!("panic:AirContext::num_constraint_composition_columns:{}", p.location), key, p.message, rp),
    };
    // H(x) = C(x)/z(x) has composition_degree + 1 coefficients; each column holds n of them
    let needed = ((composition_degree as usize + 1) + n - 1) / n;
    if cols * n < composition_degree as usize + 1 {
        s.fail(
            "too_few_columns:AirContext::num_constraint_composition_columns",
            key,
            format!("constraint degree {eval_degree}, divisor degree {} => composition polynomial of degree {composition_degree} has {} coefficients, but num_constraint_composition_columns() = {cols} columns of {n} hold only {}; {needed} are needed", n - e, composition_degree + 1, cols * n),
            rp,
        );
    } else if cols == needed.max(1) {
        s.count("column count exactly sufficient");
    } else {
        s.count("column count more than sufficient");
    }
}


/// Contexts with several main-segment degrees and auxiliary-segment degrees: the composition
/// columns must hold the quotient of the highest-degree constraint of EITHER segment.
fn check_columns_multi(main: &[usize], aux: &[usize], n: usize, s: &mut Sweep) {
    let rp = json!({"kind": "columns_multi", "main": main, "aux": aux, "n": n});
    let key = format!("main degrees {main:?} aux degrees {aux:?} n={n}");
    type B = f64::BaseElement;
    s.evals += 1;
    s.nontrivial += 1;
    let md: Vec<TransitionConstraintDegree> = main.iter().map(|b| TransitionConstraintDegree::new(*b)).collect();
    let ad: Vec<TransitionConstraintDegree> = aux.iter().map(|b| TransitionConstraintDegree::new(*b)).collect();
    let blowup = md.iter().chain(ad.iter()).map(|d| d.min_blowup_factor()).max().unwrap();
    let eval_degree = main.iter().chain(aux.iter()).map(|b| eval_degree_formula(*b, &[], n)).max().unwrap();
    let ctx = match mck::catch(|| {
        if ad.is_empty() {
            AirContext::<B>::new(TraceInfo::new(1, n), md.clone(), 1, options(blowup))
        } else {
            AirContext::<B>::new_multi_segment(TraceInfo::new_multi_segment(1, 1, 1, n, vec![]), md.clone(), ad.clone(), 1, 1, options(blowup))
        }
    }) {
        Ok(c) => c,
        Err(p) => return s.fail(format!("panic:AirContext::new_multi_segment:{}", p.location), key, format!("constructor panicked with blowup {blowup}: {}", p.message), rp),
    };
    let e = ctx.num_transition_exemptions();
    let composition_degree = (eval_degree + e) as i64 - n as i64;
    if composition_degree < 0 {
        return;
    }
    let cols = match mck::catch(|| ctx.num_constraint_composition_columns()) {
        Ok(c) => c,
        Err(p) => return s.fail(format!("panic:AirContext::num_constraint_composition_columns:{}", p.location), key, p.message, rp),
    };
    let needed = ((composition_degree as usize + 1) + n - 1) / n;
    if cols * n < composition_degree as usize + 1 {
        s.fail(
            "too_few_columns:AirContext::num_constraint_composition_columns",
            key,
            format!("highest constraint degree {eval_degree} (main {main:?}, aux {aux:?}), divisor degree {} => composition polynomial of degree {composition_degree} has {} coefficients, but num_constraint_composition_columns() = {cols} columns of {n} hold only {}; {needed} are needed", n - e, composition_degree + 1, cols * n),
            rp,
        );
    } else if cols == needed.max(1) {
        s.count("multi-degree context: column count exactly sufficient");
    } else {
        s.count("multi-degree context: column count more than sufficient");
    }
}

// PERIODIC COLUMNS
// ------------------------------------------------------------------------------------------------

fn check_periodic<B: Base>(fname: &str, n: usize, pattern: usize, s: &mut Sweep) {
    let rp = json!({"kind": "periodic", "field": fname, "n": n, "pattern": pattern});
    let dom = trace_domain::<B>(n);
    // one column per cycle length ≤ n, plus a second column of the first cycle length (shared
    // twiddle cache); pattern 0 = generic values, pattern k>0 = unit vector at position (k−1) mod c
    let mut cols: Vec<Vec<B>> = vec![];
    for c in pow2s(2, n) {
        cols.push((0..c).map(|i| if pattern == 0 { label::<B>(c as u64, i as u64) } else if i == (pattern - 1) % c { B::ONE } else { B::ZERO }).collect());
    }
    cols.push((0..2).map(|i| label::<B>(999, i as u64)).collect());
    let polys = match mck::catch(|| tiny_air::<B>(1, n, vec![winter_air::Assertion::single(0, 0, B::ONE)], cols.clone()).get_periodic_column_polys()) {
        Ok(p) => p,
        Err(p) => return s.fail(format!("panic:Air::get_periodic_column_polys:{}", p.location), format!("{fname} n={n}"), p.message, rp),
    };
    if polys.len() != cols.len() {
        return s.fail("wrong:Air::get_periodic_column_polys:count", format!("{fname} n={n}"), format!("{} polynomials for {} columns", polys.len(), cols.len()), rp);
    }
    for (vals, poly) in cols.iter().zip(&polys) {
        let c = vals.len();
        let key = format!("{fname} n={n} cycle={c} pattern={pattern}");
        if poly.len() != c {
            s.fail("wrong:Air::get_periodic_column_polys:length", key.clone(), format!("polynomial has {} coefficients for a cycle of {c}", poly.len()), rp.clone());
            continue;
        }
        let pw: Vec<W<B>> = poly.iter().map(|x| W(*x)).collect();
        for step in 0..n {
            s.evals += 1;
            if step >= c {
                s.nontrivial += 1;
            }
            // documented evaluation: the polynomial at x^(n/c)
            let x = pow_naive(dom[step], n / c);
            if r2::eval(&pw, &W(x)).0 != vals[step % c] {
                s.fail("wrong:Air::get_periodic_column_polys:value", key.clone(), format!("at step {step} the polynomial (evaluated at x^(n/c)) does not give cycle value number {}", step % c), rp.clone());
                break;
            }
        }
    }
}

// DRIVER
// ------------------------------------------------------------------------------------------------

fn replay(args: &Args, v: &Value) -> ! {
    let mut s = Sweep::new();
    let u = |k: &str| v[k].as_u64().unwrap_or(0) as usize;
    let cycles: Vec<usize> = v["cycles"].as_array().map(|a| a.iter().map(|x| x.as_u64().unwrap() as usize).collect()).unwrap_or_default();
    let field = v["field"].as_str().unwrap_or("f64").to_string();
    match v["kind"].as_str() {
        Some("divisor") => {
            let (n, e, l) = (u("n"), u("exemptions"), v["lagrange"].as_bool().unwrap_or(true));
            match field.as_str() {
                "f64" => check_divisor::<f64::BaseElement>("f64", n, e, l, &mut s),
                "f62" => check_divisor::<f62::BaseElement>("f62", n, e, l, &mut s),
                "f128" => check_divisor::<f128::BaseElement>("f128", n, e, l, &mut s),
                _ => mck::report::machinery("unknown field in replay record"),
            }
        },
        Some("degree") => check_degree(u("base"), &cycles, u("n"), v["measure"].as_bool().unwrap_or(false), &mut s),
        Some("degree_ctor") => check_degree_ctor(u("base"), &cycles, &mut s),
        Some("columns") => {
            println!("base {} cycles {:?} n {} exemptions {}", u("base"), cycles, u("n"), u("exemptions"));
            check_columns(u("base"), &cycles, u("n"), u("exemptions"), &mut s)
        },
        Some("columns_multi") => {
            let l = |k: &str| -> Vec<usize> { v[k].as_array().map(|a| a.iter().map(|x| x.as_u64().unwrap() as usize).collect()).unwrap_or_default() };
            check_columns_multi(&l("main"), &l("aux"), u("n"), &mut s)
        },
        Some("periodic") => {
            let (n, p) = (u("n"), u("pattern"));
            match field.as_str() {
                "f64" => check_periodic::<f64::BaseElement>("f64", n, p, &mut s),
                "f62" => check_periodic::<f62::BaseElement>("f62", n, p, &mut s),
                "f128" => check_periodic::<f128::BaseElement>("f128", n, p, &mut s),
                _ => mck::report::machinery("unknown field in replay record"),
            }
        },
        _ => mck::report::machinery("unknown replay kind for C23"),
    }
    s.finish_replay(args, v)
}

fn divisor_sweep<B: Base>(fname: &'static str, ns: &[usize], lagrange_up_to: usize) -> Sweep {
    let mut cases = vec![];
    for &n in ns {
        for e in 1..=n / 2 + 1 {
            cases.push((n, e));
        }
    }
    cases.reverse(); // big ones are scheduled first …
    let mut parts = mck::par_map(cases.len(), |i| guarded("C23", || {
        let mut s = Sweep::new();
        let (n, e) = cases[i];
        check_divisor::<B>(fname, n, e, n <= lagrange_up_to, &mut s);
        s
    }));
    parts.reverse(); // … but the simplest cases are reported first
    merge_all(parts)
}

pub fn run(args: &Args) {
    if let Some(v) = args.replay_value() {
        replay(args, &v);
    }
    let mut report = Report::new(args, "exploration");
    let thorough = args.tier == mck::Tier::Thorough;
    let ns: Vec<usize> = if thorough { vec![8, 16, 32, 64, 128, 256, 512, 1024] } else { vec![8, 16, 32, 64, 128] };
    let lag = if thorough { 64 } else { 32 };

    // 1. transition divisors
    divisor_sweep::<f64::BaseElement>("f64", &ns, lag).into_report("transition divisor, f64: n x exemptions 1..=n/2+1", json!({"lagrange_up_to_n": lag}), &mut report);
    divisor_sweep::<f62::BaseElement>("f62", &ns, lag).into_report("transition divisor, f62: n x exemptions 1..=n/2+1", json!({"lagrange_up_to_n": lag}), &mut report);
    divisor_sweep::<f128::BaseElement>("f128", &ns, lag).into_report("transition divisor, f128: n x exemptions 1..=n/2+1", json!({"lagrange_up_to_n": lag}), &mut report);

    // 2. degree declarations
    let mut s = Sweep::new();
    for base in 0..=17usize {
        check_degree_ctor(base, &[], &mut s);
        for c in 0..=130usize {
            check_degree_ctor(base, &[c], &mut s);
            check_degree_ctor(base, &[4, c], &mut s);
            check_degree_ctor(base, &[c, 2, 8], &mut s);
        }
    }
    s.into_report("degree declarations: constructor acceptance (base 0..=17, cycle values 0..=130 in each position)", json!({}), &mut report);

    let (measure_ns, measure_base): (Vec<usize>, usize) = if thorough { (vec![8, 16, 32, 64], 8) } else { (vec![8, 16, 32], 6) };
    let mut cases: Vec<(usize, Vec<usize>, usize)> = vec![];
    for &n in &ns {
        for l in cycle_lists(n, 3) {
            for base in 1..=16usize {
                cases.push((base, l.clone(), n));
            }
        }
    }
    let chunks = 256;
    let parts = mck::par_map(chunks, |c| guarded("C23", || {
        let mut s = Sweep::new();
        for (i, (base, l, n)) in cases.iter().enumerate() {
            if i % chunks == c {
                let measure = measure_ns.contains(n) && *base <= measure_base;
                check_degree(*base, l, *n, measure, &mut s);
            }
        }
        s
    }));
    merge_all(parts).into_report("degree declarations: base 1..=16 x ordered cycle lists of length <= 3 over powers of two <= n, evaluation degree, blowup, measured degree", json!({"measured_for": {"n": measure_ns, "base_up_to": measure_base}}), &mut report);

    // 3. composition columns for every admissible (degree, cycles, exemptions, n)
    let col_ns: Vec<usize> = ns.clone();
    // simplest cases first and sequentially, so that the recorded examples are the minimal ones
    let mut s0 = Sweep::new();
    for base in 1..=4usize {
        for e in 0..=8 / 2 + 2 {
            check_columns(base, &[], 8, e, &mut s0);
        }
    }
    s0.into_report("composition columns: base 1..=4, no cycles, n = 8, exemptions 0..=6 (simplest cases, run first)", json!({}), &mut report);
    let mut ccases: Vec<(usize, Vec<usize>, usize)> = vec![];
    for &n in &col_ns {
        // unordered cycle lists suffice here (the formula is symmetric); keep sorted ones
        for l in cycle_lists(n, 3).into_iter().filter(|l| l.windows(2).all(|w| w[0] <= w[1])) {
            for base in 1..=16usize {
                if !(n == 8 && l.is_empty() && base <= 4) {
                    ccases.push((base, l.clone(), n));
                }
            }
        }
    }
    let parts = mck::par_map(chunks, |c| guarded("C23", || {
        let mut s = Sweep::new();
        for (i, (base, l, n)) in ccases.iter().enumerate() {
            if i % chunks == c {
                for e in 0..=n / 2 + 2 {
                    check_columns(*base, l, *n, e, &mut s);
                }
            }
        }
        s
    }));
    merge_all(parts).into_report("composition columns: base 1..=16 x sorted cycle lists <= 3 x n x exemptions 0..=n/2+2 (blowup = min_blowup_factor)", json!({}), &mut report);

    // 3b. several degrees per segment and auxiliary-segment degrees: all lists of 1..2 main degrees and
    // 0..2 auxiliary degrees over 1..=8 (every position of the maximum)
    let mut sm = Sweep::new();
    let degs: Vec<usize> = (1..=8).collect();
    let mut lists: Vec<Vec<usize>> = vec![vec![]];
    for a in &degs {
        lists.push(vec![*a]);
        for b in &degs {
            lists.push(vec![*a, *b]);
        }
    }
    for &n in &[8usize, 16, 64] {
        for m in lists.iter().filter(|l| !l.is_empty()) {
            for a in &lists {
                check_columns_multi(m, a, n, &mut sm);
            }
        }
    }
    sm.into_report("composition columns: contexts with 1..2 main and 0..2 auxiliary transition degrees over 1..=8 (n = 8, 16, 64; default exemptions)", json!({}), &mut report);

    // 4. periodic columns
    let pns: Vec<usize> = if thorough { vec![8, 16, 32, 64, 128, 256, 512, 1024] } else { vec![8, 16, 32, 64, 128] };
    let mut pc: Vec<(usize, usize)> = vec![];
    for &n in &pns {
        for pattern in 0..=n.min(64) {
            pc.push((n, pattern));
        }
    }
    for (fname, which) in [("f64", 0), ("f62", 1), ("f128", 2)] {
        let parts = mck::par_map(pc.len(), |i| guarded("C23", || {
            let mut s = Sweep::new();
            let (n, p) = pc[i];
            match which {
                0 => check_periodic::<f64::BaseElement>("f64", n, p, &mut s),
                1 => check_periodic::<f62::BaseElement>("f62", n, p, &mut s),
                _ => check_periodic::<f128::BaseElement>("f128", n, p, &mut s),
            }
            s
        }));
        merge_all(parts).into_report(&format!("periodic columns, {fname}: every cycle length <= n, generic values and every unit vector, every trace step"), json!({"n": pns}), &mut report);
    }

    report.sample(json!({"check": "transition divisor", "field": "f64", "n": 16, "exemptions": 3, "oracle": "(x^16 - 1) / ((x - g^13)(x - g^14)(x - g^15)) divides exactly, equals prod_{s<13}(x - g^s), degree 13"}));
    report.sample(json!({"check": "evaluation degree", "base": 2, "cycles": [32], "n": 64, "documented": 188}));
    report.sample(json!({"check": "composition columns", "base": 2, "cycles": [], "n": 8, "exemptions": 2, "constraint_degree": 14, "divisor_degree": 6, "composition_degree": 8, "coefficients": 9, "needed_columns": 2}));
    report.exhaustive = true;
    report.bounds = json!({"trace_lengths": ns, "exemptions": "1..=n/2+1 for divisors, 0..=n/2+2 for AirContext", "base_degrees": "1..=16", "cycle_lists": "all ordered lists of length <= 3 over powers of two 2..=n", "periodic_trace_lengths": pns, "fields": ["f64", "f62", "f128"]});
    report.rule = "one evaluation per divisor point / declaration / (declaration, n, exemptions) / (periodic column, step); non-trivial = more than one exemption, exempt points, declarations with cycles, accepted exemption settings, steps beyond the first cycle".into();
    report.assumptions = vec![
        "evaluate_at on an exempt trace-domain point is not judged (0·inv(0) convention); the divisor is observed through its accessors, off-domain evaluations and R2 division/interpolation".into(),
        "min_blowup_factor is judged against the default single exemption, as its documentation states".into(),
        "set_num_transition_exemptions(n/2 + 1) is accepted by the code while the doc says 'exceeds half of the trace length' panics: not judged".into(),
    ];
    report.finish(args)
}
