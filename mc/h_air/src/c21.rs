//! C21 — assertion step sets and overlap detection.
//!
//! For every power-of-two trace length n in the bound: every assertion the constructors accept
//! on two columns and ALL ordered pairs of those valid at n. Oracle = step sets computed by
//! definition from the constructor arguments (arithmetic progression first, first+stride, …).

use mck::{json, Args, Report, Value};
use winter_air::{Air, Assertion, BoundaryConstraints, TransitionConstraintDegree};
use winter_math::fields::f64::BaseElement as B;

use crate::util::{catalogue, guarded, masks_meet, merge_all, options, tiny_air, Desc, Kind, Mask, Sweep};

const COLS: usize = 2;

fn ctx(n: usize, num_assertions: usize) -> winter_air::AirContext<B> {
    winter_air::AirContext::new(winter_air::TraceInfo::new(COLS, n), vec![TransitionConstraintDegree::new(1)], num_assertions, options(2))
}

fn coeffs(k: usize) -> Vec<B> {
    (0..k).map(|i| B::from(1000u32 + i as u32)).collect()
}

// CONSTRUCTORS
// ------------------------------------------------------------------------------------------------

/// constructor acceptance against the documented preconditions, and the accessors of what was built
fn check_ctor(d: &Desc, s: &mut Sweep) -> Option<Assertion<B>> {
    s.evals += 1;
    let rp = json!({"kind": "ctor", "a": d.to_json()});
    let built = d.build::<B>();
    match (d.ctor_ok(), &built) {
        (Some(true), Err(p)) => s.fail(format!("panic:Assertion::{}:{}", d.kind.name(), p.location), d.show(), format!("{} is inside the documented preconditions but the constructor panicked at {} ({})", d.show(), p.location, p.message), rp.clone()),
        (Some(false), Ok(_)) => s.fail(format!("accepted:Assertion::{}", d.kind.name()), d.show(), format!("{} violates a documented precondition but was accepted", d.show()), rp.clone()),
        (None, r) => s.count(if r.is_ok() { "ctor first==stride accepted (doc: panics only if greater)" } else { "ctor first==stride rejected (doc: panics only if greater)" }),
        (Some(true), Ok(_)) => s.count("ctor accepted as documented"),
        (Some(false), Err(_)) => {
            s.nontrivial += 1;
            s.count("ctor rejected as documented")
        },
    }
    let a = built.ok()?;
    // accessors
    let eff = d.effective();
    let exp_stride = if eff == Kind::Single { 0 } else { d.stride };
    let exp_values: Vec<B> = (0..d.len).map(|i| d.value::<B>(i)).collect();
    let ok = a.column() == d.col
        && a.first_step() == d.first
        && a.stride() == exp_stride
        && a.values() == &exp_values[..]
        && a.is_single() == (eff == Kind::Single)
        && a.is_periodic() == (eff == Kind::Periodic)
        && a.is_sequence() == (eff == Kind::Sequence);
    if !ok {
        s.fail("wrong:Assertion::accessors", d.show(), format!("{}: accessors report column {} first_step {} stride {} {} values single/periodic/sequence = {}/{}/{}", d.show(), a.column(), a.first_step(), a.stride(), a.values().len(), a.is_single(), a.is_periodic(), a.is_sequence()), rp);
    }
    Some(a)
}

// ONE ASSERTION
// ------------------------------------------------------------------------------------------------

/// validate_trace_length for every length 0..=max_len, and at the lengths it fits: get_num_steps
/// and apply against the step set by definition; at a few lengths it does not fit: both panic.
fn check_one(d: &Desc, a: &Assertion<B>, max_len: usize, s: &mut Sweep) {
    let rp = json!({"kind": "one", "a": d.to_json(), "max_len": max_len});
    for length in 0..=max_len {
        s.evals += 1;
        let expect = d.fits(length);
        let got = a.validate_trace_length(length).is_ok();
        if expect {
            s.nontrivial += 1;
        }
        if got != expect {
            s.fail(format!("wrong:Assertion::validate_trace_length:{}", d.effective().name()), format!("{} @ length {length}", d.show()), format!("{}: validate_trace_length({length}) {} but the documented rule says it {}", d.show(), if got { "accepts" } else { "rejects" }, if expect { "fits" } else { "does not fit" }), rp.clone());
            continue;
        }
        let interesting_reject = !expect && (length.is_power_of_two() || length == 0 || length % 32 == 3);
        if !expect && !interesting_reject {
            continue;
        }
        let steps = d.steps(length);
        let num = mck::catch(|| a.get_num_steps(length));
        let mut visited: Vec<(usize, B)> = vec![];
        let app = mck::catch(|| a.apply(length, |st, v| visited.push((st, v))));
        if expect {
            s.count(&format!("fits:{}", d.effective().name()));
            match num {
                Err(p) => s.fail(format!("panic:Assertion::get_num_steps:{}", p.location), format!("{} @ {length}", d.show()), format!("get_num_steps({length}) panicked ({}) for {}", p.message, d.show()), rp.clone()),
                Ok(k) if k != steps.len() => s.fail("wrong:Assertion::get_num_steps", format!("{} @ {length}", d.show()), format!("{}: get_num_steps({length}) = {k}, step set by definition has {} elements", d.show(), steps.len()), rp.clone()),
                _ => {},
            }
            match app {
                Err(p) => s.fail(format!("panic:Assertion::apply:{}", p.location), format!("{} @ {length}", d.show()), format!("apply({length}) panicked ({}) for {}", p.message, d.show()), rp.clone()),
                Ok(()) => {
                    let expect_visits: Vec<(usize, B)> = steps.iter().enumerate().map(|(k, st)| (*st, d.value_at_kth::<B>(k))).collect();
                    if visited != expect_visits {
                        let i = visited.iter().zip(&expect_visits).position(|(x, y)| x != y);
                        s.fail("wrong:Assertion::apply", format!("{} @ {length}", d.show()), format!("{}: apply({length}) visited {} (step, value) pairs, definition gives {}; first difference at index {i:?}; visited steps {:?}", d.show(), visited.len(), expect_visits.len(), visited.iter().map(|x| x.0).take(12).collect::<Vec<_>>()), rp.clone());
                    }
                    if steps.iter().any(|st| *st >= length) {
                        s.fail("oracle:step-beyond-length", d.show(), format!("{} fits length {length} by the documented rule but its progression leaves the trace", d.show()), rp.clone());
                    }
                },
            }
        } else {
            s.count("rejected length: get_num_steps/apply must panic");
            if num.is_ok() {
                s.fail("no_panic:Assertion::get_num_steps", format!("{} @ {length}", d.show()), format!("{}: get_num_steps({length}) returned although the length is documented as invalid", d.show()), rp.clone());
            }
            if app.is_ok() {
                s.fail("no_panic:Assertion::apply", format!("{} @ {length}", d.show()), format!("{}: apply({length}) ran although the length is documented as invalid", d.show()), rp.clone());
            }
        }
    }
    for width in 0..=3usize {
        s.evals += 1;
        if a.validate_trace_width(width).is_ok() != (d.col < width) {
            s.fail("wrong:Assertion::validate_trace_width", format!("{} @ width {width}", d.show()), format!("{}: validate_trace_width({width}) disagrees with column < width", d.show()), rp.clone());
        }
    }
}

// PAIRS AND LISTS
// ------------------------------------------------------------------------------------------------

fn overlap_by_definition(n: usize, a: &Desc, b: &Desc) -> bool {
    a.col == b.col && a.steps(n).iter().any(|x| b.steps(n).contains(x))
}

/// `BoundaryConstraints::new` (= prepare_assertions) on a list whose members are all valid at n:
/// must panic with the overlap message iff two members overlap by definition.
fn check_list(n: usize, ds: &[Desc], asserts: &[Assertion<B>], ctx: &winter_air::AirContext<B>, cc: &[B], via_air: bool, s: &mut Sweep) {
    s.evals += 1;
    let mut expect = false;
    for i in 0..ds.len() {
        for j in 0..i {
            expect |= overlap_by_definition(n, &ds[i], &ds[j]);
        }
    }
    if expect {
        s.nontrivial += 1;
    }
    let list: Vec<Assertion<B>> = asserts.to_vec();
    let r = if via_air {
        mck::catch(|| {
            let air = tiny_air::<B>(COLS, n, list, vec![]);
            let bc = air.get_boundary_constraints::<B>(None, cc);
            bc.main_constraints().iter().map(|g| g.constraints().len()).sum::<usize>()
        })
    } else {
        mck::catch(|| {
            let bc = BoundaryConstraints::<B>::new(ctx, list, vec![], cc);
            bc.main_constraints().iter().map(|g| g.constraints().len()).sum::<usize>()
        })
    };
    let rp = json!({"kind": "list", "n": n, "list": ds.iter().map(|d| d.to_json()).collect::<Vec<_>>(), "via_air": via_air});
    let key = format!("n={n} [{}]", ds.iter().map(|d| d.show()).collect::<Vec<_>>().join(", "));
    match r {
        Ok(k) => {
            s.count(if via_air { "list accepted (Air::get_boundary_constraints)" } else { "list accepted (BoundaryConstraints::new)" });
            if expect {
                s.fail("accepted_overlap:prepare_assertions", key, format!("two of the assertions constrain a common cell, but boundary constraints were built without complaint ({k} constraints)"), rp);
            } else if k != ds.len() {
                s.fail("wrong:BoundaryConstraints::new:constraint-count", key, format!("{} assertions became {k} constraints", ds.len()), rp);
            }
        },
        Err(p) => {
            let is_overlap_panic = p.message.contains("overlaps with");
            s.count(if is_overlap_panic { "list rejected: overlap" } else { "list rejected: other panic" });
            if !expect {
                s.fail(if is_overlap_panic { "rejected_disjoint:prepare_assertions".to_string() } else { format!("panic:BoundaryConstraints::new:{}", p.location) }, key, format!("no two assertions share a cell (all are valid at n = {n}), but building boundary constraints panicked at {}: {}", p.location, p.message), rp);
            } else if !is_overlap_panic {
                s.fail(format!("panic:BoundaryConstraints::new:{}", p.location), key, format!("overlapping list rejected, but by an unrelated panic at {}: {}", p.location, p.message), rp);
            }
        },
    }
}

fn check_pair(n: usize, da: &Desc, db: &Desc, a: &Assertion<B>, b: &Assertion<B>, ma: &Mask, mb: &Mask, s: &mut Sweep) -> bool {
    s.evals += 1;
    let expect = da.col == db.col && masks_meet(ma, mb);
    let got = a.overlaps_with(b);
    let tag = format!("overlap {}:{}x{}", expect, da.effective().name(), db.effective().name());
    s.count(&tag);
    if expect {
        s.nontrivial += 1;
    }
    if got != expect {
        s.fail(
            format!("wrong:Assertion::overlaps_with:{}-{}", da.effective().name(), db.effective().name()),
            format!("n={n} {} vs {}", da.show(), db.show()),
            format!("at trace length {n} (both valid): {} has steps {:?}, {} has steps {:?}; they {} a cell, overlaps_with says {got}", da.show(), head(&da.steps(n)), db.show(), head(&db.steps(n)), if expect { "share" } else { "do not share" }),
            json!({"kind": "pair", "n": n, "a": da.to_json(), "b": db.to_json()}),
        );
    }
    expect
}

fn head(v: &[usize]) -> Vec<usize> {
    v.iter().cloned().take(10).collect()
}

// SWEEPS
// ------------------------------------------------------------------------------------------------

/// the constructor space around n: every (stride, first, len) incl. the ones that must be rejected
fn ctor_space(n: usize) -> Vec<Desc> {
    let mut v = vec![];
    for col in 0..COLS {
        for step in 0..=2 * n + 1 {
            v.push(Desc::single(col, step));
        }
        for stride in 0..=2 * n + 1 {
            for first in 0..=stride + 1 {
                v.push(Desc::periodic(col, first, stride));
            }
        }
    }
    // sequences: every stride 0..=2n+1 with first in {0, 1, stride-1, stride, stride+1} for all
    // lengths 0..=2n+1, and every first step for the power-of-two lengths
    for stride in 0..=2 * n + 1 {
        for len in 0..=2 * n + 1 {
            let firsts: Vec<usize> = if len.is_power_of_two() && stride.is_power_of_two() {
                (0..=stride + 1).collect()
            } else {
                let mut f = vec![0, 1, stride.saturating_sub(1), stride, stride + 1];
                f.sort();
                f.dedup();
                f
            };
            for first in firsts {
                v.push(Desc::sequence(0, first, stride, len));
            }
        }
    }
    v
}

fn sweep_n(n: usize, triples: bool) -> Vec<(String, Sweep)> {
    let mut out = vec![];

    // constructors + single-assertion behaviour over every length 0..=4n
    let space = ctor_space(n);
    let chunks = 64;
    let parts = mck::par_map(chunks, |c| guarded("C21", || {
        let mut s = Sweep::new();
        for (i, d) in space.iter().enumerate() {
            if i % chunks != c {
                continue;
            }
            if let Some(a) = check_ctor(d, &mut s) {
                // full length sweep for what is valid somewhere near n; a thinner one for the rest
                check_one(d, &a, 4 * n + 1, &mut s);
            }
        }
        s
    }));
    out.push((format!("n={n} constructors x lengths 0..={}", 4 * n + 1), merge_all(parts)));

    // all ordered pairs of the assertions valid at n
    let mut pre = Sweep::new();
    let mut cat: Vec<Desc> = vec![];
    let mut asserts: Vec<Assertion<B>> = vec![];
    for d in catalogue(n, COLS) {
        match d.build::<B>() {
            Ok(a) if d.fits(n) && a.validate_trace_length(n).is_ok() => {
                cat.push(d);
                asserts.push(a);
            },
            _ => pre.fail("wrong:catalogue-member-not-valid-at-n", format!("n={n} {}", d.show()), format!("{} is valid at trace length {n} by the documented rules but the constructor or validate_trace_length({n}) refuses it; it is left out of the pair space", d.show()), json!({"kind": "one", "a": d.to_json(), "max_len": 4 * n + 1})),
        }
    }
    let masks: Vec<Mask> = cat.iter().map(|d| d.step_mask(n)).collect();
    let parts = mck::par_map(cat.len(), |i| guarded("C21", || {
        let mut s = Sweep::new();
        let c2 = ctx(n, 2);
        let cc = coeffs(2);
        for j in 0..cat.len() {
            check_pair(n, &cat[i], &cat[j], &asserts[i], &asserts[j], &masks[i], &masks[j], &mut s);
            check_list(n, &[cat[i], cat[j]], &[asserts[i].clone(), asserts[j].clone()], &c2, &cc, n == 8, &mut s);
        }
        s
    }));
    let mut pairs = merge_all(parts);
    pairs.absorb(pre);
    out.push((format!("n={n} ordered pairs of {} assertions", cat.len()), pairs));

    if triples {
        let parts = mck::par_map(cat.len(), |i| guarded("C21", || {
            let mut s = Sweep::new();
            let c3 = ctx(n, 3);
            let cc = coeffs(3);
            for j in 0..cat.len() {
                for k in 0..cat.len() {
                    check_list(n, &[cat[i], cat[j], cat[k]], &[asserts[i].clone(), asserts[j].clone(), asserts[k].clone()], &c3, &cc, false, &mut s);
                }
            }
            s
        }));
        out.push((format!("n={n} ordered triples of {} assertions", cat.len()), merge_all(parts)));
    }
    if triples && n == 8 {
        // depth 4: prepare_assertions keeps the accepted assertions in a sorted set, so the state after
        // three accepted insertions does not depend on their order: every overlap-free set {i<j<k}
        // (in two insertion orders) extended by every fourth assertion
        let parts = mck::par_map(cat.len(), |i| guarded("C21", || {
            let mut s = Sweep::new();
            let c4 = ctx(n, 4);
            let cc = coeffs(4);
            for j in i + 1..cat.len() {
                if overlap_by_definition(n, &cat[i], &cat[j]) {
                    continue;
                }
                for k in j + 1..cat.len() {
                    if overlap_by_definition(n, &cat[i], &cat[k]) || overlap_by_definition(n, &cat[j], &cat[k]) {
                        continue;
                    }
                    for l in 0..cat.len() {
                        check_list(n, &[cat[i], cat[j], cat[k], cat[l]], &[asserts[i].clone(), asserts[j].clone(), asserts[k].clone(), asserts[l].clone()], &c4, &cc, false, &mut s);
                        check_list(n, &[cat[k], cat[i], cat[j], cat[l]], &[asserts[k].clone(), asserts[i].clone(), asserts[j].clone(), asserts[l].clone()], &c4, &cc, false, &mut s);
                    }
                }
            }
            s
        }));
        out.push((format!("n={n} overlap-free sets of three of {} assertions x every fourth", cat.len()), merge_all(parts)));
    }
    out
}

fn replay(args: &Args, v: &Value) -> ! {
    let mut s = Sweep::new();
    match v["kind"].as_str() {
        Some("ctor") => {
            let d = Desc::from_json(&v["a"]);
            println!("constructor case {}", d.show());
            check_ctor(&d, &mut s);
        },
        Some("one") => {
            let d = Desc::from_json(&v["a"]);
            println!("single-assertion case {} over lengths 0..={}", d.show(), v["max_len"]);
            if let Some(a) = check_ctor(&d, &mut s) {
                check_one(&d, &a, v["max_len"].as_u64().unwrap_or(64) as usize, &mut s);
            }
        },
        Some("pair") => {
            let n = v["n"].as_u64().unwrap() as usize;
            let (da, db) = (Desc::from_json(&v["a"]), Desc::from_json(&v["b"]));
            println!("pair at n = {n}: {} (steps {:?}) vs {} (steps {:?})", da.show(), da.steps(n), db.show(), db.steps(n));
            let (a, b) = (da.build::<B>().unwrap(), db.build::<B>().unwrap());
            println!("overlaps_with = {}", a.overlaps_with(&b));
            check_pair(n, &da, &db, &a, &b, &da.step_mask(n), &db.step_mask(n), &mut s);
        },
        Some("list") => {
            let n = v["n"].as_u64().unwrap() as usize;
            let ds: Vec<Desc> = v["list"].as_array().unwrap().iter().map(Desc::from_json).collect();
            let asserts: Vec<Assertion<B>> = ds.iter().map(|d| d.build::<B>().unwrap()).collect();
            println!("list at n = {n}: {:?}", ds.iter().map(|d| d.show()).collect::<Vec<_>>());
            check_list(n, &ds, &asserts, &ctx(n, ds.len()), &coeffs(ds.len()), v["via_air"].as_bool().unwrap_or(false), &mut s);
        },
        _ => mck::report::machinery("unknown replay kind for C21"),
    }
    s.finish_replay(args, v)
}

pub fn run(args: &Args) {
    if let Some(v) = args.replay_value() {
        replay(args, &v);
    }
    let mut report = Report::new(args, "exploration");
    let ns: Vec<usize> = args.tier.pick(vec![8, 16, 32, 64], vec![8, 16, 32, 64, 128, 256]);
    let triple_ns: Vec<usize> = args.tier.pick(vec![8], vec![8, 16]);
    let mut pairs = 0u64;
    for &n in &ns {
        for (name, s) in sweep_n(n, triple_ns.contains(&n)) {
            if name.contains("pairs") {
                pairs += s.evals / 2;
            }
            s.into_report(&name, json!({}), &mut report);
        }
    }
    let d = Desc::sequence(0, 3, 4, 16);
    report.sample(json!({"n": 64, "assertion": d.show(), "steps_by_definition": d.steps(64), "fits_lengths": [64], "oracle": "get_num_steps = 16; apply visits these steps in order with values v0..v15"}));
    let (a, b) = (Desc::periodic(1, 1, 4), Desc::sequence(1, 5, 8, 8));
    report.sample(json!({"n": 64, "a": a.show(), "b": b.show(), "a_steps": head(&a.steps(64)), "b_steps": head(&b.steps(64)), "oracle": "share step 5 => overlaps_with = true both ways, BoundaryConstraints::new panics"}));
    let (a, b) = (Desc::periodic(0, 1, 8), Desc::single(0, 18));
    report.sample(json!({"n": 32, "a": a.show(), "b": b.show(), "oracle": "18 is not 1 mod 8 => no overlap, constraints are built"}));
    report.exhaustive = true;
    report.bounds = json!({"trace_lengths": ns, "columns": COLS, "strides": "every integer 0..=2n+1 at the constructors; every power of two 2..=n in the pair space", "first_steps": "all", "sequence_lengths": "every integer 0..=2n+1 at the constructors; n/stride in the pair space", "validate_lengths": "every integer 0..=4n+1", "ordered_pairs": pairs, "triples_at": triple_ns, "quadruples_at": [8]});
    report.rule = "one evaluation per (assertion, trace length) / ordered pair / list; non-trivial = lengths the assertion fits, pairs that share a cell, lists containing an overlapping pair, constructor calls that must be rejected".into();
    report.assumptions = vec![
        "overlaps_with is only judged on pairs that are both valid at the common trace length n (documented meaning: same column and step)".into(),
        "a one-value sequence is a single assertion (documented predicates is_single / is_sequence)".into(),
        "periodic/sequence constructors reject first_step == stride although the doc comment says 'greater than'; not judged, counted in the part notes".into(),
    ];
    report.finish(args)
}
