//! C24 — the public-coin seed (`Context::to_elements`) binds every listed context parameter:
//! closed families of contexts, all element vectors pairwise distinct.

use std::collections::{BTreeMap, BTreeSet};

use mck::{json, Args, Report, Value};
use winter_air::proof::Context;
use winter_air::{BatchingMethod, FieldExtension, ProofOptions, TraceInfo};
use winter_math::fields::{f128, f62, f64};
use winter_math::{StarkField, ToElements};
use winter_utils::{Deserializable, Serializable};

use crate::util::Sweep;

#[derive(Clone, Debug, PartialEq, Eq, PartialOrd, Ord)]
struct P {
    main: usize,
    aux: usize,
    rands: usize,
    log_len: u32,
    meta: Vec<u8>,
    /// 0 = f64, 1 = f62, 2 = f128
    modulus: u8,
    constraints: usize,
    ext: u8,
    blowup: usize,
    folding: usize,
    remainder: usize,
    grinding: u32,
    queries: usize,
}

const NAMES: [&str; 13] = ["main_width", "aux_width", "aux_rands", "trace_length", "metadata", "modulus", "constraint_count", "extension", "blowup", "folding", "remainder_degree", "grinding", "queries"];

impl P {
    fn base(modulus: u8) -> P {
        P { main: 3, aux: 2, rands: 3, log_len: 5, meta: vec![], modulus, constraints: 10, ext: 1, blowup: 8, folding: 4, remainder: 7, grinding: 5, queries: 20 }
    }
    fn diff(&self, o: &P) -> Vec<&'static str> {
        let f = [
            self.main != o.main,
            self.aux != o.aux,
            self.rands != o.rands,
            self.log_len != o.log_len,
            self.meta != o.meta,
            self.modulus != o.modulus,
            self.constraints != o.constraints,
            self.ext != o.ext,
            self.blowup != o.blowup,
            self.folding != o.folding,
            self.remainder != o.remainder,
            self.grinding != o.grinding,
            self.queries != o.queries,
        ];
        NAMES.iter().zip(f).filter(|(_, d)| *d).map(|(n, _)| *n).collect()
    }
    fn to_json(&self) -> Value {
        json!({"main": self.main, "aux": self.aux, "rands": self.rands, "log_len": self.log_len, "meta": mck::hex(&self.meta), "modulus": self.modulus, "constraints": self.constraints as u64, "ext": self.ext,
            "blowup": self.blowup, "folding": self.folding, "remainder": self.remainder, "grinding": self.grinding, "queries": self.queries})
    }
    fn from_json(v: &Value) -> P {
        let u = |k: &str| v[k].as_u64().unwrap_or_else(|| mck::report::machinery("bad context parameters in replay record"));
        P { main: u("main") as usize, aux: u("aux") as usize, rands: u("rands") as usize, log_len: u("log_len") as u32, meta: mck::unhex(v["meta"].as_str().unwrap_or("")), modulus: u("modulus") as u8, constraints: u("constraints") as usize, ext: u("ext") as u8,
            blowup: u("blowup") as usize, folding: u("folding") as usize, remainder: u("remainder") as usize, grinding: u("grinding") as u32, queries: u("queries") as usize }
    }
    /// through the public constructors; a panic means the constructors do not accept the value
    fn build(&self) -> Result<Context, mck::Panicked> {
        let p = self.clone();
        mck::catch(move || {
            let ext = match p.ext {
                1 => FieldExtension::None,
                2 => FieldExtension::Quadratic,
                3 => FieldExtension::Cubic,
                _ => panic!("no such field extension"),
            };
            if p.log_len >= 63 {
                panic!("trace length does not fit usize");
            }
            let ti = TraceInfo::new_multi_segment(p.main, p.aux, p.rands, 1usize << p.log_len, p.meta.clone());
            let opts = ProofOptions::new(p.queries, p.blowup, p.grinding, ext, p.folding, p.remainder, BatchingMethod::Linear, BatchingMethod::Linear);
            match p.modulus {
                0 => Context::new::<f64::BaseElement>(ti, opts, p.constraints),
                1 => Context::new::<f62::BaseElement>(ti, opts, p.constraints),
                _ => Context::new::<f128::BaseElement>(ti, opts, p.constraints),
            }
        })
    }
}

fn seed_key<E: StarkField>(c: &Context) -> Result<Vec<u8>, mck::Panicked> {
    mck::catch(|| {
        let v: Vec<E> = c.to_elements();
        let mut out = vec![];
        for e in &v {
            e.write_into(&mut out); // canonical little-endian integer
        }
        out
    })
}

/// metadata strings: everything over {0,1} up to `max_len`, plus patterns at the lengths around
/// one, two and three chunks of `chunk` bytes
fn metadata_family(max_len: usize, chunk: usize) -> Vec<Vec<u8>> {
    let mut out: Vec<Vec<u8>> = vec![];
    for len in 0..=max_len {
        for bits in 0u32..(1 << len) {
            out.push((0..len).map(|i| ((bits >> i) & 1) as u8).collect());
        }
    }
    for k in 1..=3usize {
        for len in [k * chunk - 1, k * chunk, k * chunk + 1] {
            let mut pats: Vec<Vec<u8>> = vec![vec![0; len], vec![1; len], vec![0xFF; len]];
            let mut a = vec![0u8; len];
            a[0] = 1;
            pats.push(a);
            let mut b = vec![0u8; len];
            b[len - 1] = 1;
            pats.push(b);
            let mut c = vec![0xFFu8; len];
            c[len - 1] = 0;
            pats.push(c);
            out.extend(pats);
        }
    }
    let set: BTreeSet<Vec<u8>> = out.into_iter().collect();
    set.into_iter().collect()
}

fn constraint_counts(thorough: bool) -> Vec<usize> {
    let mut v: Vec<usize> = (0..=if thorough { 70000 } else { 4100 }).collect();
    for k in 8..=32u32 {
        let p = 1usize << k;
        for d in 0..=2usize {
            v.push(p - d);
            v.push(p + d);
        }
    }
    v.extend([u32::MAX as usize - 1, u32::MAX as usize, u32::MAX as usize + 1, u32::MAX as usize + 2]);
    let s: BTreeSet<usize> = v.into_iter().collect();
    s.into_iter().collect()
}

/// every candidate (accepted or not); the constructors decide
fn candidates(own_modulus: u8, moduli: &[u8], chunk: usize, thorough: bool) -> Vec<(&'static str, P)> {
    let base = P::base(own_modulus);
    let mut v: Vec<(&'static str, P)> = vec![("base", base.clone())];
    for main in 0..=257usize {
        v.push(("main_width", P { main, ..base.clone() }));
        v.push(("main_width (no aux segment)", P { main, aux: 0, rands: 0, ..base.clone() }));
    }
    for aux in 0..=257usize {
        v.push(("aux_width", P { aux, rands: if aux == 0 { 0 } else { base.rands }, ..base.clone() }));
    }
    for rands in 0..=257usize {
        v.push(("aux_rands", P { rands, ..base.clone() }));
    }
    for log_len in 0..=40u32 {
        v.push(("trace_length", P { log_len, ..base.clone() }));
        v.push(("trace_length (blowup 2)", P { log_len, blowup: 2, ..base.clone() }));
    }
    for meta in metadata_family(if thorough { 16 } else { 10 }, chunk) {
        v.push(("metadata", P { meta, ..base.clone() }));
    }
    for &m in moduli {
        v.push(("modulus", P { modulus: m, ..base.clone() }));
        v.push(("modulus", P { modulus: m, meta: vec![1, 2, 3], ..base.clone() }));
    }
    for c in constraint_counts(thorough) {
        v.push(("constraint_count", P { constraints: c, ..base.clone() }));
    }
    for ext in 0..=4u8 {
        v.push(("extension", P { ext, ..base.clone() }));
    }
    for blowup in 0..=300usize {
        v.push(("blowup", P { blowup, ..base.clone() }));
    }
    for folding in 0..=40usize {
        v.push(("folding", P { folding, ..base.clone() }));
    }
    for remainder in 0..=300usize {
        v.push(("remainder_degree", P { remainder, ..base.clone() }));
    }
    for grinding in 0..=40u32 {
        v.push(("grinding", P { grinding, ..base.clone() }));
    }
    for queries in 0..=300usize {
        v.push(("queries", P { queries, ..base.clone() }));
    }
    // parameters packed into the same element, and neighbours: full / boundary products
    let b8 = [1usize, 2, 3, 127, 128, 129, 200, 251, 252, 253, 254, 255];
    for &main in &b8 {
        for aux in [0usize, 1, 2, 3, 127, 128, 129, 200, 252, 253, 254] {
            for rands in [0usize, 1, 2, 127, 128, 254, 255] {
                if aux > 0 || rands == 0 {
                    v.push(("main x aux x rands", P { main, aux, rands, ..base.clone() }));
                }
            }
        }
    }
    for ext in 1..=3u8 {
        for folding in [2usize, 4, 8, 16] {
            for remainder in [0usize, 1, 3, 7, 15, 31, 63, 127, 255] {
                for blowup in [2usize, 4, 8, 16, 32, 64, 128] {
                    v.push(("extension x folding x remainder x blowup", P { ext, folding, remainder, blowup, ..base.clone() }));
                }
            }
        }
    }
    for grinding in 0..=32u32 {
        for queries in 1..=255usize {
            v.push(("grinding x queries", P { grinding, queries, ..base.clone() }));
        }
    }
    for log_len in 3..=28u32 {
        for c in [1usize, 2, 8, 32, 256, 1 << 16, 1 << 20, 1 << 28] {
            v.push(("trace_length x constraint_count", P { log_len, constraints: c, ..base.clone() }));
        }
    }
    v
}

fn zero_padded_equal(a: &[u8], b: &[u8], chunk: usize) -> bool {
    let chunks = |m: &[u8]| if m.is_empty() { 0 } else { (m.len() + chunk - 1) / chunk };
    if chunks(a) != chunks(b) {
        return false;
    }
    let n = a.len().max(b.len());
    (0..n).all(|i| a.get(i).copied().unwrap_or(0) == b.get(i).copied().unwrap_or(0))
}

fn judge_pair(fname: &str, chunk: usize, a: &P, b: &P, s: &mut Sweep) {
    let d = a.diff(b);
    let rp = json!({"kind": "pair", "field": fname, "a": a.to_json(), "b": b.to_json()});
    if d == ["metadata"] && zero_padded_equal(&a.meta, &b.meta, chunk) {
        s.fail(
            "collision:TraceInfo::to_elements:metadata-trailing-zeros",
            format!("{fname} meta {} vs {}", mck::hex(&a.meta), mck::hex(&b.meta)),
            format!("contexts that differ only in trace metadata — {:?} ({} bytes) vs {:?} ({} bytes) — have the same seed elements: the last {chunk}-byte chunk is zero-padded, so trailing zero bytes are not bound", a.meta, a.meta.len(), b.meta, b.meta.len()),
            rp,
        );
    } else {
        s.fail(
            format!("collision:Context::to_elements:{}", d.join("+")),
            format!("{fname} {} vs {}", a.to_json(), b.to_json()),
            format!("two contexts that differ in {d:?} have the same seed element vector; a = {}, b = {}", a.to_json(), b.to_json()),
            rp,
        );
    }
}

fn field_sweep<E: StarkField>(fname: &'static str, own_modulus: u8, moduli: &[u8], thorough: bool, report: &mut Report) {
    let chunk = E::ELEMENT_BYTES - 1;
    let cands = candidates(own_modulus, moduli, chunk, thorough);
    // constructor acceptance (measured), then distinct parameter tuples
    let chunks = 64;
    let built: Vec<Vec<(usize, Option<Vec<u8>>, Option<String>)>> = mck::par_map(chunks, |c| {
        let mut out = vec![];
        for (i, (_, p)) in cands.iter().enumerate() {
            if i % chunks != c {
                continue;
            }
            match p.build() {
                Err(_) => out.push((i, None, None)),
                Ok(ctx) => match seed_key::<E>(&ctx) {
                    Ok(k) => out.push((i, Some(k), None)),
                    Err(pn) => out.push((i, None, Some(format!("{} ({})", pn.location, pn.message)))),
                },
            }
        }
        out
    });
    let mut s = Sweep::new();
    let mut seen: BTreeSet<P> = BTreeSet::new();
    let mut by_key: BTreeMap<Vec<u8>, Vec<usize>> = BTreeMap::new();
    let mut flat: Vec<(usize, Option<Vec<u8>>, Option<String>)> = built.into_iter().flatten().collect();
    flat.sort_by_key(|x| x.0);
    for (i, key, panic) in flat {
        let (fam, p) = &cands[i];
        if let Some(msg) = panic {
            s.fail(format!("panic:Context::to_elements:{fname}"), format!("{fname} {}", p.to_json()), format!("a context accepted by the constructors panicked in to_elements: {msg}"), json!({"kind": "pair", "field": fname, "a": p.to_json(), "b": p.to_json()}));
            continue;
        }
        match key {
            None => s.count(&format!("rejected by constructors: {fam}")),
            Some(k) => {
                s.count(&format!("accepted: {fam}"));
                if seen.insert(p.clone()) {
                    s.evals += 1;
                    s.nontrivial += 1;
                    by_key.entry(k).or_default().push(i);
                }
            },
        }
    }
    let contexts = seen.len() as u64;
    let mut pairs: Vec<(usize, usize)> = vec![];
    for (_, members) in by_key.iter() {
        for x in 0..members.len() {
            for y in 0..x {
                pairs.push((members[y], members[x]));
            }
        }
    }
    // simplest first, so that the recorded examples are the minimal ones
    pairs.sort_by_key(|(a, b)| (cands[*a].1.meta.len() + cands[*b].1.meta.len(), cands[*a].1.meta.iter().chain(cands[*b].1.meta.iter()).map(|x| *x as usize).sum::<usize>() == 0, *a, *b));
    let colliding_pairs = pairs.len() as u64;
    for (a, b) in pairs {
        judge_pair(fname, chunk, &cands[a].1, &cands[b].1, &mut s);
    }
    let vectors = by_key.len() as u64;
    s.into_report(
        &format!("{fname}: all context variants, seed vectors pairwise distinct"),
        json!({"contexts": contexts, "distinct_seed_vectors": vectors, "pairs_compared": contexts * (contexts.saturating_sub(1)) / 2, "colliding_pairs": colliding_pairs, "metadata_chunk_bytes": chunk}),
        report,
    );
}

/// Contexts that only `Context::read_from` produces (the constructor documents them as invalid):
/// recorded as observations, never as violations.
fn outside_constructor_range<E: StarkField>(fname: &str) -> Value {
    let base = P::base(if fname == "f62" { 1 } else if fname == "f128" { 2 } else { 0 }).build().unwrap();
    let mut bytes = base.to_bytes();
    let mut obs = vec![];
    // constraint count: the trailing vint64 (10 => one byte)
    let tail = (10usize).to_bytes();
    if bytes.ends_with(&tail) {
        let stem = bytes[..bytes.len() - tail.len()].to_vec();
        for c in [(1usize << 32) + 10, (1usize << 33) + 10] {
            let mut b = stem.clone();
            b.extend(c.to_bytes());
            if let Ok(Ok(ctx)) = mck::catch(|| Context::read_from_bytes(&b)) {
                let same = seed_key::<E>(&ctx).ok() == seed_key::<E>(&base).ok();
                obs.push(json!({"deserialised_constraint_count": c as u64, "accepted_by_read_from": true, "same_seed_as_count_10": same}));
            } else {
                obs.push(json!({"deserialised_constraint_count": c as u64, "accepted_by_read_from": false}));
            }
        }
    }
    // trace length exponent is byte 3
    for e in [32u8, 33, 40] {
        bytes[3] = e;
        if let Ok(Ok(ctx)) = mck::catch(|| Context::read_from_bytes(&bytes)) {
            let k = seed_key::<E>(&ctx).ok();
            obs.push(json!({"deserialised_log2_trace_length": e, "accepted_by_read_from": true, "seed": k.map(|k| mck::hex(&k[..k.len().min(2 * E::ELEMENT_BYTES)]))}));
        } else {
            obs.push(json!({"deserialised_log2_trace_length": e, "accepted_by_read_from": false}));
        }
    }
    json!(obs)
}

fn replay(args: &Args, v: &Value) -> ! {
    let mut s = Sweep::new();
    let (a, b) = (P::from_json(&v["a"]), P::from_json(&v["b"]));
    let field = v["field"].as_str().unwrap_or("f64");
    fn go<E: StarkField>(fname: &str, a: &P, b: &P, s: &mut Sweep) {
        s.evals += 1;
        let (ca, cb) = (a.build(), b.build());
        match (ca, cb) {
            (Ok(ca), Ok(cb)) => {
                let (ka, kb) = (seed_key::<E>(&ca), seed_key::<E>(&cb));
                println!("a: {}\n   seed {}", a.to_json(), ka.as_ref().map(|k| mck::hex(k)).unwrap_or("panic".into()));
                println!("b: {}\n   seed {}", b.to_json(), kb.as_ref().map(|k| mck::hex(k)).unwrap_or("panic".into()));
                match (ka, kb) {
                    (Ok(ka), Ok(kb)) => {
                        if ka == kb && a != b {
                            judge_pair(fname, E::ELEMENT_BYTES - 1, a, b, s);
                        }
                    },
                    _ => s.fail(format!("panic:Context::to_elements:{fname}"), "replay", "to_elements panicked", json!({"kind": "pair", "field": fname, "a": a.to_json(), "b": b.to_json()})),
                }
            },
            _ => println!("one of the contexts is not accepted by the constructors"),
        }
    }
    match field {
        "f64" => go::<f64::BaseElement>("f64", &a, &b, &mut s),
        "f62" => go::<f62::BaseElement>("f62", &a, &b, &mut s),
        "f128" => go::<f128::BaseElement>("f128", &a, &b, &mut s),
        _ => mck::report::machinery("unknown field in replay record"),
    }
    s.finish_replay(args, v)
}

pub fn run(args: &Args) {
    if let Some(v) = args.replay_value() {
        replay(args, &v);
    }
    let mut report = Report::new(args, "exploration");
    let thorough = args.tier == mck::Tier::Thorough;
    // a 16-byte modulus does not fit the two half-modulus elements of a 64-bit field
    // (`from_bytes_with_padding` precondition), so f128's modulus is only paired with f128 elements
    field_sweep::<f64::BaseElement>("f64", 0, &[0, 1], thorough, &mut report);
    field_sweep::<f62::BaseElement>("f62", 1, &[0, 1], thorough, &mut report);
    field_sweep::<f128::BaseElement>("f128", 2, &[0, 1, 2], thorough, &mut report);
    report.extra.insert(
        "observations_outside_constructor_range".into(),
        json!({"note": "contexts only Context::read_from produces; Context::new documents them as invalid, so they are not part of the property's quantifier", "f64": outside_constructor_range::<f64::BaseElement>("f64"), "f128": outside_constructor_range::<f128::BaseElement>("f128")}),
    );
    report.sample(json!({"field": "f64", "family": "metadata", "members": "all 2047 strings over {0,1} of length <= 10 plus 0x00/0x01/0xFF patterns of length 6,7,8,13,14,15,20,21,22", "oracle": "pairwise distinct seed vectors"}));
    report.sample(json!({"field": "f128", "family": "modulus", "members": ["f64 modulus", "f62 modulus", "f128 modulus"], "oracle": "pairwise distinct"}));
    report.sample(json!({"field": "f64", "family": "grinding x queries", "members": "33 x 255", "oracle": "pairwise distinct (also against every other family)"}));
    report.exhaustive = true;
    report.bounds = json!({"fields": ["f64", "f62", "f128"], "main_width": "0..=257 offered, with and without aux segment", "aux_width": "0..=257 offered", "aux_rands": "0..=257 offered", "trace_length": "2^0..2^40 offered (blowup 8 and 2)", "metadata": format!("all strings over {{0,1}} of length <= {} + patterns around 1, 2, 3 chunks", if thorough { 16 } else { 10 }),
        "constraint_count": format!("0..={} and +-2 around 2^8..2^32", if thorough { 70000 } else { 4100 }), "extension": "all 3", "blowup": "0..=300 offered", "folding": "0..=40 offered", "remainder_degree": "0..=300 offered", "grinding": "0..=40 offered", "queries": "0..=300 offered",
        "products": ["main x aux x rands (boundary values)", "extension x folding x remainder x blowup (full)", "grinding x queries (full)", "trace_length x constraint_count"], "comparison": "all pairs of all accepted contexts of a field (not only within one family)"});
    report.rule = "one evaluation per distinct accepted context (its seed vector); every pair of them is compared through a map keyed by the canonical bytes of the vector; all are non-trivial".into();
    report.assumptions = vec![
        "values the constructors reject (counted per family in the part notes) are outside the quantifier".into(),
        "batching methods and partition options are not in the property's list and are not demanded to be bound".into(),
        "the f128 modulus is only tested with f128 seed elements".into(),
    ];
    report.finish(args)
}
