//! h_air — harness for winter-air (and the option check of winter-verifier): C21 (assertions),
//! C22 (boundary constraints), C23 (transition divisors, degrees, periodic columns), C24 (seed
//! binds the context), C25 (security estimates).

fn main() {
    mck::install_panic_hook();
    let args = mck::Args::parse();
    match args.prop.as_str() {
        p => mck::report::machinery(&format!("h_air does not serve property {p:?}")),
    }
}
