//! h_air — harness for winter-air (and the option check of winter-verifier): C21 (assertions),
//! C22 (boundary constraints), C23 (transition divisors, degrees, periodic columns), C24 (seed
//! binds the context), C25 (security estimates).

mod c21;
mod c22;
mod c23;
mod c24;
mod c25;
mod util;

fn main() {
    mck::install_panic_hook();
    let args = mck::Args::parse();
    match args.prop.as_str() {
        "C21" => c21::run(&args),
        "C22" => c22::run(&args),
        "C23" => c23::run(&args),
        "C24" => c24::run(&args),
        "C25" => c25::run(&args),
        p => mck::report::machinery(&format!("h_air does not serve property {p:?}")),
    }
}
