//! C22 — boundary constraints vanish exactly on asserted cells; divisor = product over the
//! asserted points; coefficient assignment independent of the order of the assertion list.

use mck::{json, Args, Report, Value};
use refm::poly as r2;
use winter_air::{Air, AirContext, Assertion, BoundaryConstraintGroup, BoundaryConstraints, ConstraintDivisor, TraceInfo, TransitionConstraintDegree};
use winter_math::fields::{f128, f62, f64, QuadExtension};
use winter_math::FieldElement;

use crate::util::{catalogue, guarded, label, masks_meet, Mask, merge_all, options, tiny_air, trace_domain, Base, Desc, Kind, Sweep, W};

fn ctx<B: Base>(cols: usize, n: usize, num_assertions: usize) -> AirContext<B> {
    AirContext::new(TraceInfo::new(cols, n), vec![TransitionConstraintDegree::new(1)], num_assertions, options(2))
}

fn prod_over<E: FieldElement>(x: E, roots: impl Iterator<Item = E>) -> E {
    let mut p = E::ONE;
    for r in roots {
        p *= x - r;
    }
    p
}

// ONE ASSERTION: divisor on every trace-domain point, constraint at every asserted step
// ------------------------------------------------------------------------------------------------

fn check_assertion<B: Base, E: FieldElement<BaseField = B>>(fname: &str, n: usize, d: &Desc, dom: &[B], s: &mut Sweep) {
    let rp = json!({"kind": "assertion", "field": fname, "n": n, "a": d.to_json()});
    let key = format!("{fname} n={n} {}", d.show());
    let a: Assertion<B> = match d.build::<B>() {
        Ok(a) => a,
        Err(p) => return s.fail(format!("panic:Assertion::{}", d.kind.name()), key, format!("constructor panicked: {}", p.message), rp),
    };
    let steps = d.steps(n);
    let on: Vec<bool> = (0..n).map(|i| steps.contains(&i)).collect();
    if d.first != 0 {
        s.count("first_step != 0");
    }
    if steps.len() >= 64 {
        s.count("64 or more asserted steps");
    }
    if d.effective() == Kind::Sequence && d.first != 0 {
        s.count("sequence with first_step != 0 (x-offset path)");
    }

    // --- divisor -------------------------------------------------------------------------------
    let div = match mck::catch(|| ConstraintDivisor::<B>::from_assertion(&a, n)) {
        Ok(x) => x,
        Err(p) => return s.fail(format!("panic:ConstraintDivisor::from_assertion:{}", p.location), key, format!("from_assertion panicked at {} ({})", p.location, p.message), rp),
    };
    s.evals += 1;
    if div.degree() != steps.len() {
        s.fail("wrong:ConstraintDivisor::from_assertion:degree", key.clone(), format!("divisor {div} has degree {}, {} steps are asserted", div.degree(), steps.len()), rp.clone());
    }
    if !div.exemptions().is_empty() {
        s.fail("wrong:ConstraintDivisor::from_assertion:exemptions", key.clone(), format!("an assertion divisor has {} exemption points", div.exemptions().len()), rp.clone());
        return;
    }
    // no exemptions => evaluate_at is a plain product, no division hazard on the domain
    let mut bad = vec![];
    for i in 0..n {
        s.evals += 1;
        if on[i] {
            s.nontrivial += 1;
        }
        let z = div.evaluate_at::<E>(E::from(dom[i]));
        if (z == E::ZERO) != on[i] {
            bad.push(i);
        }
    }
    if !bad.is_empty() {
        s.fail("wrong:ConstraintDivisor::from_assertion:vanishing-set", key.clone(), format!("divisor {div}: asserted steps {:?}; evaluate_at on the trace domain disagrees at steps {:?} (vanishes where nothing is asserted, or not where something is)", crate::c22::head(&steps), crate::c22::head(&bad)), rp.clone());
    }
    // as a polynomial: equal to the product over the asserted points at two off-domain points
    for x in [E::from(B::GENERATOR), E::from(label::<B>(77, n as u64))] {
        s.evals += 1;
        let expect = prod_over(x, steps.iter().map(|st| E::from(dom[*st])));
        if div.evaluate_at::<E>(x) != expect {
            s.fail("wrong:ConstraintDivisor::from_assertion:off-domain-value", key.clone(), format!("divisor {div} is not the product of (x - g^step) over the asserted steps {:?} at an off-domain point", head(&steps)), rp.clone());
        }
    }

    // --- constraint, through Air::get_boundary_constraints ---------------------------------------
    let cc = vec![label::<E>(5, 1)];
    let groups = match mck::catch(|| {
        let air = tiny_air::<B>(d.col + 1, n, vec![a.clone()], vec![]);
        air.get_boundary_constraints::<E>(None, &cc).main_constraints().to_vec()
    }) {
        Ok(g) => g,
        Err(p) => return s.fail(format!("panic:Air::get_boundary_constraints:{}", p.location), key, format!("panicked at {} ({}) for a single valid assertion", p.location, p.message), rp),
    };
    s.evals += 1;
    if groups.len() != 1 || groups[0].constraints().len() != 1 {
        return s.fail("wrong:BoundaryConstraints:grouping", key, format!("one assertion became {} groups", groups.len()), rp);
    }
    let g = &groups[0];
    let c = &g.constraints()[0];
    if g.divisor() != &div {
        s.fail("wrong:BoundaryConstraintGroup::divisor", key.clone(), format!("group divisor {} differs from ConstraintDivisor::from_assertion {div}", g.divisor()), rp.clone());
    }
    if c.column() != d.col || *c.cc() != cc[0] {
        s.fail("wrong:BoundaryConstraint:column-or-coefficient", key.clone(), format!("constraint reports column {} (asserted {})", c.column(), d.col), rp.clone());
    }
    if c.poly().len() != d.len {
        s.fail("wrong:BoundaryConstraint::poly:length", key.clone(), format!("value polynomial has {} coefficients for {} values", c.poly().len(), d.len), rp.clone());
    }
    for (k, st) in steps.iter().enumerate() {
        s.evals += 2;
        s.nontrivial += 2;
        let x = E::from(dom[*st]);
        let v = E::from(d.value_at_kth::<B>(k));
        let at_value = c.evaluate_at(x, v);
        let at_other = c.evaluate_at(x, v + E::ONE);
        if at_value != E::ZERO {
            s.fail(format!("wrong:BoundaryConstraint::evaluate_at:nonzero-on-asserted-value:{}", d.effective().name()), key.clone(), format!("step {st} (k = {k}): the trace holds the asserted value but the constraint evaluates to a non-zero value; poly_offset {:?}", c.poly_offset().0), rp.clone());
            break;
        }
        if at_other == E::ZERO {
            s.fail(format!("wrong:BoundaryConstraint::evaluate_at:zero-on-wrong-value:{}", d.effective().name()), key.clone(), format!("step {st}: the trace holds value+1 but the constraint evaluates to zero"), rp.clone());
            break;
        }
    }
    // the value polynomial is the minimal interpolant (R2 Lagrange) — off-domain comparison
    if d.effective() == Kind::Sequence && d.len <= 32 {
        s.evals += 1;
        s.count("value polynomial compared with Lagrange interpolant");
        let xs: Vec<W<E>> = steps.iter().map(|st| W(E::from(dom[*st]))).collect();
        let ys: Vec<W<E>> = (0..d.len).map(|k| W(E::from(d.value::<B>(k)))).collect();
        let lag = r2::lagrange(&xs, &ys, &W(E::ZERO));
        let x = E::from(label::<B>(78, n as u64));
        let expect = r2::eval(&lag, &W(x)).0;
        let got = E::ZERO - c.evaluate_at(x, E::ZERO);
        if got != expect {
            s.fail("wrong:BoundaryConstraint::poly:not-the-interpolant", key.clone(), format!("value polynomial (with x-offset) differs from the Lagrange interpolant through the asserted cells at an off-domain point"), rp.clone());
        }
    }
}

pub fn head(v: &[usize]) -> Vec<usize> {
    v.iter().cloned().take(12).collect()
}

// PERMUTATIONS
// ------------------------------------------------------------------------------------------------

fn permutations(k: usize) -> Vec<Vec<usize>> {
    fn rec(cur: &mut Vec<usize>, used: &mut Vec<bool>, k: usize, out: &mut Vec<Vec<usize>>) {
        if cur.len() == k {
            out.push(cur.clone());
            return;
        }
        for i in 0..k {
            if !used[i] {
                used[i] = true;
                cur.push(i);
                rec(cur, used, k, out);
                cur.pop();
                used[i] = false;
            }
        }
    }
    let mut out = vec![];
    rec(&mut vec![], &mut vec![false; k], k, &mut out);
    out
}

fn same_groups<B: Base>(x: &[BoundaryConstraintGroup<B, B>], y: &[BoundaryConstraintGroup<B, B>]) -> bool {
    x.len() == y.len() && x.iter().zip(y).all(|(p, q)| p.divisor() == q.divisor() && p.constraints() == q.constraints())
}

fn describe<B: Base>(x: &[BoundaryConstraintGroup<B, B>]) -> String {
    x.iter().map(|g| format!("{{{}: {}}}", g.divisor(), g.constraints().iter().map(|c| format!("col {} cc {} deg<{}", c.column(), c.cc(), c.poly().len())).collect::<Vec<_>>().join(", "))).collect::<Vec<_>>().join(" ")
}

/// `list` must be pairwise non-overlapping at n. Every permutation must give the same groups and
/// the same coefficient assignment; every assertion must be found exactly once.
fn check_perms<B: Base>(fname: &str, n: usize, cols: usize, list: &[Desc], asserts: &[&Assertion<B>], c: &AirContext<B>, dom: &[B], via_air: bool, s: &mut Sweep) {
    let k = list.len();
    let cc: Vec<B> = (0..k).map(|i| label::<B>(900, i as u64)).collect();
    let rp = json!({"kind": "perm", "field": fname, "n": n, "cols": cols, "list": list.iter().map(|d| d.to_json()).collect::<Vec<_>>(), "via_air": via_air});
    let key = format!("{fname} n={n} [{}]", list.iter().map(|d| d.show()).collect::<Vec<_>>().join(", "));
    let mut reference: Option<Vec<BoundaryConstraintGroup<B, B>>> = None;
    for perm in permutations(k) {
        s.evals += 1;
        if perm.iter().enumerate().any(|(i, p)| i != *p) {
            s.nontrivial += 1;
        }
        let l: Vec<Assertion<B>> = perm.iter().map(|i| asserts[*i].clone()).collect();
        let r = if via_air {
            mck::catch(|| tiny_air::<B>(cols, n, l, vec![]).get_boundary_constraints::<B>(None, &cc).main_constraints().to_vec())
        } else {
            mck::catch(|| BoundaryConstraints::<B>::new(c, l, vec![], &cc).main_constraints().to_vec())
        };
        let groups = match r {
            Ok(g) => g,
            Err(p) => {
                s.fail(format!("panic:BoundaryConstraints::new:{}", p.location), key.clone(), format!("order {perm:?} of a pairwise disjoint list panicked at {}: {}", p.location, p.message), rp.clone());
                return;
            },
        };
        match &reference {
            None => {
                // structure of the reference result against the list
                let total: usize = groups.iter().map(|g| g.constraints().len()).sum();
                if total != k {
                    s.fail("wrong:BoundaryConstraints::new:constraint-count", key.clone(), format!("{k} assertions became {total} constraints"), rp.clone());
                    return;
                }
                if groups.len() > 1 {
                    s.count("lists with several groups");
                }
                if groups.iter().any(|g| g.constraints().len() > 1) {
                    s.count("lists with a multi-constraint group");
                }
                let used_cc: Vec<B> = groups.iter().flat_map(|g| g.constraints().iter().map(|c| *c.cc())).collect();
                if cc.iter().any(|x| used_cc.iter().filter(|y| *y == x).count() != 1) {
                    s.fail("wrong:BoundaryConstraints::new:coefficients-not-a-bijection", key.clone(), "the composition coefficients attached to the constraints are not the provided ones, each once".to_string(), rp.clone());
                }
                for d in list {
                    let a = d.build::<B>().unwrap();
                    let div = ConstraintDivisor::<B>::from_assertion(&a, n);
                    let found: Vec<_> = groups.iter().filter(|g| g.divisor() == &div).flat_map(|g| g.constraints().iter().filter(|c| c.column() == d.col)).collect();
                    if found.len() != 1 {
                        s.fail("wrong:BoundaryConstraints::new:assertion-not-found-once", key.clone(), format!("{} is represented by {} constraints in the group with its divisor; groups: {}", d.show(), found.len(), describe(&groups)), rp.clone());
                        continue;
                    }
                    for (kk, st) in d.steps(n).iter().enumerate() {
                        if found[0].evaluate_at(dom[*st], d.value_at_kth::<B>(kk)) != B::ZERO {
                            s.fail("wrong:BoundaryConstraints::new:constraint-does-not-match-assertion", key.clone(), format!("the constraint filed under {}'s column and divisor does not vanish on its asserted value at step {st}", d.show()), rp.clone());
                            break;
                        }
                    }
                }
                reference = Some(groups);
            },
            Some(r0) => {
                if !same_groups(r0, &groups) {
                    s.fail("order_dependent:BoundaryConstraints::new", key.clone(), format!("list order {perm:?} gives groups [{}] but the original order gives [{}]", describe(&groups), describe(r0)), rp.clone());
                    return;
                }
            },
        }
    }
}

fn disjoint(a: &Desc, b: &Desc, ma: &Mask, mb: &Mask) -> bool {
    a.col != b.col || !masks_meet(ma, mb)
}

/// all pairwise-disjoint subsets of size 2..=max_k of the catalogue (indices increasing), the
/// first index sharded
fn perm_sweep<B: Base>(fname: &'static str, n: usize, cols: usize, cat: &[Desc], max_k: usize, via_air_pairs: bool) -> Sweep {
    let asserts: Vec<Assertion<B>> = cat.iter().map(|d| d.build::<B>().unwrap()).collect();
    let masks: Vec<Mask> = cat.iter().map(|d| d.step_mask(n)).collect();
    let dom = trace_domain::<B>(n);
    let m = cat.len();
    let parts = mck::par_map(m, |i| guarded("C22", || {
        let mut s = Sweep::new();
        let ctxs: Vec<AirContext<B>> = (0..=max_k).map(|k| ctx::<B>(cols, n, k.max(1))).collect();
        let ok = |x: usize, y: usize| disjoint(&cat[x], &cat[y], &masks[x], &masks[y]);
        for j in i + 1..m {
            if !ok(i, j) {
                continue;
            }
            check_perms(fname, n, cols, &[cat[i], cat[j]], &[&asserts[i], &asserts[j]], &ctxs[2], &dom, via_air_pairs, &mut s);
            if max_k < 3 {
                continue;
            }
            for k in j + 1..m {
                if !ok(i, k) || !ok(j, k) {
                    continue;
                }
                check_perms(fname, n, cols, &[cat[i], cat[j], cat[k]], &[&asserts[i], &asserts[j], &asserts[k]], &ctxs[3], &dom, false, &mut s);
                if max_k < 4 {
                    continue;
                }
                for l in k + 1..m {
                    if !ok(i, l) || !ok(j, l) || !ok(k, l) {
                        continue;
                    }
                    check_perms(fname, n, cols, &[cat[i], cat[j], cat[k], cat[l]], &[&asserts[i], &asserts[j], &asserts[k], &asserts[l]], &ctxs[4], &dom, false, &mut s);
                }
            }
        }
        s
    }));
    merge_all(parts)
}

/// a catalogue thinned for the 4-subsets at larger n: two columns, first steps {0, 1, last}
fn thin_catalogue(n: usize) -> Vec<Desc> {
    catalogue(n, 2).into_iter().filter(|d| {
        let last = if d.stride == 0 { n - 1 } else { d.stride - 1 };
        d.first == 0 || d.first == 1 || d.first == last
    }).collect()
}

// SWEEPS
// ------------------------------------------------------------------------------------------------

fn assertion_sweep<B: Base, E: FieldElement<BaseField = B>>(fname: &'static str, n: usize) -> Sweep {
    let cat = catalogue(n, 1);
    let dom = trace_domain::<B>(n);
    let chunks = 64.min(cat.len());
    let parts = mck::par_map(chunks, |c| guarded("C22", || {
        let mut s = Sweep::new();
        for (i, d) in cat.iter().enumerate() {
            if i % chunks == c {
                check_assertion::<B, E>(fname, n, d, &dom, &mut s);
            }
        }
        s
    }));
    merge_all(parts)
}

fn field_run<B: Base>(fname: &'static str, ns: &[usize], perm_plan: &[(usize, usize, bool)], report: &mut Report) {
    for &n in ns {
        assertion_sweep::<B, B>(fname, n).into_report(&format!("{fname} n={n}: every assertion, divisor on all {n} points, constraint on all asserted steps"), json!({}), report);
    }
    for &(n, max_k, thin) in perm_plan {
        let cat = if thin { thin_catalogue(n) } else { catalogue(n, 2) };
        perm_sweep::<B>(fname, n, 2, &cat, max_k, n == 8).into_report(&format!("{fname} n={n}: all permutations of all pairwise-disjoint lists of 2..={max_k} of {} assertions{}", cat.len(), if thin { " (thinned first steps)" } else { "" }), json!({}), report);
    }
}

fn replay(args: &Args, v: &Value) -> ! {
    let mut s = Sweep::new();
    let n = v["n"].as_u64().unwrap() as usize;
    let field = v["field"].as_str().unwrap_or("f64").to_string();
    match v["kind"].as_str() {
        Some("assertion") => {
            let d = Desc::from_json(&v["a"]);
            println!("{field} n={n} {}: asserted steps {:?}", d.show(), d.steps(n));
            match field.as_str() {
                "f64" => check_assertion::<f64::BaseElement, f64::BaseElement>("f64", n, &d, &trace_domain(n), &mut s),
                "f62" => check_assertion::<f62::BaseElement, f62::BaseElement>("f62", n, &d, &trace_domain(n), &mut s),
                "f128" => check_assertion::<f128::BaseElement, f128::BaseElement>("f128", n, &d, &trace_domain(n), &mut s),
                "f64^2" => check_assertion::<f64::BaseElement, QuadExtension<f64::BaseElement>>("f64^2", n, &d, &trace_domain(n), &mut s),
                _ => mck::report::machinery("unknown field in replay record"),
            }
        },
        Some("perm") => {
            let list: Vec<Desc> = v["list"].as_array().unwrap().iter().map(Desc::from_json).collect();
            let cols = v["cols"].as_u64().unwrap_or(2) as usize;
            let via = v["via_air"].as_bool().unwrap_or(false);
            println!("{field} n={n} list {:?}", list.iter().map(|d| d.show()).collect::<Vec<_>>());
            fn go<B: Base>(f: &str, n: usize, cols: usize, list: &[Desc], via: bool, s: &mut Sweep) {
                let asserts: Vec<Assertion<B>> = list.iter().map(|d| d.build::<B>().unwrap()).collect();
                let refs: Vec<&Assertion<B>> = asserts.iter().collect();
                check_perms::<B>(f, n, cols, list, &refs, &ctx::<B>(cols, n, list.len()), &trace_domain(n), via, s);
            }
            match field.as_str() {
                "f64" => go::<f64::BaseElement>("f64", n, cols, &list, via, &mut s),
                "f62" => go::<f62::BaseElement>("f62", n, cols, &list, via, &mut s),
                "f128" => go::<f128::BaseElement>("f128", n, cols, &list, via, &mut s),
                _ => mck::report::machinery("unknown field in replay record"),
            }
        },
        _ => mck::report::machinery("unknown replay kind for C22"),
    }
    s.finish_replay(args, v)
}

pub fn run(args: &Args) {
    if let Some(v) = args.replay_value() {
        replay(args, &v);
    }
    let mut report = Report::new(args, "exploration");
    let thorough = args.tier == mck::Tier::Thorough;
    let ns: Vec<usize> = if thorough { vec![8, 16, 32, 64, 128, 256] } else { vec![8, 16, 32, 64, 128] };
    // (n, largest list, thinned catalogue)
    let plan64: Vec<(usize, usize, bool)> = if thorough {
        vec![(8, 4, false), (16, 3, false), (16, 4, true), (32, 3, false), (32, 4, true), (64, 2, false), (64, 3, true), (128, 2, true)]
    } else {
        vec![(8, 4, false), (16, 3, false), (16, 4, true), (32, 2, false), (32, 3, true), (64, 2, true)]
    };
    let plan_other: Vec<(usize, usize, bool)> = if thorough {
        vec![(8, 4, false), (16, 3, false), (16, 4, true), (32, 2, false), (32, 3, true), (64, 2, true)]
    } else {
        vec![(8, 3, false), (8, 4, true), (16, 2, false), (16, 3, true), (32, 2, true)]
    };
    field_run::<f64::BaseElement>("f64", &ns, &plan64, &mut report);
    field_run::<f62::BaseElement>("f62", &ns, &plan_other, &mut report);
    field_run::<f128::BaseElement>("f128", &ns, &plan_other, &mut report);
    let ext_ns: Vec<usize> = if thorough { vec![8, 16, 32, 64] } else { vec![8, 16] };
    for &n in &ext_ns {
        assertion_sweep::<f64::BaseElement, QuadExtension<f64::BaseElement>>("f64^2", n).into_report(&format!("f64 base / quadratic extension n={n}: every assertion"), json!({}), &mut report);
    }
    let d = Desc::sequence(0, 3, 4, 16);
    report.sample(json!({"field": "f64", "n": 64, "assertion": d.show(), "asserted_steps": head(&d.steps(64)), "oracle": "divisor degree 16, zero exactly at g^3, g^7, …; constraint(g^step, v_k) = 0 and constraint(g^step, v_k + 1) != 0 for all 16 steps"}));
    report.sample(json!({"field": "f128", "n": 8, "list": [Desc::periodic(0, 1, 2).show(), Desc::single(1, 5).show(), Desc::sequence(1, 0, 4, 2).show()], "oracle": "6 orders, identical groups / polynomials / coefficients"}));
    report.exhaustive = true;
    report.bounds = json!({"trace_lengths": ns, "fields": ["f64", "f62", "f128", "f64 with quadratic extension"], "assertions": "every single/periodic/sequence assertion valid at n (one column) for the divisor and constraint checks", "permutation_plan_f64": plan64.iter().map(|p| json!({"n": p.0, "max_list": p.1, "thinned": p.2})).collect::<Vec<_>>(), "permutation_plan_f62_f128": plan_other.iter().map(|p| json!({"n": p.0, "max_list": p.1, "thinned": p.2})).collect::<Vec<_>>()});
    report.rule = "one evaluation per (assertion, trace-domain point) for the divisor, two per asserted step for the constraint, one per permutation of a list; non-trivial = asserted points, and non-identity permutations".into();
    report.assumptions = vec![
        "assertion divisors have no exemption points (checked), so evaluate_at on the domain involves no division".into(),
        "identical proof bytes under permuted assertion lists are checked by h_stark, not here".into(),
        "field arithmetic is the one C10 checks".into(),
    ];
    report.finish(args)
}
