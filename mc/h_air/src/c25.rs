//! C25 — security estimates: bounds, monotonicity along queries / grinding / extension degree,
//! and `AcceptableOptions::validate` ⇔ the recomputed estimate, `OptionSet` ⇔ membership.
//!
//! The space is a set of *slices* (every parameter the estimates read except the three monotone
//! axes) × the full cube queries 1..=255 × grinding 0..=32 × extension {1,2,3}.

use mck::{json, Args, Report, Value};
use winter_air::proof::{Context, Proof};
use winter_air::{BatchingMethod, FieldExtension, ProofOptions, TraceInfo};
use winter_crypto::hashers::{Blake3_192, Blake3_256, Rp62_248};
use winter_crypto::Hasher;
use winter_math::fields::{f128, f62, f64};
use winter_verifier::{AcceptableOptions, VerifierError};

use crate::util::{guarded, merge_all, Sweep};

#[derive(Clone, Copy, Debug, PartialEq, Eq)]
struct Slice {
    blowup: usize,
    /// constraint / DEEP batching: 0 linear, 1 algebraic, 2 Horner
    bc: u8,
    bd: u8,
    folding: usize,
    remainder: usize,
    log_len: u32,
    /// 0: Blake3_192 (96 bits), 1: Rp62_248 (124), 2: Blake3_256 (128)
    hasher: u8,
    /// 0: f62, 1: f64, 2: f128
    field: u8,
    constraints: usize,
    width: usize,
}

const BASE: Slice = Slice { blowup: 8, bc: 0, bd: 0, folding: 4, remainder: 7, log_len: 10, hasher: 2, field: 1, constraints: 100, width: 10 };

impl Slice {
    fn to_json(&self) -> Value {
        json!({"blowup": self.blowup, "bc": self.bc, "bd": self.bd, "folding": self.folding, "remainder": self.remainder, "log_len": self.log_len, "hasher": self.hasher, "field": self.field, "constraints": self.constraints, "width": self.width})
    }
    fn from_json(v: &Value) -> Slice {
        let u = |k: &str| v[k].as_u64().unwrap_or_else(|| mck::report::machinery("bad slice in replay record"));
        Slice { blowup: u("blowup") as usize, bc: u("bc") as u8, bd: u("bd") as u8, folding: u("folding") as usize, remainder: u("remainder") as usize, log_len: u("log_len") as u32, hasher: u("hasher") as u8, field: u("field") as u8, constraints: u("constraints") as usize, width: u("width") as usize }
    }
    fn collision_resistance(&self) -> u32 {
        [96, 124, 128][self.hasher as usize]
    }
    fn field_bits(&self) -> u32 {
        [62, 64, 128][self.field as usize]
    }
}

fn batching(x: u8) -> BatchingMethod {
    match x {
        0 => BatchingMethod::Linear,
        1 => BatchingMethod::Algebraic,
        _ => BatchingMethod::Horner,
    }
}

fn extension(x: u8) -> FieldExtension {
    match x {
        1 => FieldExtension::None,
        2 => FieldExtension::Quadratic,
        _ => FieldExtension::Cubic,
    }
}

fn make_options(s: &Slice, q: usize, g: u32, ext: u8) -> ProofOptions {
    ProofOptions::new(q, s.blowup, g, extension(ext), s.folding, s.remainder, batching(s.bc), batching(s.bd))
}

fn make_proof(s: &Slice, q: usize, g: u32, ext: u8, dummy: &Proof) -> Proof {
    let ti = TraceInfo::new(s.width, 1usize << s.log_len);
    let o = make_options(s, q, g, ext);
    let context = match s.field {
        0 => Context::new::<f62::BaseElement>(ti, o, s.constraints),
        1 => Context::new::<f64::BaseElement>(ti, o, s.constraints),
        _ => Context::new::<f128::BaseElement>(ti, o, s.constraints),
    };
    Proof { context, ..dummy.clone() }
}

#[derive(Clone, Copy, Debug, PartialEq, Eq, Default)]
struct Est {
    conj: u32,
    ldr: u32,
    udr: u32,
}

impl Est {
    fn proven(&self) -> u32 {
        self.ldr.max(self.udr)
    }
}

fn estimate_h<H: Hasher>(p: &Proof) -> Est {
    let c = p.conjectured_security::<H>();
    let pr = p.proven_security::<H>();
    Est { conj: c.bits(), ldr: pr.ldr_bits(), udr: pr.udr_bits() }
}

fn estimate(s: &Slice, p: &Proof) -> Est {
    match s.hasher {
        0 => estimate_h::<Blake3_192<f64::BaseElement>>(p),
        1 => estimate_h::<Rp62_248>(p),
        _ => estimate_h::<Blake3_256<f64::BaseElement>>(p),
    }
}

fn point_json(s: &Slice, q: usize, g: u32, ext: u8) -> Value {
    json!({"kind": "point", "slice": s.to_json(), "queries": q, "grinding": g, "ext": ext})
}

fn key(s: &Slice, q: usize, g: u32, ext: u8) -> String {
    format!("q={q} g={g} ext={ext} blowup={} batching={}/{} folding={} rem={} n=2^{} cr={} field={} constraints={} width={}", s.blowup, s.bc, s.bd, s.folding, s.remainder, s.log_len, s.collision_resistance(), s.field_bits(), s.constraints, s.width)
}

// VALIDATE
// ------------------------------------------------------------------------------------------------

fn validate_h<H: Hasher>(a: &AcceptableOptions, p: &Proof) -> Result<(), VerifierError> {
    a.validate::<H>(p)
}

fn validate(s: &Slice, a: &AcceptableOptions, p: &Proof) -> Result<(), VerifierError> {
    match s.hasher {
        0 => validate_h::<Blake3_192<f64::BaseElement>>(a, p),
        1 => validate_h::<Rp62_248>(a, p),
        _ => validate_h::<Blake3_256<f64::BaseElement>>(a, p),
    }
}

fn is_at_least_h<H: Hasher>(p: &Proof, conj: bool, t: u32) -> bool {
    if conj {
        p.conjectured_security::<H>().is_at_least(t)
    } else {
        p.proven_security::<H>().is_at_least(t)
    }
}

fn is_at_least(s: &Slice, p: &Proof, conj: bool, t: u32) -> bool {
    match s.hasher {
        0 => is_at_least_h::<Blake3_192<f64::BaseElement>>(p, conj, t),
        1 => is_at_least_h::<Rp62_248>(p, conj, t),
        _ => is_at_least_h::<Blake3_256<f64::BaseElement>>(p, conj, t),
    }
}

fn check_validate(s: &Slice, q: usize, g: u32, ext: u8, e: Est, p: &Proof, conj: bool, sw: &mut Sweep) {
    let bits = if conj { e.conj } else { e.proven() };
    let mut ts = vec![bits.saturating_sub(1), bits, bits + 1];
    if !conj {
        // thresholds around the weaker regime too: between the two only the stronger one counts
        let lo = e.ldr.min(e.udr);
        ts.extend([lo.saturating_sub(1), lo, lo + 1]);
    }
    ts.sort();
    ts.dedup();
    let what = if conj { "MinConjecturedSecurity" } else { "MinProvenSecurity" };
    for t in ts {
        sw.evals += 1;
        sw.nontrivial += 1;
        let expect = bits >= t;
        let a = if conj { AcceptableOptions::MinConjecturedSecurity(t) } else { AcceptableOptions::MinProvenSecurity(t) };
        let got = validate(s, &a, p);
        sw.count(if expect { "validate: threshold met" } else { "validate: threshold not met" });
        if got.is_ok() != expect {
            sw.fail(format!("wrong:AcceptableOptions::validate:{what}"), key(s, q, g, ext), format!("estimate {e:?}: {what}({t}) {} but the computed security {} the minimum", if got.is_ok() { "accepts" } else { "rejects" }, if expect { "meets" } else { "is below" }), point_json(s, q, g, ext));
        } else if let Err(err) = &got {
            let exp_err = if conj { VerifierError::InsufficientConjecturedSecurity(t, bits) } else { VerifierError::InsufficientProvenSecurity(t, bits) };
            if *err != exp_err {
                sw.fail(format!("wrong:AcceptableOptions::validate:{what}:error-payload"), key(s, q, g, ext), format!("rejected with {err:?}, expected {exp_err:?}"), point_json(s, q, g, ext));
            }
        }
        if is_at_least(s, p, conj, t) != expect {
            sw.fail(format!("wrong:{}::is_at_least", if conj { "ConjecturedSecurity" } else { "ProvenSecurity" }), key(s, q, g, ext), format!("estimate {e:?}: is_at_least({t}) = {}", !expect), point_json(s, q, g, ext));
        }
    }
}

fn same_options(a: &ProofOptions, b: &ProofOptions) -> bool {
    a.num_queries() == b.num_queries()
        && a.blowup_factor() == b.blowup_factor()
        && a.grinding_factor() == b.grinding_factor()
        && a.field_extension() as u8 == b.field_extension() as u8
        && a.to_fri_options().folding_factor() == b.to_fri_options().folding_factor()
        && a.to_fri_options().remainder_max_degree() == b.to_fri_options().remainder_max_degree()
        && a.constraint_batching_method() as u8 == b.constraint_batching_method() as u8
        && a.deep_poly_batching_method() as u8 == b.deep_poly_batching_method() as u8
        && a.partition_options().num_partitions::<f64::BaseElement>(64) == b.partition_options().num_partitions::<f64::BaseElement>(64)
        && a.partition_options().partition_size::<f64::BaseElement>(64) == b.partition_options().partition_size::<f64::BaseElement>(64)
}

/// OptionSet: the proof's options against sets built from single-parameter neighbours
fn check_option_set(s: &Slice, q: usize, g: u32, ext: u8, p: &Proof, sw: &mut Sweep) {
    let own = make_options(s, q, g, ext);
    let mut variants: Vec<ProofOptions> = vec![];
    if q < 255 {
        variants.push(make_options(s, q + 1, g, ext));
    }
    if q > 1 {
        variants.push(make_options(s, q - 1, g, ext));
    }
    variants.push(make_options(s, q, (g + 1) % 33, ext));
    variants.push(make_options(s, q, g, ext % 3 + 1));
    variants.push(make_options(&Slice { blowup: if s.blowup == 128 { 2 } else { s.blowup * 2 }, ..*s }, q, g, ext));
    variants.push(make_options(&Slice { folding: if s.folding == 16 { 2 } else { s.folding * 2 }, ..*s }, q, g, ext));
    variants.push(make_options(&Slice { remainder: if s.remainder == 255 { 0 } else { s.remainder * 2 + 1 }, ..*s }, q, g, ext));
    variants.push(make_options(&Slice { bc: (s.bc + 1) % 3, ..*s }, q, g, ext));
    variants.push(make_options(&Slice { bd: (s.bd + 1) % 3, ..*s }, q, g, ext));
    variants.push(own.clone().with_partitions(2, 8));
    let mut sets: Vec<Vec<ProofOptions>> = vec![vec![], vec![own.clone()], variants.clone()];
    for v in &variants {
        sets.push(vec![v.clone()]);
    }
    for pos in [0, variants.len() / 2, variants.len()] {
        let mut l = variants.clone();
        l.insert(pos, own.clone());
        sets.push(l);
    }
    for set in sets {
        sw.evals += 1;
        let expect = set.iter().any(|o| same_options(o, p.options()));
        if expect {
            sw.nontrivial += 1;
        }
        sw.count(if expect { "OptionSet: member" } else { "OptionSet: not a member" });
        let got = validate(s, &AcceptableOptions::OptionSet(set.clone()), p);
        let bad_err = matches!(&got, Err(e) if *e != VerifierError::UnacceptableProofOptions);
        if got.is_ok() != expect || bad_err {
            sw.fail("wrong:AcceptableOptions::validate:OptionSet", key(s, q, g, ext), format!("set of {} option values, the proof's options {} among them (compared field by field), validate returned {got:?}", set.len(), if expect { "are" } else { "are not" }), point_json(s, q, g, ext));
        }
    }
}

// ONE BLOCK OF A SLICE: grinding g_lo..=g_hi × all queries × all extensions
// ------------------------------------------------------------------------------------------------

fn check_bounds(s: &Slice, q: usize, g: u32, ext: u8, e: Est, sw: &mut Sweep) {
    let cr = s.collision_resistance();
    if e.conj > cr {
        sw.fail("bound:ConjecturedSecurity:exceeds-collision-resistance", key(s, q, g, ext), format!("conjectured {} bits > collision resistance {cr}", e.conj), point_json(s, q, g, ext));
    }
    if e.ldr > cr || e.udr > cr {
        sw.fail("bound:ProvenSecurity:exceeds-collision-resistance", key(s, q, g, ext), format!("proven ldr {} / udr {} bits > collision resistance {cr}", e.ldr, e.udr), point_json(s, q, g, ext));
    }
    let fbits = s.field_bits() * ext as u32;
    if e.conj >= fbits {
        sw.fail("bound:ConjecturedSecurity:not-below-extension-field-bits", key(s, q, g, ext), format!("conjectured {} bits, extension field has {fbits} bits", e.conj), point_json(s, q, g, ext));
    }
    if e.conj == cr {
        sw.count("conjectured capped by collision resistance");
    }
    if e.conj + 1 == fbits {
        sw.count("conjectured capped by field size");
    }
    if e.ldr > e.udr {
        sw.count("list-decoding estimate above unique-decoding estimate");
    } else if e.udr > e.ldr {
        sw.count("unique-decoding estimate above list-decoding estimate");
    }
}

fn check_step(s: &Slice, axis: &str, a: (usize, u32, u8, Est), b: (usize, u32, u8, Est), sw: &mut Sweep) {
    let (ea, eb) = (a.3, b.3);
    for (name, x, y) in [("ConjecturedSecurity", ea.conj, eb.conj), ("ProvenSecurity:ldr", ea.ldr, eb.ldr), ("ProvenSecurity:udr", ea.udr, eb.udr), ("ProvenSecurity:max", ea.proven(), eb.proven())] {
        sw.evals += 1;
        if y > x {
            sw.nontrivial += 1;
        }
        if y < x {
            sw.fail(format!("non_monotone:{name}:{axis}"), key(s, a.0, a.1, a.2), format!("{name} drops from {x} to {y} bits when {axis} grows: (q, g, ext) = ({}, {}, {}) -> ({}, {}, {})", a.0, a.1, a.2, b.0, b.1, b.2), json!({"kind": "step", "slice": s.to_json(), "a": [a.0, a.1, a.2], "b": [b.0, b.1, b.2]}));
        }
    }
}

fn block(s: &Slice, g_lo: u32, g_hi: u32, count_first_row: bool, qs: &[usize]) -> Sweep {
    let mut sw = Sweep::new();
    let dummy = Proof::new_dummy();
    let nq = qs.len();
    let idx = |g: u32, ext: u8, qi: usize| ((g - g_lo) as usize * 3 + (ext as usize - 1)) * nq + qi;
    let mut est = vec![Est::default(); (g_hi - g_lo + 1) as usize * 3 * nq];
    for g in g_lo..=g_hi {
        for ext in 1..=3u8 {
            for (qi, &q) in qs.iter().enumerate() {
                let r = mck::catch(|| {
                    let p = make_proof(s, q, g, ext, &dummy);
                    (estimate(s, &p), p)
                });
                let (e, p) = match r {
                    Ok(x) => x,
                    Err(pn) => {
                        sw.fail(format!("panic:security-estimate:{}", pn.location), key(s, q, g, ext), format!("panicked at {} ({})", pn.location, pn.message), point_json(s, q, g, ext));
                        continue;
                    },
                };
                est[idx(g, ext, qi)] = e;
                if g == g_lo && !count_first_row {
                    continue; // this row belongs to the previous block
                }
                sw.evals += 1;
                sw.nontrivial += 1;
                check_bounds(s, q, g, ext, e, &mut sw);
                check_validate(s, q, g, ext, e, &p, true, &mut sw);
                // proven-security validation recomputes the expensive estimate per threshold: thinned
                if (q + 2 * g as usize + ext as usize) % 16 == 0 || q == 1 || q == 255 {
                    check_validate(s, q, g, ext, e, &p, false, &mut sw);
                }
                if (q + g as usize) % 64 == 0 {
                    check_option_set(s, q, g, ext, &p, &mut sw);
                }
            }
        }
    }
    for g in g_lo..=g_hi {
        for ext in 1..=3u8 {
            for qi in 0..nq {
                let here = (qs[qi], g, ext, est[idx(g, ext, qi)]);
                if qi + 1 < nq && (g != g_lo || count_first_row) {
                    check_step(s, "queries", here, (qs[qi + 1], g, ext, est[idx(g, ext, qi + 1)]), &mut sw);
                }
                if g < g_hi {
                    check_step(s, "grinding", here, (qs[qi], g + 1, ext, est[idx(g + 1, ext, qi)]), &mut sw);
                }
                if ext < 3 && (g != g_lo || count_first_row) {
                    check_step(s, "extension", here, (qs[qi], g, ext + 1, est[idx(g, ext + 1, qi)]), &mut sw);
                }
            }
        }
    }
    sw
}

// SLICES
// ------------------------------------------------------------------------------------------------

const BLOWUPS: [usize; 7] = [2, 4, 8, 16, 32, 64, 128];
const FOLDINGS: [usize; 4] = [2, 4, 8, 16];
const REMAINDERS: [usize; 3] = [0, 7, 255];
const LENS: [u32; 5] = [3, 6, 10, 16, 20];
const CONSTRAINTS: [usize; 3] = [1, 2, 100];
const WIDTHS: [usize; 3] = [1, 10, 200];

/// every single-parameter deviation of `base`, tagged with the axis index
fn deviations(base: &Slice) -> Vec<(usize, Slice)> {
    let mut v = vec![];
    for x in BLOWUPS {
        v.push((0, Slice { blowup: x, ..*base }));
    }
    for x in 0..3u8 {
        v.push((1, Slice { bc: x, ..*base }));
        v.push((2, Slice { bd: x, ..*base }));
        v.push((6, Slice { hasher: x, ..*base }));
        v.push((7, Slice { field: x, ..*base }));
    }
    for x in FOLDINGS {
        v.push((3, Slice { folding: x, ..*base }));
    }
    for x in REMAINDERS {
        v.push((4, Slice { remainder: x, ..*base }));
    }
    for x in LENS {
        v.push((5, Slice { log_len: x, ..*base }));
    }
    for x in CONSTRAINTS {
        v.push((8, Slice { constraints: x, ..*base }));
    }
    for x in WIDTHS {
        v.push((9, Slice { width: x, ..*base }));
    }
    v.into_iter().filter(|(_, s)| s != base).collect()
}

fn dedup(v: Vec<Slice>) -> Vec<Slice> {
    let mut out: Vec<Slice> = vec![];
    for s in v {
        if !out.contains(&s) {
            out.push(s);
        }
    }
    out
}

/// lattice around the base: deviation 1 (quick) or 2 (thorough)
fn lattice(pairs: bool) -> Vec<Slice> {
    let mut v = vec![BASE];
    let d1 = deviations(&BASE);
    v.extend(d1.iter().map(|x| x.1));
    if pairs {
        for (ax, s1) in &d1 {
            for (bx, s2) in deviations(s1) {
                if bx > *ax {
                    v.push(s2);
                }
            }
        }
    }
    dedup(v)
}

/// full product of the thinned axes at short trace lengths (cheap: the proximity-parameter search
/// is short there)
fn small_products(lens: &[u32], thorough: bool) -> Vec<Slice> {
    let mut v = vec![];
    let bat: &[u8] = if thorough { &[0, 1, 2] } else { &[0, 1] };
    let folds: &[usize] = if thorough { &[2, 4, 16] } else { &[4] };
    let rems: &[usize] = if thorough { &[0, 255] } else { &[7] };
    let widths: &[usize] = if thorough { &[1, 200] } else { &[10] };
    for &log_len in lens {
        for blowup in BLOWUPS {
            for &bc in bat {
                for &bd in bat {
                    for hasher in 0..3u8 {
                        for field in 0..3u8 {
                            for constraints in [1usize, 100] {
                                for &folding in folds {
                                    for &remainder in rems {
                                        for &width in widths {
                                            v.push(Slice { blowup, bc, bd, folding, remainder, log_len, hasher, field, constraints, width });
                                        }
                                    }
                                }
                            }
                        }
                    }
                }
            }
        }
    }
    v
}

fn run_slices(slices: &[Slice], split: bool) -> Sweep {
    let qs: Vec<usize> = (1..=255).collect();
    let mut jobs: Vec<(Slice, u32, u32, bool)> = vec![];
    for s in slices {
        if split {
            for (lo, hi) in [(0u32, 4u32), (4, 8), (8, 12), (12, 16), (16, 20), (20, 24), (24, 28), (28, 32)] {
                jobs.push((*s, lo, hi, lo == 0));
            }
        } else {
            jobs.push((*s, 0, 32, true));
        }
    }
    merge_all(mck::par_map(jobs.len(), |i| guarded("C25", || {
        let (s, lo, hi, first) = jobs[i];
        block(&s, lo, hi, first, &qs)
    })))
}

fn replay(args: &Args, v: &Value) -> ! {
    let s = Slice::from_json(&v["slice"]);
    let mut sw = Sweep::new();
    let dummy = Proof::new_dummy();
    let pt = |x: &Value| (x[0].as_u64().unwrap() as usize, x[1].as_u64().unwrap() as u32, x[2].as_u64().unwrap() as u8);
    match v["kind"].as_str() {
        Some("point") => {
            let (q, g, ext) = (v["queries"].as_u64().unwrap() as usize, v["grinding"].as_u64().unwrap() as u32, v["ext"].as_u64().unwrap() as u8);
            let p = make_proof(&s, q, g, ext, &dummy);
            let e = estimate(&s, &p);
            println!("{}: {e:?}", key(&s, q, g, ext));
            sw.evals += 1;
            check_bounds(&s, q, g, ext, e, &mut sw);
            check_validate(&s, q, g, ext, e, &p, true, &mut sw);
            check_validate(&s, q, g, ext, e, &p, false, &mut sw);
            check_option_set(&s, q, g, ext, &p, &mut sw);
        },
        Some("step") => {
            let (a, b) = (pt(&v["a"]), pt(&v["b"]));
            let ea = estimate(&s, &make_proof(&s, a.0, a.1, a.2, &dummy));
            let eb = estimate(&s, &make_proof(&s, b.0, b.1, b.2, &dummy));
            println!("{}: {ea:?}\n{}: {eb:?}", key(&s, a.0, a.1, a.2), key(&s, b.0, b.1, b.2));
            let axis = if a.0 != b.0 { "queries" } else if a.1 != b.1 { "grinding" } else { "extension" };
            check_step(&s, axis, (a.0, a.1, a.2, ea), (b.0, b.1, b.2, eb), &mut sw);
        },
        _ => mck::report::machinery("unknown replay kind for C25"),
    }
    sw.finish_replay(args, v)
}

pub fn run(args: &Args) {
    if let Some(v) = args.replay_value() {
        replay(args, &v);
    }
    let mut report = Report::new(args, "exploration");
    let thorough = args.tier == mck::Tier::Thorough;

    let lat = lattice(thorough);
    let n_lat = lat.len();
    run_slices(&lat, true).into_report(
        &format!("{n_lat} slices around the base (deviation {}) x queries 1..=255 x grinding 0..=32 x extension 1..=3", if thorough { 2 } else { 1 }),
        json!({"base": BASE.to_json(), "axes": {"blowup": BLOWUPS, "batching_constraints": [0, 1, 2], "batching_deep": [0, 1, 2], "folding": FOLDINGS, "remainder": REMAINDERS, "log2_trace_length": LENS, "collision_resistance": [96, 124, 128], "field_bits": [62, 64, 128], "constraints": CONSTRAINTS, "width": WIDTHS}}),
        &mut report,
    );
    let small_lens: Vec<u32> = vec![3, 6];
    let small = small_products(&small_lens, thorough);
    let n_small = small.len();
    run_slices(&small, false).into_report(
        &format!("{n_small} slices: full product of blowup x batching x collision resistance x field x constraint count{} at trace length 2^{small_lens:?} x the same cube", if thorough { " x folding x remainder x width" } else { "" }),
        json!({}),
        &mut report,
    );

    report.sample(json!({"slice": BASE.to_json(), "line": "grinding 16, extension 2, queries 1..=255", "oracle": "conjectured/ldr/udr/max non-decreasing in queries; each <= 128 (collision resistance); conjectured < 128 (field bits)"}));
    report.sample(json!({"point": key(&BASE, 40, 20, 2), "oracle": "MinConjecturedSecurity(t) accepted iff bits >= t for t in {bits-1, bits, bits+1}; MinProvenSecurity(t) accepted iff max(ldr, udr) >= t"}));
    report.exhaustive = true;
    report.bounds = json!({"slices_lattice": n_lat, "slices_small_products": n_small, "cube": "queries 1..=255 x grinding 0..=32 x extension {1,2,3}", "validate_conjectured": "every point, thresholds bits-1, bits, bits+1", "validate_proven": "points with (q + 2g + ext) % 16 == 0 or q in {1, 255}; thresholds around max(ldr, udr) and around min(ldr, udr)", "option_set": "points with (q + g) % 64 == 0; 15 sets built from single-parameter neighbours"});
    report.rule = "one evaluation per grid point (its three estimates), per neighbour comparison along an axis, per validate call; non-trivial = every point, comparisons where the estimate strictly grows, every threshold call, sets that contain the proof's options".into();
    report.assumptions = vec![
        "monotonicity is demanded of the conjectured estimate, of each proven regime and of their maximum (the number is_at_least compares)".into(),
        "the proven-security validate check is thinned because every call repeats the proximity-parameter search".into(),
        "num_committed_polys is what Proof::proven_security derives from the context (width + blowup); it is varied through the width axis".into(),
    ];
    report.finish(args)
}
