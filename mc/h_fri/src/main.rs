//! h_fri — harness for winter-fri: C08 (completeness), C09 (soundness side).

mod c08;
mod c09;
mod common;

fn main() {
    mck::install_panic_hook();
    let args = mck::Args::parse();
    match args.prop.as_str() {
        "C08" => c08::run(&args),
        "C09" => c09::run(&args),
        p => mck::report::machinery(&format!("h_fri does not serve property {p:?}")),
    }
}
