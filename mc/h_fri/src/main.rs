//! h_fri — harness for winter-fri: C08 (completeness), C09 (soundness side).

fn main() {
    mck::install_panic_hook();
    let args = mck::Args::parse();
    match args.prop.as_str() {
        p => mck::report::machinery(&format!("h_fri does not serve property {p:?}")),
    }
}
