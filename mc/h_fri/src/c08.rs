//! C08 — FRI completeness: for every point of the configuration lattice (engine E5) the proof
//! the real `FriProver` builds for the evaluations of a polynomial within the bound is accepted
//! by the real `FriVerifier`, directly and after a `FriProof` byte round trip, for every
//! polynomial of the alphabet and every query-position multiset of the stated families.

use std::collections::{BTreeMap, BTreeSet};

use mck::{json, Args, Report, Value};
use winter_crypto::ElementHasher;
use winter_math::{FieldElement, StarkField};

use crate::common::*;
use crate::dispatch;

#[derive(Default)]
struct Stats {
    layers_hist: [u64; 5],
    dup: u64,
    coll: u64,
    multi_last: u64,
    unsorted: u64,
    drawn: u64,
    drawn_with_dup: u64,
    fft_polys: u64,
    naive_polys: u64,
    proof_bytes: u64,
    max_positions: usize,
    nonzero_remainder_only: u64,
    /// failing cases by degree bound + 1
    failed_by_n: BTreeMap<usize, u64>,
}

impl Stats {
    fn absorb(&mut self, o: &Stats) {
        for i in 0..5 {
            self.layers_hist[i] += o.layers_hist[i];
        }
        self.dup += o.dup;
        self.coll += o.coll;
        self.multi_last += o.multi_last;
        self.unsorted += o.unsorted;
        self.drawn += o.drawn;
        self.drawn_with_dup += o.drawn_with_dup;
        self.fft_polys += o.fft_polys;
        self.naive_polys += o.naive_polys;
        self.proof_bytes += o.proof_bytes;
        self.max_positions = self.max_positions.max(o.max_positions);
        self.nonzero_remainder_only += o.nonzero_remainder_only;
        for (k, v) in &o.failed_by_n {
            *self.failed_by_n.entry(*k).or_insert(0) += v;
        }
    }
}

struct Unit {
    cfg: Cfg,
    poly: Poly,
    positions: Vec<Pos>,
}

fn replay_record(cfg: &Cfg, poly: &Poly, pos: &Pos) -> Value {
    json!({"kind": "c08", "cfg": cfg.to_json(), "poly": poly.to_json(), "positions": pos.to_json()})
}

/// One (configuration, polynomial) unit: evaluate once, then one proof per position multiset.
fn run_unit<B, E, H>(u: &Unit) -> (Sweep, Stats)
where
    B: StarkField,
    E: FieldElement<BaseField = B>,
    H: ElementHasher<BaseField = B>,
{
    let mut s = Sweep::new();
    let mut st = Stats::default();
    let cfg = &u.cfg;
    let sh = cfg.shape().expect("only valid points are scheduled");
    let coeffs: Vec<E> = u.poly.coefficients::<E>();
    assert!(coeffs.len() <= cfg.n, "alphabet polynomial exceeds the bound");
    let (evals, used_fft) = evaluate::<B, E>(&coeffs, sh.domain);
    if used_fft {
        st.fft_polys += 1;
    } else {
        st.naive_polys += 1;
    }
    let xs = if used_fft { coset::<B>(sh.domain) } else { vec![] };
    let count = |s: &Sweep| s.viol.len() as u64 + s.more.iter().map(|(_, n)| *n).sum::<u64>();
    let mut before = 0u64;
    for pos in &u.positions {
        if count(&s) > before {
            *st.failed_by_n.entry(cfg.n).or_insert(0) += 1;
            before = count(&s);
        }
        s.evals += 1;
        let key = format!("{}/{}/{}", cfg.key(), u.poly.key(), pos.key());
        let rp = replay_record(cfg, &u.poly, pos);
        let proved = match prove::<B, E, H>(cfg, &evals, pos) {
            Ok(p) => p,
            Err(p) => {
                s.fail(panic_class("prover", &p), key.clone(), format!("FriProver panicked at {} ({}) on a valid lattice point: {key}", p.location, p.message), rp);
                continue;
            },
        };
        let positions = &proved.positions;
        // statistics
        let (dup, coll, last_distinct) = position_stats(positions, cfg, &sh);
        st.layers_hist[sh.layers.min(4)] += 1;
        st.dup += dup as u64;
        st.coll += coll as u64;
        st.multi_last += (last_distinct > 1) as u64;
        st.unsorted += positions.windows(2).any(|w| w[0] > w[1]) as u64;
        st.max_positions = st.max_positions.max(positions.len());
        if let Pos::Drawn(..) = pos {
            st.drawn += 1;
            st.drawn_with_dup += dup as u64;
        }
        if sh.layers == 0 && u.poly != Poly::Zero {
            st.nonzero_remainder_only += 1;
        }
        if sh.layers >= 1 && u.poly != Poly::Zero {
            s.nontrivial += 1;
        }
        // the harness's layer rule and the library's must agree, otherwise the predicate is off
        let nrem = proved.proof.num_remainder_elements::<E>();
        if proved.proof.num_layers() != sh.layers || proved.commitments.len() != sh.layers + 1 || nrem != sh.rem_size {
            s.fail("shape-mismatch:proof".into(), key.clone(), format!("{key}: proof has {} layers, {} commitments, {nrem} remainder coefficients; the documented rule gives {} layers and {} coefficients",
                proved.proof.num_layers(), proved.commitments.len(), sh.layers, sh.rem_size), rp.clone());
        }
        // evaluations handed to the verifier: naive values at the queried positions
        let qvals: Vec<E> = if used_fft {
            let q: Vec<E> = positions.iter().map(|&p| eval_naive(&coeffs, xs[p])).collect();
            if q.iter().zip(positions).any(|(v, &p)| *v != evals[p]) {
                s.fail("evaluation-mismatch:fft-vs-naive".into(), key.clone(), format!("{key}: winter_math FFT evaluation differs from naive evaluation at a queried position"), rp.clone());
            }
            q
        } else {
            positions.iter().map(|&p| evals[p]).collect()
        };
        // 1. direct verification
        match verify_default::<B, E, H>(proved.proof.clone(), proved.commitments.clone(), sh.domain, options(cfg), cfg.n - 1, &qvals, positions) {
            Err(p) => s.fail(panic_class("verifier", &p), key.clone(), format!("verifier panicked at {} ({}) on an honest proof: {key}", p.location, p.message), rp.clone()),
            Ok(Err(r)) => s.fail(format!("rejected:honest-proof:{}", r.name()), key.clone(), format!("honest proof rejected with {r:?}: {key} (positions {positions:?})"), rp.clone()),
            Ok(Ok(())) => {},
        }
        // 2. through bytes
        let bytes = proof_to_bytes(&proved.proof);
        st.proof_bytes += bytes.len() as u64;
        match proof_from_bytes(&bytes) {
            Err(p) => s.fail(panic_class("FriProof::read_from", &p), key.clone(), format!("FriProof::read_from panicked at {} ({}) on the prover's own bytes: {key}", p.location, p.message), rp.clone()),
            Ok(Err(e)) => s.fail("decode-failed:FriProof".into(), key.clone(), format!("FriProof::read_from failed on the prover's own bytes ({e}): {key}"), rp.clone()),
            Ok(Ok((dec, exhausted))) => {
                if !exhausted {
                    s.fail("roundtrip:unconsumed-bytes:FriProof".into(), key.clone(), format!("FriProof::read_from left bytes unread: {key}"), rp.clone());
                }
                if dec != proved.proof {
                    s.fail("roundtrip:differs:FriProof".into(), key.clone(), format!("decoded FriProof differs from the original: {key}"), rp.clone());
                }
                match verify_default::<B, E, H>(dec, proved.commitments.clone(), sh.domain, options(cfg), cfg.n - 1, &qvals, positions) {
                    Err(p) => s.fail(panic_class("verifier-after-roundtrip", &p), key.clone(), format!("verifier panicked at {} ({}) on a decoded honest proof: {key}", p.location, p.message), rp.clone()),
                    Ok(Err(r)) => s.fail(format!("rejected:decoded-proof:{}", r.name()), key.clone(), format!("honest proof rejected after the byte round trip with {r:?}: {key}"), rp.clone()),
                    Ok(Ok(())) => {},
                }
            },
        }
    }
    if count(&s) > before {
        *st.failed_by_n.entry(cfg.n).or_insert(0) += 1;
    }
    (s, st)
}


/// One prover instance driven through a history of operations (engine E2 on the prover object):
/// `Prove(n)` = build_layers + build_proof for degree bound n - 1, `Abandon(n)` = build_layers
/// followed by reset(). Every proof of a history must be byte-identical to the proof a fresh
/// prover builds for the same input (differential oracle: state reached from the initial state
/// versus from elsewhere) and must verify.
#[derive(Clone, Copy, Debug, PartialEq)]
enum HOp {
    Prove(usize),
    Abandon(usize),
}

fn history_record(cfg: &Cfg, h: &[HOp]) -> Value {
    let ops: Vec<Value> = h.iter().map(|o| match o { HOp::Prove(n) => json!({"prove": n}), HOp::Abandon(n) => json!({"abandon": n}) }).collect();
    json!({"kind": "c08-history", "cfg": cfg.to_json(), "history": ops})
}

fn run_history<B, E, H>(cfg: &Cfg, h: &[HOp]) -> Sweep
where
    B: StarkField,
    E: FieldElement<BaseField = B>,
    H: ElementHasher<BaseField = B>,
{
    use winter_crypto::{DefaultRandomCoin, MerkleTree};
    use winter_fri::{DefaultProverChannel, FriProver};
    let mut s = Sweep::new();
    s.evals += 1;
    s.nontrivial += 1;
    let key = format!("{}/history={h:?}", cfg.key());
    let rp = history_record(cfg, h);
    let inputs = |n: usize| -> (Cfg, Vec<E>, Vec<usize>) {
        let c = Cfg { n, ..*cfg };
        let sh = c.shape().expect("only valid sizes are scheduled");
        let coeffs: Vec<E> = Poly::Counter(n).coefficients();
        let (evals, _) = evaluate::<B, E>(&coeffs, sh.domain);
        let mut pos = vec![0, sh.domain - 1, sh.domain / 2, 1];
        pos.dedup();
        (c, evals, pos)
    };
    let outcome = mck::catch(|| {
        let mut out: Vec<(usize, Vec<u8>, Vec<H::Digest>)> = vec![];
        let mut prover = FriProver::<E, DefaultProverChannel<E, H, DefaultRandomCoin<H>>, H, MerkleTree<H>>::new(options(cfg));
        for (i, op) in h.iter().enumerate() {
            let n = match op { HOp::Prove(n) | HOp::Abandon(n) => *n };
            let (_, evals, pos) = inputs(n);
            let mut channel = DefaultProverChannel::<E, H, DefaultRandomCoin<H>>::new(evals.len(), pos.len());
            prover.build_layers(&mut channel, evals);
            match op {
                HOp::Abandon(_) => prover.reset(),
                HOp::Prove(_) => {
                    let proof = prover.build_proof(&pos);
                    out.push((i, proof_to_bytes(&proof), channel.layer_commitments().to_vec()));
                },
            }
        }
        out
    });
    let out = match outcome {
        Ok(o) => o,
        Err(p) => {
            s.fail(panic_class("prover-reused", &p), key.clone(), format!("a reused FriProver panicked at {} ({}) in the history {key}", p.location, p.message), rp);
            return s;
        },
    };
    for (i, bytes, commitments) in out {
        let n = match h[i] { HOp::Prove(n) | HOp::Abandon(n) => n };
        let (c, evals, pos) = inputs(n);
        let sh = c.shape().unwrap();
        match prove::<B, E, H>(&c, &evals, &Pos::Explicit(pos.clone())) {
            Err(p) => s.fail(panic_class("prover", &p), key.clone(), format!("fresh prover panicked at {} for step {i} of {key}", p.location), rp.clone()),
            Ok(fresh) => {
                if proof_to_bytes(&fresh.proof) != bytes || fresh.commitments != commitments {
                    s.fail("history-dependent:proof".into(), key.clone(), format!("step {i} of {key}: the reused prover's proof or commitments differ from a fresh prover's for the same input"), rp.clone());
                }
            },
        }
        let qvals: Vec<E> = pos.iter().map(|&p| evals[p]).collect();
        match proof_from_bytes(&bytes) {
            Ok(Ok((dec, _))) => match verify_default::<B, E, H>(dec, commitments, sh.domain, options(&c), n - 1, &qvals, &pos) {
                Err(p) => s.fail(panic_class("verifier", &p), key.clone(), format!("verifier panicked at {} on step {i} of {key}", p.location), rp.clone()),
                Ok(Err(r)) => s.fail(format!("rejected:reused-prover-proof:{}", r.name()), key.clone(), format!("step {i} of {key}: proof of a reused prover rejected with {r:?}"), rp.clone()),
                Ok(Ok(())) => {},
            },
            _ => s.fail("decode-failed:FriProof".into(), key.clone(), format!("step {i} of {key}: FriProof bytes of a reused prover do not decode"), rp.clone()),
        }
    }
    s
}

fn dispatch_history(cfg: &Cfg, h: &[HOp]) -> Sweep {
    dispatch!(cfg, run_history(cfg, h))
}

/// all histories up to the depth bound over the sizes valid for one option set
fn histories(cfg: &Cfg, sizes: &[usize], depth: usize) -> Vec<Vec<HOp>> {
    let valid: Vec<usize> = sizes.iter().copied().filter(|n| Cfg { n: *n, ..*cfg }.shape().is_ok()).collect();
    let mut alpha: Vec<HOp> = valid.iter().map(|n| HOp::Prove(*n)).collect();
    alpha.extend(valid.iter().map(|n| HOp::Abandon(*n)));
    let mut out: Vec<Vec<HOp>> = vec![];
    let mut level: Vec<Vec<HOp>> = vec![vec![]];
    for _ in 0..depth {
        let mut next = vec![];
        for hst in &level {
            for a in &alpha {
                let mut x = hst.clone();
                x.push(*a);
                next.push(x);
            }
        }
        // a history is a case when it ends with a proof and is longer than one operation
        out.extend(next.iter().filter(|x| x.len() >= 2 && matches!(x.last(), Some(HOp::Prove(_)))).cloned());
        level = next;
    }
    out
}

fn dispatch_unit(u: &Unit) -> (Sweep, Stats) {
    dispatch!(u.cfg, run_unit(u))
}

/// What the library does on a point the predicate excludes for "no remainder coefficient"
/// (information only; never a verdict).
fn observe_excluded<B, E, H>(cfg: &Cfg) -> String
where
    B: StarkField,
    E: FieldElement<BaseField = B>,
    H: ElementHasher<BaseField = B>,
{
    let coeffs: Vec<E> = Poly::Counter(cfg.n).coefficients();
    let domain = cfg.n * cfg.blowup;
    let (evals, _) = evaluate::<B, E>(&coeffs, domain);
    match prove::<B, E, H>(cfg, &evals, &Pos::Explicit(vec![0])) {
        Err(p) => format!("prover panics at {} ({})", p.location, p.message),
        Ok(pr) => match verify_default::<B, E, H>(pr.proof, pr.commitments, domain, options(cfg), cfg.n - 1, &[evals[0]], &[0]) {
            Err(p) => format!("prover returns a proof; verifier panics at {}", p.location),
            Ok(Err(r)) => format!("prover returns a proof; verifier rejects with {}", r.name()),
            Ok(Ok(())) => "prover returns a proof; verifier accepts".into(),
        },
    }
}

pub fn full_lists() -> Lists {
    Lists {
        field: vec![F64, F128, F62],
        ext: vec![1, 2, 3],
        hasher: vec![BLAKE3, RESCUE, SHA3],
        blowup: vec![2, 4, 8, 16],
        folding: vec![2, 4, 8, 16],
        rem: vec![0, 1, 3, 7, 15, 31],
        // 2 and 4 lie below the design's list {8..1024}; they are within the property's quantifier
        // (bound + 1 a power of two) and cost a handful of points, so deviation 1 includes them
        n: vec![2, 4, 8, 16, 32, 64, 128, 256, 512, 1024],
    }
}

pub fn reduced_lists() -> Lists {
    Lists {
        field: vec![F64, F128, F62],
        ext: vec![1, 2, 3],
        hasher: vec![BLAKE3, RESCUE],
        blowup: vec![2, 16],
        folding: vec![2, 16],
        rem: vec![0, 31],
        n: vec![8, 64, 1024],
    }
}

pub fn bases() -> Vec<Cfg> {
    vec![
        // 64-point domain, three layers, 2 remainder coefficients
        Cfg { field: F64, ext: 1, hasher: BLAKE3, blowup: 4, folding: 2, rem: 1, n: 16 },
        // 64-point domain, two layers of folding 4, 2 remainder coefficients, quadratic extension
        Cfg { field: F128, ext: 2, hasher: BLAKE3, blowup: 2, folding: 4, rem: 1, n: 32 },
        // 64-point domain, two layers, 8 remainder coefficients over a 16-point last layer
        Cfg { field: F64, ext: 2, hasher: BLAKE3, blowup: 2, folding: 2, rem: 7, n: 32 },
    ]
}

fn distance(a: &Cfg, b: &Cfg) -> usize {
    (a.field != b.field) as usize + (a.ext != b.ext) as usize + (a.hasher != b.hasher) as usize + (a.blowup != b.blowup) as usize
        + (a.folding != b.folding) as usize + (a.rem != b.rem) as usize + (a.n != b.n) as usize
}

pub fn run(args: &Args) {
    let mut report = Report::new(args, "exploration");
    if let Some(v) = args.replay_value() {
        return replay(args, &v, report);
    }
    let thorough = args.tier == mck::Tier::Thorough;
    let full = full_lists();
    let reduced = reduced_lists();
    let bases = bases();

    // ---- lattice ---------------------------------------------------------------------------
    let mut points: BTreeSet<Cfg> = BTreeSet::new();
    for b in &bases {
        neighbourhood(b, &full, 1, &mut points);
        neighbourhood(b, if thorough { &full } else { &reduced }, 2, &mut points);
        if thorough {
            neighbourhood(b, &reduced, 3, &mut points);
        }
    }
    let mut excluded: BTreeMap<&'static str, u64> = BTreeMap::new();
    let mut observed: BTreeMap<String, u64> = BTreeMap::new();
    let mut valid: Vec<(Cfg, usize)> = vec![];
    for c in &points {
        match c.shape() {
            Ok(_) => valid.push((*c, bases.iter().map(|b| distance(b, c)).min().unwrap())),
            Err(reason) => {
                *excluded.entry(reason).or_insert(0) += 1;
                if reason.starts_with("folding^layers") {
                    let o = dispatch!(c, observe_excluded(c));
                    *observed.entry(o).or_insert(0) += 1;
                }
            },
        }
    }

    // ---- work units ------------------------------------------------------------------------
    let mut units: Vec<Unit> = vec![];
    let mut by_level = [0u64; 4];
    for (cfg, level) in &valid {
        by_level[(*level).min(3)] += 1;
        let sh = cfg.shape().unwrap();
        let small = positions_small(sh.domain, cfg.folding);
        let all: Vec<Pos> = if sh.domain <= 64 {
            let mut a = positions_all_singles_pairs(sh.domain);
            let known: BTreeSet<Pos> = a.iter().cloned().collect();
            a.extend(small.iter().filter(|p| !known.contains(p)).cloned());
            a
        } else {
            small.clone()
        };
        for poly in alphabet(cfg.n) {
            let dense = poly == Poly::Counter(cfg.n);
            let top = poly == Poly::Mono(cfg.n - 1) || poly == Poly::AllMax(cfg.n);
            let wants_all = match (level, thorough) {
                (0, _) => true,
                (1, false) => dense || poly == Poly::Mono(cfg.n - 1),
                (1, true) => true,
                (2, false) => dense && sh.domain <= 32,
                (2, true) => dense || top,
                (3, true) => dense,
                _ => false,
            };
            let positions = if wants_all { all.clone() } else { small.clone() };
            // shard long position lists so that the pool stays balanced
            for chunk in positions.chunks(600) {
                units.push(Unit { cfg: *cfg, poly: poly.clone(), positions: chunk.to_vec() });
            }
        }
    }

    // a panic that escapes the per-call guards is a harness failure, never a verdict
    let results = mck::par_map(units.len(), |i| {
        mck::catch(|| dispatch_unit(&units[i])).unwrap_or_else(|p| mck::report::machinery(&format!("harness panicked at {} ({}) in unit {}/{}", p.location, p.message, units[i].cfg.key(), units[i].poly.key())))
    });

    // ---- merge -----------------------------------------------------------------------------
    let mut per_field: BTreeMap<String, (Sweep, Stats, BTreeSet<Cfg>)> = BTreeMap::new();
    let mut total = Stats::default();
    for (u, (s, st)) in units.iter().zip(results) {
        let name = format!("{} / extension degree {}", u.cfg.field_name(), u.cfg.ext);
        let e = per_field.entry(name).or_insert_with(|| (Sweep::new(), Stats::default(), BTreeSet::new()));
        e.0.absorb(s);
        e.1.absorb(&st);
        e.2.insert(u.cfg);
        total.absorb(&st);
    }
    for (name, (s, st, cfgs)) in per_field {
        let note = json!({"configurations": cfgs.len(), "proofs_by_layer_count": {"0": st.layers_hist[0], "1": st.layers_hist[1], "2": st.layers_hist[2], "3": st.layers_hist[3], "4+": st.layers_hist[4]},
            "position_sets_with_duplicates": st.dup, "position_sets_colliding_after_first_folding": st.coll});
        s.into_report(&name, note, &mut report);
    }

    // ---- prover-object histories -----------------------------------------------------------
    let hsizes: Vec<usize> = if thorough { vec![2, 4, 8, 16, 32, 64, 128] } else { vec![4, 8, 16, 32, 64] };
    let hdepth = if thorough { 3 } else { 2 };
    let mut hjobs: Vec<(Cfg, Vec<HOp>)> = vec![];
    let mut hcfgs = 0;
    for (field, ext, hasher) in [(F64, 1, BLAKE3), (F128, 2, BLAKE3), (F62, 3, RESCUE), (F64, 2, SHA3)] {
        for &blowup in &[2usize, 4, 8] {
            for &folding in &full.folding {
                for &rem in &full.rem {
                    let c = Cfg { field, ext, hasher, blowup, folding, rem, n: 8 };
                    // the deepest histories only for the first type instantiation
                    let d = if field == F64 && ext == 1 { hdepth } else { 2 };
                    let hs = histories(&c, &hsizes, d);
                    if !hs.is_empty() {
                        hcfgs += 1;
                    }
                    hjobs.extend(hs.into_iter().map(|h| (c, h)));
                }
            }
        }
    }
    let hres = mck::par_map(hjobs.len(), |i| {
        mck::catch(|| dispatch_history(&hjobs[i].0, &hjobs[i].1)).unwrap_or_else(|p| mck::report::machinery(&format!("harness panicked at {} ({}) in history {:?}", p.location, p.message, hjobs[i].1)))
    });
    let mut hs = Sweep::new();
    for r in hres {
        hs.absorb(r);
    }
    hs.into_report("one FriProver instance reused across a history of Prove(n) / Abandon(n)+reset() operations", json!({"option_sets": hcfgs, "histories": hjobs.len(), "sizes": hsizes, "depth": hdepth,
        "oracle": "every proof of a history is byte-identical to a fresh prover's proof for the same input and verifies"}), &mut report);

    let hashers: BTreeSet<&str> = valid.iter().map(|(c, _)| c.hasher_name()).collect();
    report.extra.insert("lattice".into(), json!({
        "points_enumerated": points.len(), "valid_points": valid.len(),
        "valid_points_by_deviation": {"0": by_level[0], "1": by_level[1], "2": by_level[2], "3": by_level[3]},
        "excluded_by_predicate": excluded, "excluded_points_observed_behaviour": observed,
        "hashers": hashers, "work_units": units.len(),
    }));
    report.extra.insert("non_vacuity".into(), json!({
        "proofs_by_layer_count": {"0 (remainder only)": total.layers_hist[0], "1": total.layers_hist[1], "2": total.layers_hist[2], "3": total.layers_hist[3], "4+": total.layers_hist[4]},
        "remainder_only_proofs_of_nonzero_polynomials": total.nonzero_remainder_only,
        "position_sets_with_duplicates": total.dup,
        "position_sets_with_distinct_positions_colliding_after_first_folding": total.coll,
        "position_sets_with_more_than_one_last_layer_point": total.multi_last,
        "unsorted_position_sets": total.unsorted,
        "channel_drawn_position_sets": total.drawn, "channel_drawn_sets_containing_duplicates": total.drawn_with_dup,
        "largest_position_multiset": total.max_positions,
        "polynomials_evaluated_naively": total.naive_polys, "polynomials_evaluated_by_fft_with_naive_values_at_queries": total.fft_polys,
        "proof_bytes_round_tripped": total.proof_bytes,
        "failing_cases_by_degree_bound_plus_1": total.failed_by_n,
    }));
    report.sample(json!({"cfg": bases[0].to_json(), "poly": Poly::Mono(15).to_json(), "positions": [5, 37], "note": "5 and 37 share a coset after the first folding (64/2 = 32)", "oracle": "verify == Ok directly and after to_bytes/read_from"}));
    report.sample(json!({"cfg": bases[1].to_json(), "poly": Poly::AllMax(32).to_json(), "positions": [63, 63], "oracle": "verify == Ok"}));
    report.sample(json!({"cfg": Cfg { n: 1024, ..bases[0] }.to_json(), "poly": Poly::Counter(1024).to_json(), "positions": {"drawn": 255, "nonce": 0}, "oracle": "verify == Ok"}));
    report.exhaustive = true;
    report.bounds = json!({
        "bases": bases.iter().map(|b| b.to_json()).collect::<Vec<_>>(),
        "deviation_1_lists": full.to_json(),
        "deviation_2_lists": if thorough { full.to_json() } else { reduced.to_json() },
        "deviation_3_lists": if thorough { reduced.to_json() } else { Value::Null },
        "polynomials": "zero, one, x^k (all k <= bound when bound < 64; k in {1,2,n/2-1,n/2,n/2+1,n-3,n-2,n-1} otherwise), all coefficients p-1, counter 1,2,3.. of n, (n-1)/2+1 and n-1 coefficients",
        "positions": if thorough { "domain <= 64: every single position and every unordered pair incl. duplicates (deviation 0 and 1: for every polynomial; deviation 2: dense counter, x^bound, all p-1; deviation 3: dense counter) plus the small family;" } else { "domain <= 64: every single position and every unordered pair incl. duplicates (base points: for every polynomial; deviation 1: dense counter and x^bound; deviation 2: dense counter on domains <= 32) plus the small family;" },
        "positions_small_family": " every point and polynomial: small family = first, last, middle, pair colliding after one folding (two instances), pair colliding after two foldings, duplicate, unsorted, a whole coset, a 5-element unsorted multiset with a duplicate, min(255, domain-1) positions drawn by DefaultProverChannel::draw_query_positions",
    });
    report.rule = "one case per (configuration, polynomial, position multiset); all cases are distinct by construction (set-deduplicated lattice points, duplicate-free alphabets and position lists); non-trivial = the proof has at least one FRI layer and the polynomial is not zero".into();
    report.assumptions = vec![
        "validity predicate: FriOptions::new / DefaultProverChannel::new preconditions, extension and hasher availability, LDE size <= 2^two-adicity, folding^layers <= degree bound + 1 (remainder keeps a coefficient), remainder fits FriProof's u16 byte count".into(),
        "evaluations over the coset GENERATOR·<g> are computed naively (term by term) up to 2^22 multiplications per polynomial; beyond that by winter_math's FFT, with the values handed to the verifier recomputed naively".into(),
    ];
    report.finish(args)
}

fn replay(args: &Args, v: &Value, mut report: Report) {
    if v["kind"] == "c08-history" {
        let Some(cfg) = Cfg::from_json(&v["cfg"]) else { mck::report::machinery("C08 history replay record needs cfg") };
        let h: Vec<HOp> = v["history"].as_array().map(|a| a.iter().filter_map(|o| {
            if let Some(n) = o["prove"].as_u64() { Some(HOp::Prove(n as usize)) } else { o["abandon"].as_u64().map(|n| HOp::Abandon(n as usize)) }
        }).collect()).unwrap_or_default();
        let s = dispatch_history(&cfg, &h);
        s.into_report("replay", json!({"case": v}), &mut report);
        report.rule = "replay of one recorded history".into();
        report.finish(args)
    }
    let parsed = (|| Some((Cfg::from_json(&v["cfg"])?, Poly::from_json(&v["poly"])?, Pos::from_json(&v["positions"])?)))();
    let Some((cfg, poly, pos)) = parsed else { mck::report::machinery("C08 replay record needs cfg, poly, positions") };
    if let Err(e) = cfg.shape() {
        mck::report::machinery(&format!("C08 replay: the recorded configuration is outside the validity predicate: {e}"));
    }
    let u = Unit { cfg, poly, positions: vec![pos] };
    let (s, _) = dispatch_unit(&u);
    s.into_report("replay", json!({"case": v}), &mut report);
    report.rule = "replay of one recorded case".into();
    report.finish(args)
}
