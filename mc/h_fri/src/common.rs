//! Shared pieces of the FRI harness: the configuration lattice (engine E5) with its validity
//! predicate, the polynomial alphabet, naive evaluation over the LDE coset, query-position
//! families, the drivers around `FriProver` / `FriVerifier`, an attacker-controlled
//! `VerifierChannel`, and the violation collector.

use std::collections::BTreeSet;
use std::marker::PhantomData;

use mck::{json, Panicked, Value, Violation};
use winter_crypto::{BatchMerkleProof, DefaultRandomCoin, ElementHasher, Hasher, MerkleTree, RandomCoin};
use winter_fri::{DefaultProverChannel, DefaultVerifierChannel, FriOptions, FriProof, FriProver, FriVerifier, ProverChannel, VerifierChannel, VerifierError};
use winter_math::{fft, FieldElement, StarkField};
use winter_utils::{ByteReader, Deserializable, Serializable, SliceReader};

// VIOLATION COLLECTOR
// ================================================================================================

pub struct Sweep {
    pub evals: u64,
    pub nontrivial: u64,
    pub viol: Vec<Violation>,
    pub more: Vec<(String, u64)>,
}

impl Sweep {
    pub fn new() -> Sweep {
        Sweep { evals: 0, nontrivial: 0, viol: vec![], more: vec![] }
    }
    pub fn fail(&mut self, class: String, key: String, detail: String, replay: Value) {
        if self.viol.iter().filter(|v| v.class == class).count() < 3 {
            self.viol.push(Violation { class, key, detail, replay });
        } else if let Some(m) = self.more.iter_mut().find(|(c, _)| *c == class) {
            m.1 += 1;
        } else {
            self.more.push((class, 1));
        }
    }
    pub fn absorb(&mut self, o: Sweep) {
        self.evals += o.evals;
        self.nontrivial += o.nontrivial;
        for v in o.viol {
            if self.viol.iter().filter(|x| x.class == v.class).count() < 3 {
                self.viol.push(v);
            } else if let Some(m) = self.more.iter_mut().find(|(c, _)| *c == v.class) {
                m.1 += 1;
            } else {
                self.more.push((v.class, 1));
            }
        }
        for (c, n) in o.more {
            if let Some(m) = self.more.iter_mut().find(|(x, _)| *x == c) {
                m.1 += n;
            } else {
                self.more.push((c, n));
            }
        }
    }
    pub fn into_report(self, name: &str, note: Value, report: &mut mck::Report) {
        report.part(name, self.evals, self.nontrivial, note);
        report.violations(self.viol);
        for (c, n) in self.more {
            report.count_more(&c, n);
        }
    }
}

// CONFIGURATION LATTICE
// ================================================================================================

pub const F64: u8 = 0;
pub const F128: u8 = 1;
pub const F62: u8 = 2;
pub const BLAKE3: u8 = 0;
/// Rp64_256 over f64, Rp62_248 over f62
pub const RESCUE: u8 = 1;
pub const SHA3: u8 = 2;

#[derive(Clone, Copy, PartialEq, Eq, PartialOrd, Ord, Debug)]
pub struct Cfg {
    pub field: u8,
    pub ext: u8,
    pub hasher: u8,
    pub blowup: usize,
    pub folding: usize,
    /// remainder max degree
    pub rem: usize,
    /// degree bound + 1
    pub n: usize,
}

#[derive(Clone, Copy, Debug)]
pub struct Shape {
    pub domain: usize,
    pub layers: usize,
    /// number of coefficients of the remainder polynomial = n / folding^layers
    pub rem_size: usize,
    /// size of the last (remainder) evaluation domain = domain / folding^layers
    pub last_domain: usize,
}

impl Cfg {
    pub fn field_name(&self) -> &'static str {
        ["f64", "f128", "f62"][self.field as usize]
    }
    pub fn hasher_name(&self) -> &'static str {
        match (self.hasher, self.field) {
            (BLAKE3, _) => "Blake3_256",
            (SHA3, _) => "Sha3_256",
            (RESCUE, F64) => "Rp64_256",
            (RESCUE, F62) => "Rp62_248",
            _ => "Rescue(unsupported)",
        }
    }
    pub fn key(&self) -> String {
        format!("{}/ext{}/{}/b{}/N{}/r{}/n{}", self.field_name(), self.ext, self.hasher_name(), self.blowup, self.folding, self.rem, self.n)
    }
    pub fn to_json(&self) -> Value {
        json!({"field": self.field_name(), "extension": self.ext, "hasher": self.hasher_name(), "blowup": self.blowup, "folding": self.folding,
               "remainder_max_degree": self.rem, "degree_bound_plus_1": self.n})
    }
    pub fn from_json(v: &Value) -> Option<Cfg> {
        let field = match v["field"].as_str()? {
            "f64" => F64,
            "f128" => F128,
            "f62" => F62,
            _ => return None,
        };
        let hasher = match v["hasher"].as_str()? {
            "Blake3_256" => BLAKE3,
            "Sha3_256" => SHA3,
            "Rp64_256" | "Rp62_248" => RESCUE,
            _ => return None,
        };
        Some(Cfg {
            field,
            ext: v["extension"].as_u64()? as u8,
            hasher,
            blowup: v["blowup"].as_u64()? as usize,
            folding: v["folding"].as_u64()? as usize,
            rem: v["remainder_max_degree"].as_u64()? as usize,
            n: v["degree_bound_plus_1"].as_u64()? as usize,
        })
    }
    /// documented two-adicity of the three base fields
    pub fn two_adicity(&self) -> u32 {
        [32, 40, 39][self.field as usize]
    }
    pub fn elem_bytes(&self) -> usize {
        [8, 16, 8][self.field as usize] * self.ext as usize
    }

    /// The validity predicate of the lattice: every clause is a documented constructor
    /// precondition (or, for the last two, the condition under which the documented protocol is
    /// defined at all). `Err` names the clause that excludes the point.
    pub fn shape(&self) -> Result<Shape, &'static str> {
        // the property quantifies over bounds with bound + 1 a power of two
        if !self.n.is_power_of_two() || self.n < 2 {
            return Err("degree bound + 1 is not a power of two");
        }
        // FriOptions::new: "Panics if blowup_factor is not a power of two / folding_factor is not 2, 4, 8, or 16"
        if !self.blowup.is_power_of_two() {
            return Err("FriOptions::new: blowup factor must be a power of two");
        }
        if ![2, 4, 8, 16].contains(&self.folding) {
            return Err("FriOptions::new: folding factor must be 2, 4, 8 or 16");
        }
        // extension / hasher availability
        match (self.field, self.ext) {
            (_, 1) | (_, 2) | (F64, 3) | (F62, 3) => {},
            (F128, 3) => return Err("cubic extension is not supported for f128 (ExtensibleField<3>::is_supported is false)"),
            _ => return Err("unknown extension degree"),
        }
        if self.hasher == RESCUE && self.field == F128 {
            return Err("no Rescue hasher over f128");
        }
        let domain = self.n * self.blowup;
        // DefaultProverChannel::new: "Panics if domain_size is smaller than 8 or is not a power of two"
        if domain < 8 {
            return Err("DefaultProverChannel::new: domain size must be at least 8");
        }
        // get_root_of_unity / fft: the field must contain a subgroup of the LDE domain size
        if domain.trailing_zeros() > self.two_adicity() {
            return Err("LDE domain larger than 2^two-adicity of the base field");
        }
        // number of layers by the documented rule: fold until the domain is not larger than
        // (remainder_max_degree + 1) * blowup_factor
        let mut d = domain;
        let mut layers = 0usize;
        while d > (self.rem + 1) * self.blowup {
            d /= self.folding;
            layers += 1;
        }
        // the degree must be divisible by the folding factor at every layer, i.e. the remainder
        // keeps at least one coefficient (FriVerifier::new documents DegreeTruncation for it; the
        // prover has no remainder to send)
        let shrink = (self.folding as u128).pow(layers as u32);
        if shrink > self.n as u128 {
            return Err("folding^layers exceeds degree bound + 1: the remainder would have no coefficient (degree truncation)");
        }
        let rem_size = self.n / shrink as usize;
        // FriProof stores the remainder behind a u16 byte count
        if rem_size * self.elem_bytes() > u16::MAX as usize {
            return Err("remainder does not fit the u16 byte count of FriProof");
        }
        Ok(Shape { domain, layers, rem_size, last_domain: domain / shrink as usize })
    }
}

/// Full value lists of every lattice dimension.
pub struct Lists {
    pub field: Vec<u8>,
    pub ext: Vec<u8>,
    pub hasher: Vec<u8>,
    pub blowup: Vec<usize>,
    pub folding: Vec<usize>,
    pub rem: Vec<usize>,
    pub n: Vec<usize>,
}

impl Lists {
    pub fn to_json(&self) -> Value {
        json!({"field": self.field.iter().map(|f| ["f64", "f128", "f62"][*f as usize]).collect::<Vec<_>>(), "extension": self.ext,
               "hasher": self.hasher.iter().map(|h| ["Blake3_256", "Rp64_256/Rp62_248", "Sha3_256"][*h as usize]).collect::<Vec<_>>(),
               "blowup": self.blowup, "folding": self.folding, "remainder_max_degree": self.rem, "degree_bound_plus_1": self.n})
    }
}

fn with_dim(base: &Cfg, dim: usize, idx: usize, l: &Lists) -> Option<Cfg> {
    let mut c = *base;
    match dim {
        0 => c.field = *l.field.get(idx)?,
        1 => c.ext = *l.ext.get(idx)?,
        2 => c.hasher = *l.hasher.get(idx)?,
        3 => c.blowup = *l.blowup.get(idx)?,
        4 => c.folding = *l.folding.get(idx)?,
        5 => c.rem = *l.rem.get(idx)?,
        6 => c.n = *l.n.get(idx)?,
        _ => return None,
    }
    Some(c)
}

fn dim_len(dim: usize, l: &Lists) -> usize {
    [l.field.len(), l.ext.len(), l.hasher.len(), l.blowup.len(), l.folding.len(), l.rem.len(), l.n.len()][dim]
}

/// Deviation-`dev` neighbourhood of `base`: every point that differs from `base` in at most
/// `dev` dimensions, each deviating dimension ranging over its whole list in `l`.
pub fn neighbourhood(base: &Cfg, l: &Lists, dev: usize, out: &mut BTreeSet<Cfg>) {
    out.insert(*base);
    if dev == 0 {
        return;
    }
    for d1 in 0..7 {
        for i in 0..dim_len(d1, l) {
            let c1 = with_dim(base, d1, i, l).unwrap();
            out.insert(c1);
            if dev >= 2 {
                for d2 in d1 + 1..7 {
                    for j in 0..dim_len(d2, l) {
                        let c2 = with_dim(&c1, d2, j, l).unwrap();
                        out.insert(c2);
                        if dev >= 3 {
                            for d3 in d2 + 1..7 {
                                for k in 0..dim_len(d3, l) {
                                    out.insert(with_dim(&c2, d3, k, l).unwrap());
                                }
                            }
                        }
                    }
                }
            }
        }
    }
}

// POLYNOMIAL ALPHABET
// ================================================================================================

#[derive(Clone, Debug, PartialEq, Eq, PartialOrd, Ord)]
pub enum Poly {
    Zero,
    One,
    /// x^k
    Mono(usize),
    /// `len` coefficients, every base-field component equal to p - 1
    AllMax(usize),
    /// `len` coefficients 1, 2, 3, … (extension components filled with 3j+4, 5j+7 so that the
    /// coefficients are proper extension elements)
    Counter(usize),
    /// `len` coefficients drawn from the payload generator (seed, len)
    Seeded(u64, usize),
}

impl Poly {
    pub fn to_json(&self) -> Value {
        match self {
            Poly::Zero => json!({"kind": "zero"}),
            Poly::One => json!({"kind": "one"}),
            Poly::Mono(k) => json!({"kind": "monomial", "k": k}),
            Poly::AllMax(l) => json!({"kind": "all p-1", "coefficients": l}),
            Poly::Counter(l) => json!({"kind": "counter", "coefficients": l}),
            Poly::Seeded(s, l) => json!({"kind": "seeded", "seed": s, "coefficients": l}),
        }
    }
    pub fn from_json(v: &Value) -> Option<Poly> {
        let l = || v["coefficients"].as_u64().map(|x| x as usize);
        Some(match v["kind"].as_str()? {
            "zero" => Poly::Zero,
            "one" => Poly::One,
            "monomial" => Poly::Mono(v["k"].as_u64()? as usize),
            "all p-1" => Poly::AllMax(l()?),
            "counter" => Poly::Counter(l()?),
            "seeded" => Poly::Seeded(v["seed"].as_u64()?, l()?),
            _ => return None,
        })
    }
    pub fn key(&self) -> String {
        match self {
            Poly::Zero => "0".into(),
            Poly::One => "1".into(),
            Poly::Mono(k) => format!("x^{k}"),
            Poly::AllMax(l) => format!("allmax{l}"),
            Poly::Counter(l) => format!("counter{l}"),
            Poly::Seeded(s, l) => format!("seeded{s}:{l}"),
        }
    }
    /// degree by construction (0 for the zero polynomial)
    pub fn degree(&self) -> usize {
        match self {
            Poly::Zero | Poly::One => 0,
            Poly::Mono(k) => *k,
            Poly::AllMax(l) | Poly::Counter(l) | Poly::Seeded(_, l) => l.saturating_sub(1),
        }
    }
    /// coefficients, lowest degree first
    pub fn coefficients<E: FieldElement>(&self) -> Vec<E> {
        match self {
            Poly::Zero => vec![],
            Poly::One => vec![E::ONE],
            Poly::Mono(k) => {
                let mut v = vec![E::ZERO; *k + 1];
                v[*k] = E::ONE;
                v
            },
            Poly::AllMax(l) => {
                let m = E::BaseField::ZERO - E::BaseField::ONE;
                vec![from_components::<E>(&vec![m; E::EXTENSION_DEGREE]); *l]
            },
            Poly::Counter(l) => (0..*l)
                .map(|j| {
                    let comps: Vec<E::BaseField> = (0..E::EXTENSION_DEGREE).map(|i| E::BaseField::from(((2 * i + 1) * (j + 1) + 3 * i) as u32)).collect();
                    from_components::<E>(&comps)
                })
                .collect(),
            Poly::Seeded(s, l) => {
                let mut rng = mck::Rng::new(*s);
                (0..*l).map(|_| seeded_element::<E>(&mut rng)).collect()
            },
        }
    }
}

pub fn from_components<E: FieldElement>(comps: &[E::BaseField]) -> E {
    assert_eq!(comps.len(), E::EXTENSION_DEGREE);
    E::slice_from_base_elements(comps)[0]
}

/// a payload element: every base component is built from 62 generator bits by small arithmetic
/// (no dependence on the field's byte decoding)
pub fn seeded_element<E: FieldElement>(rng: &mut mck::Rng) -> E {
    let comps: Vec<E::BaseField> = (0..E::EXTENSION_DEGREE)
        .map(|_| {
            let v = rng.next();
            let lo = E::BaseField::from((v & 0x7FFF_FFFF) as u32);
            let hi = E::BaseField::from(((v >> 31) & 0x7FFF_FFFF) as u32);
            lo + hi * E::BaseField::from(0x8000_0000u32)
        })
        .collect();
    from_components::<E>(&comps)
}

pub fn elem_string<E: FieldElement>(e: E) -> String {
    (0..E::EXTENSION_DEGREE).map(|i| format!("{}", e.base_element(i))).collect::<Vec<_>>().join(",")
}

/// The C08 alphabet for a bound n - 1.
pub fn alphabet(n: usize) -> Vec<Poly> {
    let mut v = vec![Poly::Zero, Poly::One];
    if n - 1 < 64 {
        for k in 1..n {
            v.push(Poly::Mono(k));
        }
    } else {
        let mut ks = vec![1, 2, n / 2 - 1, n / 2, n / 2 + 1, n - 3, n - 2, n - 1];
        ks.sort();
        ks.dedup();
        for k in ks {
            v.push(Poly::Mono(k));
        }
    }
    v.push(Poly::AllMax(n));
    v.push(Poly::Counter(n));
    // lower-degree polynomials: degree (n - 1) / 2 and degree n - 2
    v.push(Poly::Counter((n - 1) / 2 + 1));
    v.push(Poly::Counter(n - 1));
    let mut seen = BTreeSet::new();
    v.retain(|p| seen.insert(p.clone()));
    v
}

// EVALUATION OVER THE LDE COSET
// ================================================================================================

/// offset · g^i for i in 0..domain, by repeated multiplication
pub fn coset<B: StarkField>(domain: usize) -> Vec<B> {
    let g = B::get_root_of_unity(domain.trailing_zeros());
    let mut xs = Vec::with_capacity(domain);
    let mut x = B::GENERATOR;
    for _ in 0..domain {
        xs.push(x);
        x *= g;
    }
    xs
}

/// Σ c_j x^j term by term
pub fn eval_naive<E: FieldElement>(coeffs: &[E], x: E::BaseField) -> E {
    let mut acc = E::ZERO;
    let mut xp = E::BaseField::ONE;
    for c in coeffs {
        acc += *c * E::from(xp);
        xp *= x;
    }
    acc
}

pub const NAIVE_CAP: usize = 1 << 22;

/// Evaluations of the polynomial over the coset offset·<g> of size `domain`. Naive evaluation
/// (the independent route) when domain × coefficients ≤ NAIVE_CAP, winter_math's FFT otherwise
/// (then the values handed to the verifier are re-computed naively by the caller).
/// Returns (evaluations, used_fft).
pub fn evaluate<B: StarkField, E: FieldElement<BaseField = B>>(coeffs: &[E], domain: usize) -> (Vec<E>, bool) {
    if coeffs.is_empty() {
        return (vec![E::ZERO; domain], false);
    }
    if coeffs.len() * domain <= NAIVE_CAP {
        let xs = coset::<B>(domain);
        // monomials and other sparse vectors: skip leading zero coefficients via one power
        (xs.iter().map(|x| eval_naive(coeffs, *x)).collect(), false)
    } else {
        let len = coeffs.len().next_power_of_two();
        let mut p = coeffs.to_vec();
        p.resize(len, E::ZERO);
        let tw = fft::get_twiddles::<B>(len);
        (fft::evaluate_poly_with_offset(&p, &tw, B::GENERATOR, domain / len), true)
    }
}

// QUERY POSITIONS
// ================================================================================================

#[derive(Clone, Debug, PartialEq, Eq, PartialOrd, Ord)]
pub enum Pos {
    Explicit(Vec<usize>),
    /// `count` positions drawn by DefaultProverChannel::draw_query_positions(nonce) after the
    /// commit phase
    Drawn(usize, u64),
}

impl Pos {
    pub fn to_json(&self) -> Value {
        match self {
            Pos::Explicit(v) => json!({"explicit": v}),
            Pos::Drawn(c, n) => json!({"drawn": c, "nonce": n}),
        }
    }
    pub fn from_json(v: &Value) -> Option<Pos> {
        if let Some(a) = v["explicit"].as_array() {
            Some(Pos::Explicit(a.iter().map(|x| x.as_u64().unwrap() as usize).collect()))
        } else {
            Some(Pos::Drawn(v["drawn"].as_u64()? as usize, v["nonce"].as_u64()?))
        }
    }
    pub fn key(&self) -> String {
        match self {
            Pos::Explicit(v) => format!("{v:?}"),
            Pos::Drawn(c, n) => format!("drawn{c}@{n}"),
        }
    }
}

/// A small family present at every lattice point: extremes, middle, duplicates, unsorted,
/// positions colliding after one and after two foldings, a whole coset, and a full channel draw.
pub fn positions_small(domain: usize, folding: usize) -> Vec<Pos> {
    // folding may exceed the domain on remainder-only points; the families then degenerate
    let row = (domain / folding).max(1);
    let mut v = vec![
        Pos::Explicit(vec![0]),
        Pos::Explicit(vec![domain - 1]),
        Pos::Explicit(vec![domain / 2]),
        Pos::Explicit(vec![1 % row, 1 % row + row]),
        Pos::Explicit(vec![row - 1, domain - 1]),
        Pos::Explicit(vec![3, 3]),
        Pos::Explicit(vec![domain - 1, 0]),
        Pos::Explicit((0..folding).map(|j| 2 % row + j * row).collect()),
        Pos::Drawn(255.min(domain - 1), 0),
    ];
    if row / folding >= 1 && row >= folding {
        // distinct cosets at layer 0 that fold into one coset at layer 1
        v.push(Pos::Explicit(vec![1 % (row / folding), 1 % (row / folding) + row / folding]));
    }
    v.push(Pos::Explicit(vec![domain - 1, domain / 2, domain / 2, 0, 1]));
    for p in v.iter_mut() {
        if let Pos::Explicit(l) = p {
            l.retain(|x| *x < domain);
        }
    }
    v.retain(|p| !matches!(p, Pos::Explicit(l) if l.is_empty()));
    let mut seen = BTreeSet::new();
    v.retain(|p| seen.insert(p.clone()));
    v
}

/// every single position and every unordered pair (duplicates included)
pub fn positions_all_singles_pairs(domain: usize) -> Vec<Pos> {
    let mut v = vec![];
    for i in 0..domain {
        v.push(Pos::Explicit(vec![i]));
    }
    for i in 0..domain {
        for j in i..domain {
            v.push(Pos::Explicit(vec![i, j]));
        }
    }
    v
}

/// position-set statistics: (has duplicates, has a collision after the first folding between
/// distinct positions, number of distinct positions in the last layer)
pub fn position_stats(p: &[usize], cfg: &Cfg, sh: &Shape) -> (bool, bool, usize) {
    let set: BTreeSet<usize> = p.iter().copied().collect();
    let dup = set.len() < p.len();
    let row = (sh.domain / cfg.folding).max(1);
    let folded: BTreeSet<usize> = set.iter().map(|x| x % row).collect();
    let coll = sh.layers > 0 && folded.len() < set.len();
    let last: BTreeSet<usize> = set.iter().map(|x| x % sh.last_domain).collect();
    (dup, coll, last.len())
}

// DRIVERS
// ================================================================================================

pub fn options(cfg: &Cfg) -> FriOptions {
    FriOptions::new(cfg.blowup, cfg.folding, cfg.rem)
}

pub struct Proved<E: FieldElement, H: Hasher> {
    pub proof: FriProof,
    pub commitments: Vec<H::Digest>,
    pub positions: Vec<usize>,
    /// α of every layer (only filled by `prove_recording`)
    pub alphas: Vec<E>,
}

/// A prover channel that delegates to `DefaultProverChannel` and records the drawn α values.
pub struct RecChannel<E: FieldElement, H: ElementHasher<BaseField = E::BaseField>> {
    pub inner: DefaultProverChannel<E, H, DefaultRandomCoin<H>>,
    pub alphas: Vec<E>,
}

impl<E: FieldElement, H: ElementHasher<BaseField = E::BaseField>> ProverChannel<E> for RecChannel<E, H> {
    type Hasher = H;
    fn commit_fri_layer(&mut self, layer_root: H::Digest) {
        self.inner.commit_fri_layer(layer_root)
    }
    fn draw_fri_alpha(&mut self) -> E {
        let a = self.inner.draw_fri_alpha();
        self.alphas.push(a);
        a
    }
}

/// Commit phase + query phase of the real prover on `evals`, straight through
/// `DefaultProverChannel` (C08) — panics are caught and returned.
pub fn prove<B, E, H>(cfg: &Cfg, evals: &[E], pos: &Pos) -> Result<Proved<E, H>, Panicked>
where
    B: StarkField,
    E: FieldElement<BaseField = B>,
    H: ElementHasher<BaseField = B>,
{
    mck::catch(|| {
        let nq = match pos {
            Pos::Drawn(c, _) => *c,
            Pos::Explicit(p) => p.len().max(1),
        };
        let mut channel = DefaultProverChannel::<E, H, DefaultRandomCoin<H>>::new(evals.len(), nq);
        let mut prover = FriProver::<E, _, H, MerkleTree<H>>::new(options(cfg));
        prover.build_layers(&mut channel, evals.to_vec());
        let positions = match pos {
            Pos::Drawn(_, nonce) => channel.draw_query_positions(*nonce),
            Pos::Explicit(p) => p.clone(),
        };
        let proof = prover.build_proof(&positions);
        Proved { proof, commitments: channel.layer_commitments().to_vec(), positions, alphas: vec![] }
    })
}

/// Same, through the recording channel (C09 needs the α values to act as a prover that does not
/// follow the protocol).
pub fn prove_recording<B, E, H>(cfg: &Cfg, evals: &[E], pos: &Pos) -> Result<Proved<E, H>, Panicked>
where
    B: StarkField,
    E: FieldElement<BaseField = B>,
    H: ElementHasher<BaseField = B>,
{
    mck::catch(|| {
        let nq = match pos {
            Pos::Drawn(c, _) => *c,
            Pos::Explicit(p) => p.len().max(1),
        };
        let mut channel = RecChannel::<E, H> { inner: DefaultProverChannel::new(evals.len(), nq), alphas: vec![] };
        let mut prover = FriProver::<E, RecChannel<E, H>, H, MerkleTree<H>>::new(options(cfg));
        prover.build_layers(&mut channel, evals.to_vec());
        let positions = match pos {
            Pos::Drawn(_, nonce) => channel.inner.draw_query_positions(*nonce),
            Pos::Explicit(p) => p.clone(),
        };
        let proof = prover.build_proof(&positions);
        // one α per layer (the prover draws nothing after the remainder commitment)
        let alphas = channel.alphas.clone();
        Proved { proof, commitments: channel.inner.layer_commitments().to_vec(), positions, alphas }
    })
}

#[derive(Debug, Clone, PartialEq)]
pub enum Reject {
    /// DefaultVerifierChannel::new / FriProof parsing refused the proof
    Channel(String),
    /// FriVerifier::new returned an error
    New(VerifierError),
    /// FriVerifier::verify returned an error
    Verify(VerifierError),
}

impl Reject {
    /// short stable name: the error variant without its payload
    pub fn name(&self) -> String {
        let (p, s) = match self {
            Reject::Channel(_) => return "channel:DeserializationError".into(),
            Reject::New(e) => ("new", format!("{e:?}")),
            Reject::Verify(e) => ("verify", format!("{e:?}")),
        };
        format!("{p}:{}", s.split('(').next().unwrap())
    }
}

/// FriVerifier::new + verify over any channel.
pub fn run_verifier<B, E, H, C>(channel: &mut C, opts: FriOptions, max_degree: usize, evals: &[E], positions: &[usize]) -> Result<(), Reject>
where
    B: StarkField,
    E: FieldElement<BaseField = B>,
    H: ElementHasher<BaseField = B>,
    C: VerifierChannel<E, Hasher = H, VectorCommitment = MerkleTree<H>>,
{
    let mut coin = DefaultRandomCoin::<H>::new(&[]);
    let verifier = FriVerifier::<E, C, H, DefaultRandomCoin<H>, MerkleTree<H>>::new(channel, &mut coin, opts, max_degree).map_err(Reject::New)?;
    verifier.verify(channel, evals, positions).map_err(Reject::Verify)
}

/// The documented route: DefaultVerifierChannel::new(proof, commitments, domain, folding), then
/// FriVerifier::new + verify.
pub fn verify_default<B, E, H>(proof: FriProof, commitments: Vec<H::Digest>, channel_domain: usize, opts: FriOptions, max_degree: usize, evals: &[E], positions: &[usize]) -> Result<Result<(), Reject>, Panicked>
where
    B: StarkField,
    E: FieldElement<BaseField = B>,
    H: ElementHasher<BaseField = B>,
{
    mck::catch(|| {
        let mut channel = match DefaultVerifierChannel::<E, H, MerkleTree<H>>::new(proof, commitments, channel_domain, opts.folding_factor()) {
            Ok(c) => c,
            Err(e) => return Err(Reject::Channel(format!("{e}"))),
        };
        run_verifier::<B, E, H, _>(&mut channel, opts, max_degree, evals, positions)
    })
}

pub fn proof_to_bytes(p: &FriProof) -> Vec<u8> {
    let mut b = vec![];
    p.write_into(&mut b);
    b
}

/// FriProof::read_from on a slice reader; Ok((proof, reader exhausted))
pub fn proof_from_bytes(b: &[u8]) -> Result<Result<(FriProof, bool), String>, Panicked> {
    mck::catch(|| {
        let mut r = SliceReader::new(b);
        match FriProof::read_from(&mut r) {
            Ok(p) => Ok((p, !r.has_more_bytes())),
            Err(e) => Err(format!("{e}")),
        }
    })
}

// ATTACKER-CONTROLLED VERIFIER CHANNEL
// ================================================================================================

/// Everything a proof carries, as plain data the harness can edit. Implements only the
/// *required* accessors of `VerifierChannel` (what an attacker controls: proof contents and
/// commitments); the provided methods `read_layer_queries` and `read_remainder`, which hold the
/// library's commitment checks, are NOT overridden.
pub struct AdvChannel<E: FieldElement, H: ElementHasher<BaseField = E::BaseField>> {
    pub commitments: Vec<H::Digest>,
    pub proofs: Vec<BatchMerkleProof<H>>,
    pub queries: Vec<Vec<E>>,
    pub remainder: Vec<E>,
    pub partitions: usize,
    _h: PhantomData<H>,
}

impl<E: FieldElement, H: ElementHasher<BaseField = E::BaseField>> AdvChannel<E, H> {
    /// Parsed with the library's public parsers, exactly as DefaultVerifierChannel::new does.
    pub fn from_proof(proof: &FriProof, commitments: &[H::Digest], domain: usize, folding: usize) -> Result<Self, String> {
        let partitions = proof.num_partitions();
        let remainder = proof.parse_remainder::<E>().map_err(|e| format!("{e}"))?;
        let (queries, proofs) = proof.clone().parse_layers::<E, H, MerkleTree<H>>(domain, folding).map_err(|e| format!("{e}"))?;
        Ok(AdvChannel { commitments: commitments.to_vec(), proofs, queries, remainder, partitions, _h: PhantomData })
    }
}

impl<E: FieldElement, H: ElementHasher<BaseField = E::BaseField>> VerifierChannel<E> for AdvChannel<E, H> {
    type Hasher = H;
    type VectorCommitment = MerkleTree<H>;

    fn read_fri_num_partitions(&self) -> usize {
        self.partitions
    }
    fn read_fri_layer_commitments(&mut self) -> Vec<H::Digest> {
        self.commitments.drain(..).collect()
    }
    fn take_next_fri_layer_proof(&mut self) -> BatchMerkleProof<H> {
        self.proofs.remove(0)
    }
    fn take_next_fri_layer_queries(&mut self) -> Vec<E> {
        self.queries.remove(0)
    }
    fn take_fri_remainder(&mut self) -> Vec<E> {
        self.remainder.clone()
    }
}

pub fn panic_class(site: &str, p: &Panicked) -> String {
    format!("panic:{site}:{}", p.location)
}

// (field, extension, hasher) DISPATCH
// ================================================================================================

/// Calls `$f::<B, E, H>($args…)` for the type triple selected by `$cfg`.
#[macro_export]
macro_rules! dispatch {
    ($cfg:expr, $f:ident ( $($a:expr),* )) => {{
        use winter_crypto::hashers::{Blake3_256, Rp62_248, Rp64_256, Sha3_256};
        use winter_math::fields::{f128, f62, f64, CubeExtension, QuadExtension};
        type A = f64::BaseElement;
        type B = f128::BaseElement;
        type C = f62::BaseElement;
        match ($cfg.field, $cfg.ext, $cfg.hasher) {
            (0, 1, 0) => $f::<A, A, Blake3_256<A>>($($a),*),
            (0, 2, 0) => $f::<A, QuadExtension<A>, Blake3_256<A>>($($a),*),
            (0, 3, 0) => $f::<A, CubeExtension<A>, Blake3_256<A>>($($a),*),
            (0, 1, 1) => $f::<A, A, Rp64_256>($($a),*),
            (0, 2, 1) => $f::<A, QuadExtension<A>, Rp64_256>($($a),*),
            (0, 3, 1) => $f::<A, CubeExtension<A>, Rp64_256>($($a),*),
            (0, 1, 2) => $f::<A, A, Sha3_256<A>>($($a),*),
            (0, 2, 2) => $f::<A, QuadExtension<A>, Sha3_256<A>>($($a),*),
            (0, 3, 2) => $f::<A, CubeExtension<A>, Sha3_256<A>>($($a),*),
            (1, 1, 0) => $f::<B, B, Blake3_256<B>>($($a),*),
            (1, 2, 0) => $f::<B, QuadExtension<B>, Blake3_256<B>>($($a),*),
            (1, 1, 2) => $f::<B, B, Sha3_256<B>>($($a),*),
            (1, 2, 2) => $f::<B, QuadExtension<B>, Sha3_256<B>>($($a),*),
            (2, 1, 0) => $f::<C, C, Blake3_256<C>>($($a),*),
            (2, 2, 0) => $f::<C, QuadExtension<C>, Blake3_256<C>>($($a),*),
            (2, 3, 0) => $f::<C, CubeExtension<C>, Blake3_256<C>>($($a),*),
            (2, 1, 1) => $f::<C, C, Rp62_248>($($a),*),
            (2, 2, 1) => $f::<C, QuadExtension<C>, Rp62_248>($($a),*),
            (2, 3, 1) => $f::<C, CubeExtension<C>, Rp62_248>($($a),*),
            (2, 1, 2) => $f::<C, C, Sha3_256<C>>($($a),*),
            (2, 2, 2) => $f::<C, QuadExtension<C>, Sha3_256<C>>($($a),*),
            (2, 3, 2) => $f::<C, CubeExtension<C>, Sha3_256<C>>($($a),*),
            other => mck::report::machinery(&format!("no type instantiation for (field, extension, hasher) = {other:?}")),
        }
    }};
}
