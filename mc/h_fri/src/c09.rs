//! C09 — FRI soundness side: inputs that are not low degree and adversary moves on honest
//! transcripts must be rejected by `FriVerifier::new` / `verify` (never accepted, never a panic).
//!
//! Moves (each a `Move` below, re-executable from its replay record):
//!   a  every monomial x^k, bound < k < |domain|, presented under the bound by the real prover
//!   b  a dense pseudo-random function on the whole domain
//!   h  the same inputs, but the prover does not truncate: it sends (and commits to) the full
//!      interpolant of the last layer — only the remainder degree bound can reject
//!   c  a low-degree vector with one / two corrupted evaluations AT queried positions, either
//!      committed (the prover folds the corrupted vector) or only claimed to the verifier
//!   d  understated bound at verifier construction (three readings, see `Move::Understate*`)
//!   e  every single value of every queried coset of every layer → +1
//!   f0 every remainder coefficient → +1 (non-adaptive control: the folding check rejects)
//!   f  ADAPTIVE remainder: r' = r + c·∏(x − x_i) over the distinct last-layer query points,
//!      degree within the bound — agrees with every folded evaluation, so only the comparison
//!      of the remainder with its commitment can reject
//!   g  the same with the degree pushed above the bound (the degree bound also rejects)
//!   i  the last queried layer removed from the proof (structural inconsistency)
//!   k  ADAPTIVE layer values: for an input above the bound, one off-path sibling in every
//!      queried coset of the last layer is solved so that the folded value meets the committed
//!      (truncated) remainder — every folding check then passes, so only the comparison of the
//!      layer values with the layer commitment can reject
//!
//! Edited data is served through `AdvChannel`, which implements only the required accessors
//! of `VerifierChannel`; the provided `read_layer_queries` / `read_remainder` (the library's
//! checks) are untouched. The remainder forgery is additionally replayed through the library's
//! own `DefaultVerifierChannel` by editing the serialised `FriProof`.

use std::collections::{BTreeMap, BTreeSet};

use mck::{json, Args, Report, Value};
use winter_crypto::ElementHasher;
use winter_fri::{folding::apply_drp, FriOptions};
use winter_math::{fft, FieldElement, StarkField};
use winter_utils::{transpose_slice, ByteWriter};

use crate::common::*;
use crate::dispatch;

// INPUTS AND MOVES
// ================================================================================================

#[derive(Clone, Debug, PartialEq)]
enum Input {
    Poly(Poly),
    /// a function on the whole domain with values from the payload generator
    Random(u64),
}

impl Input {
    fn to_json(&self) -> Value {
        match self {
            Input::Poly(p) => json!({"poly": p.to_json()}),
            Input::Random(s) => json!({"random_function_seed": s}),
        }
    }
    fn from_json(v: &Value) -> Option<Input> {
        if let Some(s) = v["random_function_seed"].as_u64() {
            Some(Input::Random(s))
        } else {
            Some(Input::Poly(Poly::from_json(&v["poly"])?))
        }
    }
    fn key(&self) -> String {
        match self {
            Input::Poly(p) => p.key(),
            Input::Random(s) => format!("random{s}"),
        }
    }
}

#[derive(Clone, Debug, PartialEq)]
enum Move {
    /// a / b: present the prover's transcript as it is
    Present,
    /// h: full last-layer interpolant as remainder, committed consistently
    Untruncated,
    /// c: corrupt evaluations at the given queried positions before the commit phase
    CorruptCommitted { at: Vec<usize>, delta: u8 },
    /// c: claim corrupted evaluations at the given queried positions to the verifier only
    CorruptClaimed { at: Vec<usize>, delta: u8 },
    /// d: verifier told `max_degree` (same domain: next_power_of_two(max_degree) = n)
    UnderstateSameDomain { max_degree: usize },
    /// d: verifier told (n >> shift) − 1 with blowup << shift (same domain, lower rate claim)
    UnderstateHigherBlowup { shift: u32 },
    /// d: verifier told (n >> shift) − 1 with the same options (its domain shrinks; only the
    /// positions inside its domain are queried); the channel is parsed for the true domain or
    /// for the verifier's domain
    UnderstateSmallerDomain { shift: u32, channel_true_domain: bool },
    /// e
    LayerValue { layer: usize, index: usize },
    /// f0
    RemainderCoefficient { index: usize },
    /// f
    RemainderForgery { c: u8 },
    /// g
    RemainderOverDegree { c: u8 },
    /// n: a SHORTER remainder (every power-of-two length that can hold the distinct last-layer
    /// query points) that agrees with the committed one at every queried point
    RemainderShorter { c: u8 },
    /// i
    DropLastLayer,
    /// k
    LastLayerSolve,
}

impl Move {
    fn id(&self) -> &'static str {
        match self {
            Move::Present => "present",
            Move::Untruncated => "h",
            Move::CorruptCommitted { .. } => "c-committed",
            Move::CorruptClaimed { .. } => "c-claimed",
            Move::UnderstateSameDomain { .. } => "d-same-domain",
            Move::UnderstateHigherBlowup { .. } => "d-higher-blowup",
            Move::UnderstateSmallerDomain { .. } => "d-smaller-domain",
            Move::LayerValue { .. } => "e",
            Move::RemainderCoefficient { .. } => "f0",
            Move::RemainderForgery { .. } => "f",
            Move::RemainderOverDegree { .. } => "g",
            Move::RemainderShorter { .. } => "n",
            Move::DropLastLayer => "i",
            Move::LastLayerSolve => "k",
        }
    }
    fn to_json(&self) -> Value {
        match self {
            Move::Present | Move::Untruncated | Move::DropLastLayer | Move::LastLayerSolve => json!({"id": self.id()}),
            Move::CorruptCommitted { at, delta } | Move::CorruptClaimed { at, delta } => json!({"id": self.id(), "at": at, "delta": delta}),
            Move::UnderstateSameDomain { max_degree } => json!({"id": self.id(), "max_degree": max_degree}),
            Move::UnderstateHigherBlowup { shift } => json!({"id": self.id(), "shift": shift}),
            Move::UnderstateSmallerDomain { shift, channel_true_domain } => json!({"id": self.id(), "shift": shift, "channel_true_domain": channel_true_domain}),
            Move::LayerValue { layer, index } => json!({"id": self.id(), "layer": layer, "index": index}),
            Move::RemainderCoefficient { index } => json!({"id": self.id(), "index": index}),
            Move::RemainderForgery { c } | Move::RemainderOverDegree { c } | Move::RemainderShorter { c } => json!({"id": self.id(), "c": c}),
        }
    }
    fn from_json(v: &Value) -> Option<Move> {
        let u = |k: &str| v[k].as_u64();
        let at = || v["at"].as_array().map(|a| a.iter().map(|x| x.as_u64().unwrap() as usize).collect::<Vec<_>>());
        Some(match v["id"].as_str()? {
            "present" => Move::Present,
            "h" => Move::Untruncated,
            "i" => Move::DropLastLayer,
            "k" => Move::LastLayerSolve,
            "c-committed" => Move::CorruptCommitted { at: at()?, delta: u("delta")? as u8 },
            "c-claimed" => Move::CorruptClaimed { at: at()?, delta: u("delta")? as u8 },
            "d-same-domain" => Move::UnderstateSameDomain { max_degree: u("max_degree")? as usize },
            "d-higher-blowup" => Move::UnderstateHigherBlowup { shift: u("shift")? as u32 },
            "d-smaller-domain" => Move::UnderstateSmallerDomain { shift: u("shift")? as u32, channel_true_domain: v["channel_true_domain"].as_bool()? },
            "e" => Move::LayerValue { layer: u("layer")? as usize, index: u("index")? as usize },
            "f0" => Move::RemainderCoefficient { index: u("index")? as usize },
            "f" => Move::RemainderForgery { c: u("c")? as u8 },
            "n" => Move::RemainderShorter { c: u("c")? as u8 },
            "g" => Move::RemainderOverDegree { c: u("c")? as u8 },
            _ => return None,
        })
    }
}

#[derive(Clone, Copy, PartialEq, Eq, Debug)]
enum Group {
    /// a, b, h — inputs that are not low degree
    NotLowDegree,
    /// c
    Corrupt,
    /// d
    Understate,
    /// e, f0, f, g, i — edits of an honest transcript
    Edit,
}

// RAW PROOF BYTES (structural codec of FriProof, transcribed from its serialiser)
// ================================================================================================

#[derive(Clone, PartialEq, Debug)]
struct RawProof {
    layers: Vec<(Vec<u8>, Vec<u8>)>,
    remainder: Vec<u8>,
    partitions: u8,
}

impl RawProof {
    fn parse(b: &[u8]) -> Option<RawProof> {
        let mut p = 0usize;
        let take = |p: &mut usize, n: usize| -> Option<&[u8]> {
            let s = b.get(*p..*p + n)?;
            *p += n;
            Some(s)
        };
        let nl = take(&mut p, 1)?[0] as usize;
        let mut layers = vec![];
        for _ in 0..nl {
            let nv = u32::from_le_bytes(take(&mut p, 4)?.try_into().ok()?) as usize;
            let v = take(&mut p, nv)?.to_vec();
            let np = u32::from_le_bytes(take(&mut p, 4)?.try_into().ok()?) as usize;
            let q = take(&mut p, np)?.to_vec();
            layers.push((v, q));
        }
        let nr = u16::from_le_bytes(take(&mut p, 2)?.try_into().ok()?) as usize;
        let remainder = take(&mut p, nr)?.to_vec();
        let partitions = take(&mut p, 1)?[0];
        if p != b.len() {
            return None;
        }
        Some(RawProof { layers, remainder, partitions })
    }
    fn print(&self) -> Vec<u8> {
        let mut b = vec![self.layers.len() as u8];
        for (v, q) in &self.layers {
            b.extend((v.len() as u32).to_le_bytes());
            b.extend(v);
            b.extend((q.len() as u32).to_le_bytes());
            b.extend(q);
        }
        b.extend((self.remainder.len() as u16).to_le_bytes());
        b.extend(&self.remainder);
        b.push(self.partitions);
        b
    }
}

fn elements_to_bytes<E: FieldElement>(v: &[E]) -> Vec<u8> {
    let mut b: Vec<u8> = vec![];
    b.write_many(v);
    b
}

// OUTPUT OF ONE UNIT
// ================================================================================================

#[derive(Default)]
struct Out {
    parts: BTreeMap<&'static str, Sweep>,
    /// "<part> | <rejection reason>" → count
    reasons: BTreeMap<String, u64>,
    honest_validated: u64,
    honest_transcripts_multi_layer: u64,
    transitions: u64,
    states: u64,
    forgeries_built: u64,
    forgery_transcripts: u64,
    forgery_skipped_too_many_points: u64,
    forgeries_through_default_channel: u64,
    overdegree_built: u64,
    untruncated_built: u64,
    untruncated_skipped_not_overdegree: u64,
    layer_edits_on_path: u64,
    layer_edits_off_path: u64,
    corrupt_single: u64,
    corrupt_double: u64,
    codec_conformance: u64,
    solved_built: u64,
    solved_skipped_whole_coset_queried: u64,
    fold_formula_validated: u64,
}

impl Out {
    fn absorb(&mut self, o: Out) {
        for (k, s) in o.parts {
            self.parts.entry(k).or_insert_with(Sweep::new).absorb(s);
        }
        for (k, n) in o.reasons {
            *self.reasons.entry(k).or_insert(0) += n;
        }
        self.honest_validated += o.honest_validated;
        self.honest_transcripts_multi_layer += o.honest_transcripts_multi_layer;
        self.transitions += o.transitions;
        self.states += o.states;
        self.forgeries_built += o.forgeries_built;
        self.forgery_transcripts += o.forgery_transcripts;
        self.forgery_skipped_too_many_points += o.forgery_skipped_too_many_points;
        self.forgeries_through_default_channel += o.forgeries_through_default_channel;
        self.overdegree_built += o.overdegree_built;
        self.untruncated_built += o.untruncated_built;
        self.untruncated_skipped_not_overdegree += o.untruncated_skipped_not_overdegree;
        self.layer_edits_on_path += o.layer_edits_on_path;
        self.layer_edits_off_path += o.layer_edits_off_path;
        self.corrupt_single += o.corrupt_single;
        self.corrupt_double += o.corrupt_double;
        self.codec_conformance += o.codec_conformance;
        self.solved_built += o.solved_built;
        self.solved_skipped_whole_coset_queried += o.solved_skipped_whole_coset_queried;
        self.fold_formula_validated += o.fold_formula_validated;
    }
    fn part(&mut self, name: &'static str) -> &mut Sweep {
        self.parts.entry(name).or_insert_with(Sweep::new)
    }
}

const PART_A: &str = "a: monomial above the bound";
const PART_B: &str = "b: dense pseudo-random function";
const PART_H: &str = "h: untruncated remainder for a high-degree input";
const PART_C: &str = "c: corrupted evaluations at queried positions";
const PART_D: &str = "d: understated bound at verifier construction";
const PART_E: &str = "e: layer value substitution";
const PART_F0: &str = "f0: single remainder coefficient changed";
const PART_F: &str = "f: adaptive remainder substitution within the degree bound";
const PART_G: &str = "g: adaptive remainder substitution above the degree bound";
const PART_M: &str = "m: forged remainder offered with no layer commitments (emptied adversarial channel; second verifier on a drained default channel)";
const PART_N: &str = "n: shorter remainder agreeing with the committed one at every queried point";
const PART_I: &str = "i: last layer removed from the proof";
const PART_K: &str = "k: last-layer sibling solved to meet the committed remainder";

struct Ctx<'a> {
    cfg: &'a Cfg,
    input: &'a Input,
    seed: u64,
}

impl Ctx<'_> {
    fn replay(&self, positions: &[usize], mv: &Move) -> Value {
        json!({"kind": "c09", "cfg": self.cfg.to_json(), "input": self.input.to_json(), "positions": positions, "move": mv.to_json(), "seed": self.seed})
    }
    fn key(&self, positions: &[usize], mv: &Move) -> String {
        format!("{}/{}/{:?}/{}", self.cfg.key(), self.input.key(), positions, mv.to_json())
    }
}

/// Records the verdict on one forged / non-low-degree transcript.
fn judge(out: &mut Out, part: &'static str, accept_class: &str, cx: &Ctx, positions: &[usize], mv: &Move, what: &str, res: Result<Result<(), Reject>, mck::Panicked>) -> Option<Result<(), Reject>> {
    out.states += 1;
    out.transitions += 1;
    let s = out.part(part);
    s.evals += 1;
    match res {
        Err(p) => {
            s.fail(panic_class("verifier", &p), cx.key(positions, mv), format!("verifier side panicked at {} ({}) on: {what}; {}", p.location, p.message, cx.key(positions, mv)), cx.replay(positions, mv));
            None
        },
        Ok(Ok(())) => {
            s.nontrivial += 1;
            s.fail(accept_class.to_string(), cx.key(positions, mv), format!("ACCEPTED: {what}; {}", cx.key(positions, mv)), cx.replay(positions, mv));
            Some(Ok(()))
        },
        Ok(Err(r)) => {
            if !matches!(r, Reject::Channel(_)) {
                s.nontrivial += 1;
            }
            *out.reasons.entry(format!("{part} | {}", r.name())).or_insert(0) += 1;
            Some(Err(r))
        },
    }
}

fn delta<E: FieldElement>(kind: u8, seed: u64) -> E {
    match kind {
        0 => E::ONE,
        _ => {
            let mut rng = mck::Rng::new(seed ^ 0xD17A);
            let mut e: E = seeded_element(&mut rng);
            if e == E::ZERO {
                e = E::ONE;
            }
            e
        },
    }
}

fn forge_constant<E: FieldElement>(kind: u8, seed: u64) -> E {
    match kind {
        0 => E::ONE,
        1 => -E::ONE,
        _ => delta::<E>(1, seed ^ 0xF0F0),
    }
}

/// distinct positions in first-appearance order after reduction modulo `m` (the documented
/// fold_positions rule, written independently)
fn fold_in_order(p: &[usize], m: usize) -> Vec<usize> {
    let mut v: Vec<usize> = vec![];
    for x in p {
        if !v.contains(&(x % m)) {
            v.push(x % m);
        }
    }
    v
}

/// last-layer evaluations of a malicious prover's view: the commit phase replayed with the
/// recorded α values (construction of an adversarial input — no oracle role)
fn last_layer<B: StarkField, E: FieldElement<BaseField = B>>(evals: &[E], alphas: &[E], folding: usize) -> Vec<E> {
    let mut cur = evals.to_vec();
    for a in alphas {
        cur = match folding {
            2 => apply_drp(&transpose_slice::<E, 2>(&cur), B::GENERATOR, *a),
            4 => apply_drp(&transpose_slice::<E, 4>(&cur), B::GENERATOR, *a),
            8 => apply_drp(&transpose_slice::<E, 8>(&cur), B::GENERATOR, *a),
            _ => apply_drp(&transpose_slice::<E, 16>(&cur), B::GENERATOR, *a),
        };
    }
    cur
}

/// c · x^shift · ∏ (x − r) , lowest degree first, by schoolbook multiplication
fn vanishing<E: FieldElement>(roots: &[E::BaseField], c: E, shift: usize) -> Vec<E> {
    let mut p: Vec<E> = vec![c];
    for r in roots {
        let mut q = vec![E::ZERO; p.len() + 1];
        for (i, a) in p.iter().enumerate() {
            q[i + 1] += *a;
            q[i] -= *a * E::from(*r);
        }
        p = q;
    }
    let mut out = vec![E::ZERO; shift];
    out.extend(p);
    out
}

/// L_j(α) = ∏_{m≠j} (α − x_m)/(x_j − x_m), by definition
fn lagrange_at<E: FieldElement>(xs: &[E::BaseField], j: usize, alpha: E) -> E {
    let mut num = E::ONE;
    let mut den = E::BaseField::ONE;
    for (m, x) in xs.iter().enumerate() {
        if m != j {
            num *= alpha - E::from(*x);
            den *= xs[j] - *x;
        }
    }
    num * E::from(den.inv())
}

/// For the last FRI layer of a transcript: per queried coset (in the library's order) the
/// positions of the coset members in that layer's domain, the value the coset folds to under α
/// (interpolate the N points, evaluate at α — by definition), and the last-layer point it must
/// match.
struct LastLayerView<E: FieldElement> {
    /// positions queried in this layer
    layer_positions: Vec<usize>,
    row: usize,
    folded_positions: Vec<usize>,
    lagrange: Vec<Vec<E>>,
    folds: Vec<E>,
    last_points: Vec<E::BaseField>,
}

fn last_layer_view<B: StarkField, E: FieldElement<BaseField = B>>(positions: &[usize], domain: usize, folding: usize, layers: usize, values: &[E], alpha: E) -> LastLayerView<E> {
    let mut cur = positions.to_vec();
    let mut d = domain;
    for _ in 0..layers - 1 {
        cur = fold_in_order(&cur, d / folding);
        d /= folding;
    }
    let row = d / folding;
    let folded = fold_in_order(&cur, row);
    let xs = coset::<B>(d);
    let xs_last = coset::<B>(row);
    let mut lagrange = vec![];
    let mut folds = vec![];
    for (ci, &fp) in folded.iter().enumerate() {
        let pts: Vec<B> = (0..folding).map(|j| xs[fp + j * row]).collect();
        let lag: Vec<E> = (0..folding).map(|j| lagrange_at::<E>(&pts, j, alpha)).collect();
        let mut f = E::ZERO;
        for j in 0..folding {
            f += values[ci * folding + j] * lag[j];
        }
        lagrange.push(lag);
        folds.push(f);
    }
    LastLayerView { layer_positions: cur, row, last_points: folded.iter().map(|&p| xs_last[p]).collect(), folded_positions: folded, lagrange, folds }
}

// ONE TRANSCRIPT
// ================================================================================================

/// Builds the transcript for (cfg, input, positions) with the real prover and applies `moves`
/// (or, when `moves` is None, every move of `group` that applies to this transcript).
fn transcript<B, E, H>(cfg: &Cfg, input: &Input, pos: &Pos, group: Group, moves: Option<&[Move]>, seed: u64, thorough: bool) -> Out
where
    B: StarkField,
    E: FieldElement<BaseField = B>,
    H: ElementHasher<BaseField = B>,
{
    let mut out = Out::default();
    let sh = cfg.shape().expect("only valid points are scheduled");
    let cx = Ctx { cfg, input, seed };
    let n = cfg.n;
    let domain = sh.domain;
    let low_degree = matches!(input, Input::Poly(p) if p.degree() < n);
    let evals: Vec<E> = match input {
        Input::Poly(p) => evaluate::<B, E>(&p.coefficients::<E>(), domain).0,
        Input::Random(s) => {
            let mut rng = mck::Rng::new(*s);
            (0..domain).map(|_| seeded_element::<E>(&mut rng)).collect()
        },
    };
    let (in_part, in_class) = match input {
        Input::Poly(_) => (PART_A, "accepted:high-degree-input"),
        Input::Random(_) => (PART_B, "accepted:random-function"),
    };

    // ---- the prover's transcript -----------------------------------------------------------
    let proved = match prove_recording::<B, E, H>(cfg, &evals, pos) {
        Ok(p) => p,
        Err(p) => {
            let s = out.part(if low_degree { PART_E } else { in_part });
            s.evals += 1;
            let mv = Move::Present;
            s.fail(panic_class("prover", &p), cx.key(&[], &mv), format!("FriProver panicked at {} ({}) on {}", p.location, p.message, cx.key(&[], &mv)), json!({"kind": "c09", "cfg": cfg.to_json(), "input": input.to_json(), "positions": pos.to_json(), "move": mv.to_json(), "seed": seed}));
            return out;
        },
    };
    let positions = proved.positions.clone();
    let qvals: Vec<E> = positions.iter().map(|&p| evals[p]).collect();
    let opts = || options(cfg);
    let distinct: Vec<usize> = fold_in_order(&positions, domain);

    // structural codec conformance on the prover's bytes
    let bytes = proof_to_bytes(&proved.proof);
    let raw = match RawProof::parse(&bytes) {
        Some(r) if r.print() == bytes => r,
        _ => mck::report::machinery(&format!("harness FriProof codec does not reproduce the prover's bytes for {}", cx.key(&positions, &Move::Present))),
    };
    out.codec_conformance += 1;

    if low_degree {
        // honest transcript: must verify through the library's channel AND through AdvChannel
        let a = verify_default::<B, E, H>(proved.proof.clone(), proved.commitments.clone(), domain, opts(), n - 1, &qvals, &positions);
        let b = mck::catch(|| {
            let mut ch = AdvChannel::<E, H>::from_proof(&proved.proof, &proved.commitments, domain, cfg.folding).map_err(Reject::Channel)?;
            run_verifier::<B, E, H, _>(&mut ch, opts(), n - 1, &qvals, &positions)
        });
        match (&a, &b) {
            (Ok(Ok(())), Ok(Ok(()))) => {
                out.honest_validated += 1;
                out.honest_transcripts_multi_layer += (sh.layers >= 2) as u64;
                // the harness's by-definition folding of the last layer must land on the honest
                // remainder (validates the formula move k relies on)
                if sh.layers >= 1 {
                    let ch = AdvChannel::<E, H>::from_proof(&proved.proof, &proved.commitments, domain, cfg.folding).unwrap_or_else(|e| mck::report::machinery(&e));
                    let view = last_layer_view::<B, E>(&positions, domain, cfg.folding, sh.layers, &ch.queries[sh.layers - 1], proved.alphas[sh.layers - 1]);
                    let r_lo: Vec<E> = ch.remainder.iter().rev().copied().collect();
                    for (f, x) in view.folds.iter().zip(&view.last_points) {
                        if *f != eval_naive(&r_lo, *x) {
                            mck::report::machinery(&format!("C09: harness folding of the last layer does not meet the honest remainder for {}", cx.key(&positions, &Move::Present)));
                        }
                    }
                    out.fold_formula_validated += 1;
                }
            },
            _ => {
                let s = out.part(PART_E);
                s.evals += 1;
                s.fail("rejected:honest-proof".into(), cx.key(&positions, &Move::Present), format!("honest transcript not accepted before any edit (DefaultVerifierChannel: {a:?}; AdvChannel: {b:?}); {}", cx.key(&positions, &Move::Present)), cx.replay(&positions, &Move::Present));
                return out;
            },
        }
    }

    // ---- which moves ------------------------------------------------------------------------
    let generated: Vec<Move>;
    let moves: &[Move] = match moves {
        Some(m) => m,
        None => {
            let mut v = vec![];
            match group {
                Group::NotLowDegree => {
                    v.push(Move::Present);
                    v.push(Move::Untruncated);
                    if sh.layers >= 1 {
                        v.push(Move::LastLayerSolve);
                    }
                },
                Group::Corrupt => {
                    let cap = if thorough { 12 } else { 6 };
                    let at: Vec<usize> = if distinct.len() <= cap {
                        distinct.clone()
                    } else {
                        let mut a: Vec<usize> = distinct[..cap / 2].to_vec();
                        a.extend(&distinct[distinct.len() - cap / 2..]);
                        a
                    };
                    for &x in &at {
                        for d in 0..2u8 {
                            v.push(Move::CorruptCommitted { at: vec![x], delta: d });
                            v.push(Move::CorruptClaimed { at: vec![x], delta: d });
                        }
                    }
                    for i in 0..at.len() {
                        for j in i + 1..at.len() {
                            v.push(Move::CorruptCommitted { at: vec![at[i], at[j]], delta: 0 });
                            v.push(Move::CorruptClaimed { at: vec![at[i], at[j]], delta: 1 });
                        }
                    }
                },
                Group::Understate => {
                    let mut ds = vec![n - 2, n.saturating_sub(3), 3 * n / 4 - 1, n / 2 + 1, n / 2];
                    ds.retain(|d| *d >= 1 && (*d).next_power_of_two() == n && *d < n - 1);
                    ds.sort();
                    ds.dedup();
                    for d in ds {
                        v.push(Move::UnderstateSameDomain { max_degree: d });
                    }
                    for shift in 1..=3u32 {
                        if n >> shift >= 4 {
                            v.push(Move::UnderstateHigherBlowup { shift });
                            v.push(Move::UnderstateSmallerDomain { shift, channel_true_domain: true });
                            v.push(Move::UnderstateSmallerDomain { shift, channel_true_domain: false });
                        }
                    }
                },
                Group::Edit => {
                    let mut cur = positions.clone();
                    let mut d = domain;
                    for layer in 0..sh.layers {
                        let cosets = fold_in_order(&cur, d / cfg.folding).len();
                        for index in 0..cosets * cfg.folding {
                            v.push(Move::LayerValue { layer, index });
                        }
                        cur = fold_in_order(&cur, d / cfg.folding);
                        d /= cfg.folding;
                    }
                    for index in 0..sh.rem_size {
                        v.push(Move::RemainderCoefficient { index });
                    }
                    for c in 0..3u8 {
                        v.push(Move::RemainderForgery { c });
                    }
                    v.push(Move::RemainderOverDegree { c: 2 });
                    v.push(Move::RemainderShorter { c: 1 });
                    if sh.layers >= 1 {
                        v.push(Move::DropLastLayer);
                    }
                },
            }
            generated = v;
            &generated
        },
    };

    // last-layer points of the queried positions
    let last_positions: Vec<usize> = fold_in_order(&positions, sh.last_domain);
    let last_xs: Vec<B> = {
        let xs = coset::<B>(sh.last_domain);
        last_positions.iter().map(|&p| xs[p]).collect()
    };
    let mut forged_any = false;
    let mut skipped_any = false;

    for mv in moves {
        match mv {
            // ---- a / b -----------------------------------------------------------------------
            Move::Present => {
                let res = verify_default::<B, E, H>(proved.proof.clone(), proved.commitments.clone(), domain, opts(), n - 1, &qvals, &positions);
                judge(&mut out, in_part, in_class, &cx, &positions, mv, "the real prover's transcript for an input above the degree bound", res);
            },
            // ---- h ---------------------------------------------------------------------------
            Move::Untruncated => {
                let mut last = last_layer::<B, E>(&evals, &proved.alphas, cfg.folding);
                if last.len() != sh.last_domain {
                    mck::report::machinery("C09 move h: replayed commit phase has the wrong last-layer size");
                }
                if last.len() == 1 {
                    // a 1-point last layer cannot happen on valid points (blowup >= 2)
                    continue;
                }
                let inv_tw = fft::get_inv_twiddles::<B>(last.len());
                fft::interpolate_poly_with_offset(&mut last, &inv_tw, B::GENERATOR);
                // the honest remainder is the truncation of this interpolant (replication check)
                let trunc: Vec<E> = last[..sh.rem_size].iter().rev().copied().collect();
                let mut ch = match AdvChannel::<E, H>::from_proof(&proved.proof, &proved.commitments, domain, cfg.folding) {
                    Ok(c) => c,
                    Err(e) => mck::report::machinery(&format!("C09 move h: prover's own proof does not parse: {e}")),
                };
                if trunc != ch.remainder {
                    mck::report::machinery(&format!("C09 move h: replayed commit phase does not reproduce the prover's remainder for {}", cx.key(&positions, mv)));
                }
                if last[sh.rem_size..].iter().all(|c| *c == E::ZERO) {
                    out.untruncated_skipped_not_overdegree += 1;
                    continue;
                }
                let served: Vec<E> = last.iter().rev().copied().collect();
                let k = ch.commitments.len() - 1;
                ch.commitments[k] = H::hash_elements(&served);
                ch.remainder = served;
                out.untruncated_built += 1;
                let (o, q, p) = (opts(), qvals.clone(), positions.clone());
                let res = mck::catch(move || run_verifier::<B, E, H, _>(&mut ch, o, n - 1, &q, &p));
                judge(&mut out, PART_H, "accepted:overdegree-remainder", &cx, &positions, mv, "input above the bound; remainder = full interpolant of the last layer (degree above the bound), committed consistently", res);
            },
            // ---- c ---------------------------------------------------------------------------
            Move::CorruptCommitted { at, delta: dk } => {
                let mut ev = evals.clone();
                for (i, &x) in at.iter().enumerate() {
                    ev[x] += delta::<E>(*dk, seed.wrapping_add(i as u64));
                }
                if at.len() == 1 {
                    out.corrupt_single += 1;
                } else {
                    out.corrupt_double += 1;
                }
                let res = match prove::<B, E, H>(cfg, &ev, &Pos::Explicit(positions.clone())) {
                    Err(p) => Err(p),
                    Ok(pr) => {
                        let q: Vec<E> = positions.iter().map(|&p| ev[p]).collect();
                        verify_default::<B, E, H>(pr.proof, pr.commitments, domain, opts(), n - 1, &q, &positions)
                    },
                };
                judge(&mut out, PART_C, "accepted:corrupted-committed-evaluation", &cx, &positions, mv, "low-degree vector with corrupted evaluations at queried positions, committed and folded by the real prover", res);
            },
            Move::CorruptClaimed { at, delta: dk } => {
                let mut q = qvals.clone();
                for (i, &x) in at.iter().enumerate() {
                    for (j, &p) in positions.iter().enumerate() {
                        if p == x {
                            q[j] += delta::<E>(*dk, seed.wrapping_add(i as u64));
                        }
                    }
                }
                if at.len() == 1 {
                    out.corrupt_single += 1;
                } else {
                    out.corrupt_double += 1;
                }
                let res = verify_default::<B, E, H>(proved.proof.clone(), proved.commitments.clone(), domain, opts(), n - 1, &q, &positions);
                judge(&mut out, PART_C, "accepted:corrupted-claimed-evaluation", &cx, &positions, mv, "honest proof, but the evaluations claimed at queried positions differ from the committed ones", res);
            },
            // ---- d ---------------------------------------------------------------------------
            Move::UnderstateSameDomain { max_degree } => {
                let res = verify_default::<B, E, H>(proved.proof.clone(), proved.commitments.clone(), domain, opts(), *max_degree, &qvals, &positions);
                judge(&mut out, PART_D, "accepted:understated-bound", &cx, &positions, mv, "polynomial of degree n-1, verifier constructed with a smaller max degree (same domain)", res);
            },
            Move::UnderstateHigherBlowup { shift } => {
                let vo = FriOptions::new(cfg.blowup << shift, cfg.folding, cfg.rem);
                let res = verify_default::<B, E, H>(proved.proof.clone(), proved.commitments.clone(), domain, vo, (n >> shift) - 1, &qvals, &positions);
                judge(&mut out, PART_D, "accepted:understated-bound", &cx, &positions, mv, "polynomial of degree n-1, verifier constructed for degree (n >> shift) - 1 at blowup << shift (same domain)", res);
            },
            Move::UnderstateSmallerDomain { shift, channel_true_domain } => {
                let vdomain = (n >> shift) * cfg.blowup;
                let ps: Vec<usize> = positions.iter().copied().filter(|p| *p < vdomain).collect();
                if ps.is_empty() {
                    continue;
                }
                let q: Vec<E> = ps.iter().map(|&p| evals[p]).collect();
                let res = verify_default::<B, E, H>(proved.proof.clone(), proved.commitments.clone(), if *channel_true_domain { domain } else { vdomain }, opts(), (n >> shift) - 1, &q, &ps);
                judge(&mut out, PART_D, "accepted:understated-bound", &cx, &positions, mv, "polynomial of degree n-1, verifier constructed for degree (n >> shift) - 1 with the same options (queries restricted to its smaller domain)", res);
            },
            // ---- e ---------------------------------------------------------------------------
            Move::LayerValue { layer, index } => {
                let mut ch = match AdvChannel::<E, H>::from_proof(&proved.proof, &proved.commitments, domain, cfg.folding) {
                    Ok(c) => c,
                    Err(e) => mck::report::machinery(&format!("C09 move e: prover's own proof does not parse: {e}")),
                };
                if *layer >= ch.queries.len() || *index >= ch.queries[*layer].len() {
                    mck::report::machinery(&format!("C09 move e: no value {index} in layer {layer} of {}", cx.key(&positions, mv)));
                }
                ch.queries[*layer][*index] += E::ONE;
                // statistics: is the edited value itself a queried evaluation of that layer?
                {
                    let mut cur = positions.clone();
                    let mut d = domain;
                    for _ in 0..*layer {
                        cur = fold_in_order(&cur, d / cfg.folding);
                        d /= cfg.folding;
                    }
                    let row = d / cfg.folding;
                    let folded = fold_in_order(&cur, row);
                    let p = folded[*index / cfg.folding] + (*index % cfg.folding) * row;
                    if cur.contains(&p) {
                        out.layer_edits_on_path += 1;
                    } else {
                        out.layer_edits_off_path += 1;
                    }
                }
                let (o, q, p) = (opts(), qvals.clone(), positions.clone());
                let res = mck::catch(move || run_verifier::<B, E, H, _>(&mut ch, o, n - 1, &q, &p));
                judge(&mut out, PART_E, "accepted:layer-value-substitution", &cx, &positions, mv, "one revealed layer value differs from the committed one", res);
            },
            // ---- f0 --------------------------------------------------------------------------
            Move::RemainderCoefficient { index } => {
                let mut ch = AdvChannel::<E, H>::from_proof(&proved.proof, &proved.commitments, domain, cfg.folding).unwrap_or_else(|e| mck::report::machinery(&e));
                ch.remainder[*index] += E::ONE;
                let (o, q, p) = (opts(), qvals.clone(), positions.clone());
                let res = mck::catch(move || run_verifier::<B, E, H, _>(&mut ch, o, n - 1, &q, &p));
                judge(&mut out, PART_F0, "accepted:remainder-coefficient-change", &cx, &positions, mv, "one remainder coefficient differs from the committed remainder (not adapted to the queries)", res);
            },
            // ---- f / g -----------------------------------------------------------------------
            Move::RemainderForgery { c } | Move::RemainderOverDegree { c } => {
                let over = matches!(mv, Move::RemainderOverDegree { .. });
                let mut ch = AdvChannel::<E, H>::from_proof(&proved.proof, &proved.commitments, domain, cfg.folding).unwrap_or_else(|e| mck::report::machinery(&e));
                let rs = ch.remainder.len();
                let t = last_xs.len();
                let target_len = if over { (2 * rs).max((t + 1).next_power_of_two()) } else { rs };
                if t + 1 > target_len {
                    // more distinct last-layer points than free coefficients: no colluding
                    // remainder within the bound exists
                    skipped_any = true;
                    continue;
                }
                let cval: E = forge_constant(*c, seed ^ mck::fnv(cfg.key().as_bytes()));
                // remainder is sent highest degree first
                let r_lo: Vec<E> = ch.remainder.iter().rev().copied().collect();
                let z = vanishing::<E>(&last_xs, cval, if over { target_len - 1 - t } else { 0 });
                let mut f_lo = vec![E::ZERO; target_len];
                for (i, v) in r_lo.iter().enumerate() {
                    f_lo[i] += *v;
                }
                for (i, v) in z.iter().enumerate() {
                    f_lo[i] += *v;
                }
                // certificate (naive, harness-side): the forged remainder differs from the
                // committed one, respects the length it claims, and agrees with it — hence with
                // every folded evaluation the library checked on the honest transcript — at every
                // queried last-layer point
                let agrees = last_xs.iter().all(|x| eval_naive(&f_lo, *x) == eval_naive(&r_lo, *x));
                let differs = f_lo.iter().zip(r_lo.iter().chain(std::iter::repeat(&E::ZERO))).any(|(a, b)| a != b);
                if !agrees || !differs || (over && f_lo[target_len - 1] == E::ZERO) {
                    mck::report::machinery(&format!("C09 move {}: forged remainder is mis-built (agrees at query points: {agrees}, differs from original: {differs}) for {}", mv.id(), cx.key(&positions, mv)));
                }
                let served: Vec<E> = f_lo.iter().rev().copied().collect();
                ch.remainder = served.clone();
                let (o, q, p) = (opts(), qvals.clone(), positions.clone());
                let res = mck::catch(move || run_verifier::<B, E, H, _>(&mut ch, o, n - 1, &q, &p));
                let what = format!("remainder replaced by r + c·x^s·∏(x − x_i) over the {t} distinct last-layer query points (c = {}, {} coefficients for a bound of {rs}); it agrees with every folded evaluation{}",
                    elem_string(cval), target_len, if over { " but exceeds the degree bound" } else { " and respects the degree bound, so only the comparison with the remainder commitment can reject it" });
                if over {
                    out.overdegree_built += 1;
                    judge(&mut out, PART_G, "accepted:remainder-substitution-above-bound", &cx, &positions, mv, &what, res);
                } else {
                    out.forgeries_built += 1;
                    forged_any = true;
                    // the same forgery through the library's own channel: edit the serialised proof
                    let mut raw2 = raw.clone();
                    raw2.remainder = elements_to_bytes(&served);
                    let res2 = match proof_from_bytes(&raw2.print()) {
                        Ok(Ok((pf, true))) => verify_default::<B, E, H>(pf, proved.commitments.clone(), domain, opts(), n - 1, &qvals, &positions),
                        other => mck::report::machinery(&format!("C09 move f: edited FriProof bytes do not decode: {other:?}")),
                    };
                    out.forgeries_through_default_channel += 1;
                    let same = match (&res, &res2) {
                        (Ok(a), Ok(b)) => a.as_ref().map_err(|r| r.name()) == b.as_ref().map_err(|r| r.name()),
                        (Err(_), Err(_)) => true,
                        _ => false,
                    };
                    if !same {
                        mck::report::machinery(&format!("C09 move f: AdvChannel and DefaultVerifierChannel disagree on the same forged remainder ({res:?} vs {res2:?}) for {}", cx.key(&positions, mv)));
                    }
                    // m: the same forgery when the verifier holds NO commitments: (1) the adversarial
                    // channel hands out an empty commitment list, (2) a second FriVerifier is built on a
                    // default channel whose commitments a first one has already taken. The remainder is
                    // then bound to nothing; the only sound outcomes are an error (or a panic, which is
                    // recorded but not judged here: both call sequences are outside the protocol)
                    {
                        let mut ch2 = AdvChannel::<E, H>::from_proof(&proved.proof, &proved.commitments, domain, cfg.folding).unwrap_or_else(|e| mck::report::machinery(&e));
                        ch2.commitments.clear();
                        ch2.remainder = served.clone();
                        let (o, q, pz) = (opts(), qvals.clone(), positions.clone());
                        let r1 = mck::catch(move || run_verifier::<B, E, H, _>(&mut ch2, o, n - 1, &q, &pz));
                        let r2 = match proof_from_bytes(&raw2.print()) {
                            Ok(Ok((pf, true))) => {
                                let (o, q, pz, cm) = (opts(), qvals.clone(), positions.clone(), proved.commitments.clone());
                                mck::catch(move || {
                                    use winter_crypto::{DefaultRandomCoin, MerkleTree, RandomCoin};
                                    use winter_fri::{DefaultVerifierChannel, FriVerifier};
                                    let mut channel = match DefaultVerifierChannel::<E, H, MerkleTree<H>>::new(pf, cm, domain, o.folding_factor()) {
                                        Ok(c) => c,
                                        Err(e) => return Err(Reject::Channel(format!("{e}"))),
                                    };
                                    let mut coin = DefaultRandomCoin::<H>::new(&[]);
                                    let _first = FriVerifier::<E, _, H, DefaultRandomCoin<H>, MerkleTree<H>>::new(&mut channel, &mut coin, o.clone(), n - 1);
                                    run_verifier::<B, E, H, _>(&mut channel, o, n - 1, &q, &pz)
                                })
                            },
                            other => mck::report::machinery(&format!("C09 move m: edited FriProof bytes do not decode: {other:?}")),
                        };
                        for (route, r) in [("emptied adversarial channel", r1), ("second verifier on a drained default channel", r2)] {
                            out.states += 1;
                            out.transitions += 1;
                            let sp = out.part(PART_M);
                            sp.evals += 1;
                            sp.nontrivial += 1;
                            match r {
                                Ok(Ok(())) => sp.fail("accepted:remainder-substitution:no-commitments".into(), cx.key(&positions, mv), format!("ACCEPTED ({route}): {what}; {}", cx.key(&positions, mv)), cx.replay(&positions, mv)),
                                Ok(Err(rj)) => *out.reasons.entry(format!("{PART_M} | {}", rj.name())).or_insert(0) += 1,
                                Err(_) => *out.reasons.entry(format!("{PART_M} | panic (call sequence outside the protocol; not judged)")).or_insert(0) += 1,
                            }
                        }
                    }
                    match judge(&mut out, PART_F, "accepted:remainder-substitution", &cx, &positions, mv, &what, res2) {
                        Some(Err(r)) if !r.name().contains("RemainderCommitmentMismatch") => {
                            // a correctly built forgery can only be caught by the commitment
                            // comparison; any other rejection means the move is mis-built
                            mck::report::machinery(&format!("C09 move f: forged remainder rejected by {r:?}, not by the commitment comparison — the move is mis-built for {}", cx.key(&positions, mv)));
                        },
                        _ => {},
                    }
                }
            },
            // ---- n ---------------------------------------------------------------------------
            Move::RemainderShorter { c } => {
                let base = AdvChannel::<E, H>::from_proof(&proved.proof, &proved.commitments, domain, cfg.folding).unwrap_or_else(|e| mck::report::machinery(&e));
                let rs = base.remainder.len();
                let t = last_xs.len();
                let r_lo: Vec<E> = base.remainder.iter().rev().copied().collect();
                // the interpolant of the committed remainder through the queried last-layer points
                let mut interp = vec![E::ZERO; t];
                for j in 0..t {
                    // L_j(x) = prod_{m != j} (x - x_m) / (x_j - x_m), expanded
                    let others: Vec<B> = last_xs.iter().enumerate().filter(|(m, _)| *m != j).map(|(_, x)| *x).collect();
                    let mut den = B::ONE;
                    for x in &others {
                        den *= last_xs[j] - *x;
                    }
                    let yj = eval_naive(&r_lo, last_xs[j]);
                    let lj = vanishing::<E>(&others, yj * E::from(den.inv()), 0);
                    for (i, v) in lj.iter().enumerate() {
                        interp[i] += *v;
                    }
                }
                let cval: E = forge_constant(*c, seed ^ mck::fnv(cfg.key().as_bytes()));
                let mut len = t.next_power_of_two().max(1);
                let mut built = false;
                while len < rs {
                    let mut f_lo = vec![E::ZERO; len];
                    for (i, v) in interp.iter().enumerate() {
                        f_lo[i] += *v;
                    }
                    if len > t {
                        for (i, v) in vanishing::<E>(&last_xs, cval, len - 1 - t).iter().enumerate() {
                            f_lo[i] += *v;
                        }
                    }
                    let agrees = last_xs.iter().all(|x| eval_naive(&f_lo, *x) == eval_naive(&r_lo, *x));
                    if !agrees {
                        mck::report::machinery(&format!("C09 move n: shorter remainder is mis-built for {}", cx.key(&positions, mv)));
                    }
                    // the same polynomial as the committed one (its high coefficients are zero) is not a substitution
                    let differs = (0..rs).any(|i| r_lo[i] != f_lo.get(i).copied().unwrap_or(E::ZERO));
                    if differs {
                        built = true;
                        let served: Vec<E> = f_lo.iter().rev().copied().collect();
                        let what = format!("remainder of {rs} coefficients replaced by one of {len} coefficients that agrees with it at the {t} distinct last-layer query points (hence with every folded evaluation) and is within the degree bound: only the comparison with the remainder commitment can reject it");
                        let mut ch = AdvChannel::<E, H>::from_proof(&proved.proof, &proved.commitments, domain, cfg.folding).unwrap_or_else(|e| mck::report::machinery(&e));
                        ch.remainder = served.clone();
                        let (o, q, pz) = (opts(), qvals.clone(), positions.clone());
                        let res = mck::catch(move || run_verifier::<B, E, H, _>(&mut ch, o, n - 1, &q, &pz));
                        judge(&mut out, PART_N, "accepted:remainder-substitution:shorter", &cx, &positions, mv, &what, res);
                        let mut raw2 = raw.clone();
                        raw2.remainder = elements_to_bytes(&served);
                        let res2 = match proof_from_bytes(&raw2.print()) {
                            Ok(Ok((pf, true))) => verify_default::<B, E, H>(pf, proved.commitments.clone(), domain, opts(), n - 1, &qvals, &positions),
                            // a remainder length the proof format refuses is a rejection at decode time
                            Ok(Ok((_, false))) | Ok(Err(_)) => Ok(Err(Reject::Channel("FriProof bytes with the shorter remainder do not decode".into()))),
                            Err(p) => Err(p),
                        };
                        judge(&mut out, PART_N, "accepted:remainder-substitution:shorter", &cx, &positions, mv, &what, res2);
                    }
                    len *= 2;
                }
                if !built {
                    skipped_any = true;
                }
            },
            // ---- k ---------------------------------------------------------------------------
            Move::LastLayerSolve => {
                if sh.layers == 0 {
                    continue;
                }
                let mut ch = AdvChannel::<E, H>::from_proof(&proved.proof, &proved.commitments, domain, cfg.folding).unwrap_or_else(|e| mck::report::machinery(&e));
                let l = sh.layers - 1;
                let view = last_layer_view::<B, E>(&positions, domain, cfg.folding, sh.layers, &ch.queries[l], proved.alphas[l]);
                let r_lo: Vec<E> = ch.remainder.iter().rev().copied().collect();
                let mut changed = false;
                let mut blocked = false;
                for (ci, &fp) in view.folded_positions.iter().enumerate() {
                    let target = eval_naive(&r_lo, view.last_points[ci]);
                    if target == view.folds[ci] {
                        continue;
                    }
                    match (0..cfg.folding).find(|j| !view.layer_positions.contains(&(fp + j * view.row))) {
                        None => blocked = true,
                        Some(jf) => {
                            ch.queries[l][ci * cfg.folding + jf] += (target - view.folds[ci]) / view.lagrange[ci][jf];
                            changed = true;
                        },
                    }
                }
                if blocked || !changed {
                    out.solved_skipped_whole_coset_queried += blocked as u64;
                    continue;
                }
                out.solved_built += 1;
                let (o, q, p) = (opts(), qvals.clone(), positions.clone());
                let res = mck::catch(move || run_verifier::<B, E, H, _>(&mut ch, o, n - 1, &q, &p));
                judge(&mut out, PART_K, "accepted:layer-value-substitution", &cx, &positions, mv, "input above the bound; in every queried coset of the last layer one sibling off the query path is replaced so that the coset folds onto the committed remainder — only the layer commitment can reject", res);
            },
            // ---- i ---------------------------------------------------------------------------
            Move::DropLastLayer => {
                if raw.layers.is_empty() {
                    continue;
                }
                let mut raw2 = raw.clone();
                raw2.layers.pop();
                let res = match proof_from_bytes(&raw2.print()) {
                    Ok(Ok((pf, true))) => verify_default::<B, E, H>(pf, proved.commitments.clone(), domain, opts(), n - 1, &qvals, &positions),
                    Ok(Ok((_, false))) => mck::report::machinery("C09 move i: edited bytes not consumed"),
                    Ok(Err(e)) => Ok(Err(Reject::Channel(e))),
                    Err(p) => Err(p),
                };
                judge(&mut out, PART_I, "accepted:missing-layer", &cx, &positions, mv, "the proof lacks its last queried layer (commitments unchanged)", res);
            },
        }
    }
    if forged_any {
        out.forgery_transcripts += 1;
    }
    if skipped_any {
        out.forgery_skipped_too_many_points += 1;
    }
    out
}

fn dispatch_transcript(cfg: &Cfg, input: &Input, pos: &Pos, group: Group, moves: Option<&[Move]>, seed: u64, thorough: bool) -> Out {
    dispatch!(cfg, transcript(cfg, input, pos, group, moves, seed, thorough))
}

// ENUMERATION
// ================================================================================================

struct Unit {
    cfg: Cfg,
    group: Group,
    input: Input,
    positions: Vec<Pos>,
}

fn lists(thorough: bool) -> Lists {
    Lists {
        field: vec![F64, F128, F62],
        ext: vec![1, 2, 3],
        hasher: vec![BLAKE3, RESCUE, SHA3],
        blowup: vec![2, 4, 8, 16],
        folding: vec![2, 4, 8, 16],
        rem: vec![0, 1, 3, 7, 15],
        n: if thorough { vec![8, 16, 32, 64, 128, 256] } else { vec![8, 16, 32, 64, 128] },
    }
}

fn reduced_lists() -> Lists {
    Lists { field: vec![F64, F128, F62], ext: vec![1, 2, 3], hasher: vec![BLAKE3, RESCUE], blowup: vec![2, 8], folding: vec![2, 4, 16], rem: vec![0, 3, 7], n: vec![8, 32, 128] }
}

fn bases() -> Vec<Cfg> {
    vec![
        // 64-point domain, three layers, 2 remainder coefficients
        Cfg { field: F64, ext: 1, hasher: BLAKE3, blowup: 4, folding: 2, rem: 1, n: 16 },
        // 64-point domain, two layers of folding 4, 2 remainder coefficients, quadratic extension
        Cfg { field: F128, ext: 2, hasher: BLAKE3, blowup: 2, folding: 4, rem: 1, n: 32 },
        // 64-point domain, two layers, 8 remainder coefficients over a 16-point last layer: room
        // for colluding remainders through up to 7 distinct last-layer points
        Cfg { field: F64, ext: 2, hasher: BLAKE3, blowup: 2, folding: 2, rem: 7, n: 32 },
    ]
}

/// position multisets of the C09 lattice
fn positions_c09(domain: usize, folding: usize, thorough: bool) -> Vec<Pos> {
    let row = (domain / folding).max(1);
    let mut v: Vec<Pos> = positions_small(domain, folding).into_iter().filter(|p| matches!(p, Pos::Explicit(_))).collect();
    for c in [2usize, 3, 7, 32] {
        if c < domain {
            v.push(Pos::Drawn(c, 0));
        }
    }
    if domain <= 64 || (thorough && domain <= 128) {
        for i in 0..domain {
            v.push(Pos::Explicit(vec![i]));
        }
        for i in 0..row {
            if i + row < domain {
                v.push(Pos::Explicit(vec![i, i + row]));
            }
        }
    }
    if thorough && domain <= 32 {
        for i in 0..domain {
            for j in i + 1..domain {
                v.push(Pos::Explicit(vec![i, j]));
            }
        }
    }
    let mut seen = BTreeSet::new();
    v.retain(|p| seen.insert(p.clone()));
    v
}

fn high_monomials(n: usize, domain: usize) -> Vec<usize> {
    if domain <= 128 {
        (n..domain).collect()
    } else {
        let mut ks = vec![n, n + 1, 2 * n - 1, 2 * n, domain / 2, domain - 2, domain - 1];
        ks.retain(|k| *k >= n && *k < domain);
        ks.sort();
        ks.dedup();
        ks
    }
}

pub fn run(args: &Args) {
    let mut report = Report::new(args, "model_checking");
    if let Some(v) = args.replay_value() {
        return replay(args, &v, report);
    }
    let thorough = args.tier == mck::Tier::Thorough;
    let full = lists(thorough);
    let reduced = reduced_lists();
    let bases = bases();
    let mut points: BTreeSet<Cfg> = BTreeSet::new();
    for b in &bases {
        neighbourhood(b, &full, 1, &mut points);
        if thorough {
            neighbourhood(b, &reduced, 2, &mut points);
        }
    }
    let mut excluded: BTreeMap<&'static str, u64> = BTreeMap::new();
    let mut valid: Vec<Cfg> = vec![];
    for c in &points {
        match c.shape() {
            Ok(_) => valid.push(*c),
            Err(r) => *excluded.entry(r).or_insert(0) += 1,
        }
    }

    let mut units: Vec<Unit> = vec![];
    for cfg in &valid {
        let sh = cfg.shape().unwrap();
        let n = cfg.n;
        let pos = positions_c09(sh.domain, cfg.folding, thorough);
        // a, b, h
        let pos_a: Vec<Pos> = {
            let mut v = positions_small(sh.domain, cfg.folding);
            if sh.domain <= 64 {
                v.extend((0..sh.domain).map(|i| Pos::Explicit(vec![i])));
            }
            let mut seen = BTreeSet::new();
            v.retain(|p| seen.insert(p.clone()));
            v
        };
        for k in high_monomials(n, sh.domain) {
            units.push(Unit { cfg: *cfg, group: Group::NotLowDegree, input: Input::Poly(Poly::Mono(k)), positions: pos_a.clone() });
        }
        for r in 0..(if thorough { 4 } else { 2 }) {
            units.push(Unit { cfg: *cfg, group: Group::NotLowDegree, input: Input::Random(args.seed.wrapping_mul(1000003).wrapping_add(r)), positions: pos_a.clone() });
        }
        // c, e/f/g/i on honest transcripts of two polynomials of exact degree n - 1
        for poly in [Poly::Counter(n), Poly::Seeded(args.seed ^ 0xC09, n)] {
            for chunk in pos.chunks(40) {
                units.push(Unit { cfg: *cfg, group: Group::Edit, input: Input::Poly(poly.clone()), positions: chunk.to_vec() });
            }
        }
        for chunk in pos.chunks(40) {
            units.push(Unit { cfg: *cfg, group: Group::Corrupt, input: Input::Poly(Poly::Counter(n)), positions: chunk.to_vec() });
        }
        // d
        let pos_d: Vec<Pos> = positions_small(sh.domain, cfg.folding);
        for poly in [Poly::Mono(n - 1), Poly::Counter(n), Poly::AllMax(n)] {
            units.push(Unit { cfg: *cfg, group: Group::Understate, input: Input::Poly(poly), positions: pos_d.clone() });
        }
    }

    let seed = args.seed;
    let results = mck::par_map(units.len(), |i| {
        let u = &units[i];
        let mut o = Out::default();
        for p in &u.positions {
            // a panic that escapes the per-call guards is a harness failure, never a verdict
            let t = mck::catch(|| dispatch_transcript(&u.cfg, &u.input, p, u.group, None, seed, thorough))
                .unwrap_or_else(|e| mck::report::machinery(&format!("harness panicked at {} ({}) in {}/{}/{}", e.location, e.message, u.cfg.key(), u.input.key(), p.key())));
            o.absorb(t);
        }
        o
    });
    let mut total = Out::default();
    for o in results {
        total.absorb(o);
    }

    // ---- report ----------------------------------------------------------------------------
    let reasons = total.reasons.clone();
    let parts = std::mem::take(&mut total.parts);
    for (name, s) in parts {
        let r: BTreeMap<String, u64> = reasons.iter().filter(|(k, _)| k.starts_with(name)).map(|(k, v)| (k[name.len() + 3..].to_string(), *v)).collect();
        s.into_report(name, json!({"rejection_reasons": r}), &mut report);
    }
    report.states = Some(total.states);
    report.transitions = Some(total.transitions);
    report.traces_validated = Some(total.honest_validated);
    report.extra.insert("lattice".into(), json!({"points_enumerated": points.len(), "valid_points": valid.len(), "excluded_by_predicate": excluded, "work_units": units.len()}));
    report.extra.insert("non_vacuity".into(), json!({
        "honest_transcripts_verified_before_editing (DefaultVerifierChannel and AdvChannel)": total.honest_validated,
        "of_which_with_two_or_more_layers": total.honest_transcripts_multi_layer,
        "f_forged_remainders_built": total.forgeries_built,
        "f_transcripts_with_a_forgery": total.forgery_transcripts,
        "f_transcripts_skipped_more_query_points_than_free_coefficients": total.forgery_skipped_too_many_points,
        "f_forgeries_also_replayed_through_FriProof_bytes_and_DefaultVerifierChannel": total.forgeries_through_default_channel,
        "g_overdegree_remainders_built": total.overdegree_built,
        "h_untruncated_remainders_built": total.untruncated_built,
        "h_skipped_last_layer_not_above_bound": total.untruncated_skipped_not_overdegree,
        "e_edits_of_a_queried_value": total.layer_edits_on_path,
        "e_edits_of_a_sibling_off_the_query_path": total.layer_edits_off_path,
        "c_single_corruptions": total.corrupt_single,
        "c_double_corruptions": total.corrupt_double,
        "prover_byte_strings_reproduced_by_the_harness_codec": total.codec_conformance,
        "k_solved_last_layers_built": total.solved_built,
        "k_skipped_a_whole_coset_was_queried": total.solved_skipped_whole_coset_queried,
        "honest_transcripts_on_which_the_harness_folding_formula_met_the_remainder": total.fold_formula_validated,
    }));
    report.sample(json!({"move": "f", "cfg": bases[2].to_json(), "input": Poly::Counter(32).to_json(), "positions": [5, 21], "what": "r' = r + c·(x − x_5) (5 and 21 fold to the same last-layer point 5 of 16); must be rejected with RemainderCommitmentMismatch"}));
    report.sample(json!({"move": "e", "cfg": bases[0].to_json(), "positions": [9], "layer": 1, "index": 1, "what": "sibling of the queried value in layer 1 → +1; must be rejected (LayerCommitmentMismatch)"}));
    report.sample(json!({"move": "a", "cfg": bases[0].to_json(), "input": Poly::Mono(16).to_json(), "positions": [0], "what": "x^16 under the bound 15; must be rejected"}));
    report.sample(json!({"move": "d-same-domain", "cfg": bases[0].to_json(), "input": Poly::Mono(15).to_json(), "max_degree": 14, "what": "verifier told degree 14 for x^15; must be rejected"}));
    report.exhaustive = true;
    report.bounds = json!({
        "bases": bases.iter().map(|b| b.to_json()).collect::<Vec<_>>(),
        "deviation_1_lists": full.to_json(),
        "deviation_2_lists": if thorough { reduced.to_json() } else { Value::Null },
        "a": "every k with bound < k < |domain| when |domain| <= 128, else {n, n+1, 2n-1, 2n, |domain|/2, |domain|-2, |domain|-1}; positions: small family (+ every single position when |domain| <= 64)",
        "b": format!("{} pseudo-random functions per configuration (payload from --seed)", if thorough { 4 } else { 2 }),
        "c": "honest counter polynomial; every queried position (first/last 3 (quick) or 6 (thorough) when more) × delta in {1, seeded} × {committed, claimed only}; every pair of those positions",
        "d": "x^(n-1), counter, all p-1; same-domain bounds {n-2, n-3, 3n/4-1, n/2+1}; (n>>s)-1 at blowup<<s and at unchanged options for s in 1..=3",
        "e/f0/f/g/i": "honest transcripts of the counter and a seeded polynomial of degree n-1 for: small family, channel draws of 2/3/7/32 positions, every single position and every colliding pair (i, i+|domain|/folding) when |domain| <= 64 (thorough: <= 128, plus every pair when <= 32); e = every layer × every queried coset × every value; f = c in {1, p-1, seeded} whenever #distinct last-layer points < #remainder coefficients",
    });
    report.rule = "one case per (configuration, input, position multiset, move instance); states = forged / non-low-degree transcripts shown to the verifier, transitions = adversary moves applied (one per state), traces validated = honest transcripts accepted through both channel implementations before being edited; non-trivial = the transcript reached FriVerifier::new (was not refused by proof parsing)".into();
    report.assumptions = vec![
        "rejections hold up to hash collisions and a Schwartz–Zippel error below 2^-50 (deterministic per instance)".into(),
        "AdvChannel overrides only the required accessors of VerifierChannel (commitments, layer queries, layer proofs, remainder, partitions); the provided read_layer_queries / read_remainder are the library's".into(),
        "move d (smaller verifier domain) queries only positions inside the verifier's domain, as FriVerifier::verify documents".into(),
    ];
    report.finish(args)
}

fn replay(args: &Args, v: &Value, mut report: Report) {
    let parsed = (|| {
        let cfg = Cfg::from_json(&v["cfg"])?;
        let input = Input::from_json(&v["input"])?;
        let pos = if v["positions"].is_array() { Pos::Explicit(v["positions"].as_array()?.iter().map(|x| x.as_u64().unwrap() as usize).collect()) } else { Pos::from_json(&v["positions"])? };
        let mv = Move::from_json(&v["move"])?;
        Some((cfg, input, pos, mv, v["seed"].as_u64().unwrap_or(args.seed)))
    })();
    let Some((cfg, input, pos, mv, seed)) = parsed else { mck::report::machinery("C09 replay record needs cfg, input, positions, move") };
    if let Err(e) = cfg.shape() {
        mck::report::machinery(&format!("C09 replay: configuration outside the validity predicate: {e}"));
    }
    let mut out = dispatch_transcript(&cfg, &input, &pos, Group::Edit, Some(&[mv]), seed, false);
    let reasons = out.reasons.clone();
    for (name, s) in std::mem::take(&mut out.parts) {
        s.into_report(name, json!({"rejection_reasons": reasons, "case": v}), &mut report);
    }
    report.states = Some(out.states);
    report.transitions = Some(out.transitions);
    report.traces_validated = Some(out.honest_validated);
    report.rule = "replay of one recorded case".into();
    report.finish(args)
}
