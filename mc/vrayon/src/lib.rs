//! vrayon — a controlled scheduler for data-parallel regions (engine E3).
//!
//! A crate *named* `rayon` implementing the subset of its API that winterfell uses. A parallel
//! region materialises its tasks and runs them **one at a time, in an order chosen by the
//! controller**; `current_num_threads()` returns the controller's thread count (which decides
//! winterfell's batch sizes); `find_any` returns the k-th match, k chosen by the controller.
//! Without a controller everything runs in submission order with one thread.
//!
//! Tasks are atomic: winterfell's tasks contain no synchronisation, so there is no scheduling
//! point inside a task a cooperative scheduler could preempt at (DESIGN.md section 4, E3).

use std::cell::RefCell;

pub mod prelude {
    pub use crate::{IndexedParallelIterator, IntoParallelIterator, IntoParallelRefIterator, IntoParallelRefMutIterator, ParallelIterator, ParallelSlice, ParallelSliceMut};
}
pub mod iter {
    pub use crate::{IndexedParallelIterator, IntoParallelIterator, IntoParallelRefIterator, IntoParallelRefMutIterator, Par, ParallelIterator};
}
pub mod slice {
    pub use crate::{ParallelSlice, ParallelSliceMut};
}
pub mod vec {
    pub type IntoIter<T> = crate::Par<std::vec::IntoIter<T>>;
}

// CONTROLLER
// ================================================================================================

/// An execution order for the m tasks of a region.
#[derive(Clone, Debug, PartialEq, Eq)]
pub enum Order {
    Submission,
    Reverse,
    /// rotate left by k
    Rotate(usize),
    /// swap tasks i and i + 1
    Transpose(usize),
    Perm(Vec<usize>),
}

impl Order {
    pub fn apply(&self, m: usize) -> Vec<usize> {
        let mut v: Vec<usize> = (0..m).collect();
        match self {
            Order::Submission => {},
            Order::Reverse => v.reverse(),
            Order::Rotate(k) => {
                if m > 0 {
                    v.rotate_left(k % m)
                }
            },
            Order::Transpose(i) => {
                if i + 1 < m {
                    v.swap(*i, i + 1)
                }
            },
            Order::Perm(p) => {
                assert_eq!(p.len(), m, "vrayon: permutation of the wrong length");
                v = p.clone();
            },
        }
        v
    }
}

#[derive(Clone, Debug, PartialEq, Eq)]
pub struct Region {
    /// sequence number of the region within the run
    pub id: usize,
    pub kind: &'static str,
    /// number of tasks
    pub tasks: usize,
}

pub struct Controller {
    pub threads: usize,
    /// decides the order of a region (called once per region, in program order)
    pub decide: Box<dyn FnMut(&Region) -> Order>,
    /// decides which match `find_any` returns (0 = the first)
    pub find_k: usize,
    /// log of every region met
    pub log: Vec<Region>,
    /// total number of task executions
    pub task_runs: u64,
}

impl Controller {
    pub fn new(threads: usize, decide: Box<dyn FnMut(&Region) -> Order>) -> Controller {
        Controller { threads, decide, find_k: 0, log: vec![], task_runs: 0 }
    }
}

thread_local! {
    static CTL: RefCell<Option<Controller>> = const { RefCell::new(None) };
}

/// Installs a controller for the current OS thread, runs `f`, removes and returns it.
pub fn with_controller<R>(c: Controller, f: impl FnOnce() -> R) -> (R, Controller) {
    CTL.with(|x| *x.borrow_mut() = Some(c));
    let r = f();
    let c = CTL.with(|x| x.borrow_mut().take()).expect("vrayon: controller vanished");
    (r, c)
}

fn order_for(kind: &'static str, tasks: usize) -> Vec<usize> {
    CTL.with(|x| {
        let mut b = x.borrow_mut();
        match b.as_mut() {
            None => (0..tasks).collect(),
            Some(c) => {
                let r = Region { id: c.log.len(), kind, tasks };
                let o = (c.decide)(&r);
                c.log.push(r);
                c.task_runs += tasks as u64;
                let v = o.apply(tasks);
                debug_assert!({
                    let mut s = v.clone();
                    s.sort();
                    s == (0..tasks).collect::<Vec<_>>()
                });
                v
            },
        }
    })
}

pub fn current_num_threads() -> usize {
    CTL.with(|x| x.borrow().as_ref().map(|c| c.threads).unwrap_or(1))
}

/// Runs `f` on every item, in controller order. Items are materialised first.
fn run_region<T, F: FnMut(T)>(kind: &'static str, items: Vec<T>, mut f: F) {
    let order = order_for(kind, items.len());
    let mut slots: Vec<Option<T>> = items.into_iter().map(Some).collect();
    for i in order {
        f(slots[i].take().expect("vrayon: task scheduled twice"));
    }
}

// PARALLEL ITERATOR
// ================================================================================================

/// The only parallel iterator type: a sequential iterator whose *terminal* operations run their
/// per-item work as one region under the controller.
pub struct Par<I: Iterator>(pub I);

/// marker traits so that `use rayon::prelude::*` and bounds written against them keep compiling
pub trait ParallelIterator {}
pub trait IndexedParallelIterator {}
impl<I: Iterator> ParallelIterator for Par<I> {}
impl<I: Iterator> IndexedParallelIterator for Par<I> {}

pub trait IntoParallelIterator {
    type Seq: Iterator<Item = Self::Item>;
    type Item;
    fn into_par_iter(self) -> Par<Self::Seq>;
}

impl<I: Iterator> IntoParallelIterator for Par<I> {
    type Seq = I;
    type Item = I::Item;
    fn into_par_iter(self) -> Par<I> {
        self
    }
}
impl<T> IntoParallelIterator for Vec<T> {
    type Seq = std::vec::IntoIter<T>;
    type Item = T;
    fn into_par_iter(self) -> Par<Self::Seq> {
        Par(self.into_iter())
    }
}
impl<'a, T> IntoParallelIterator for &'a Vec<T> {
    type Seq = std::slice::Iter<'a, T>;
    type Item = &'a T;
    fn into_par_iter(self) -> Par<Self::Seq> {
        Par(self.iter())
    }
}
impl<'a, T> IntoParallelIterator for &'a mut Vec<T> {
    type Seq = std::slice::IterMut<'a, T>;
    type Item = &'a mut T;
    fn into_par_iter(self) -> Par<Self::Seq> {
        Par(self.iter_mut())
    }
}
impl<'a, T> IntoParallelIterator for &'a [T] {
    type Seq = std::slice::Iter<'a, T>;
    type Item = &'a T;
    fn into_par_iter(self) -> Par<Self::Seq> {
        Par(self.iter())
    }
}
impl<'a, T> IntoParallelIterator for &'a mut [T] {
    type Seq = std::slice::IterMut<'a, T>;
    type Item = &'a mut T;
    fn into_par_iter(self) -> Par<Self::Seq> {
        Par(self.iter_mut())
    }
}
impl<'a, T, const N: usize> IntoParallelIterator for &'a [T; N] {
    type Seq = std::slice::Iter<'a, T>;
    type Item = &'a T;
    fn into_par_iter(self) -> Par<Self::Seq> {
        Par(self.iter())
    }
}
macro_rules! range_impl {
    ($($t:ty),*) => {$(
        impl IntoParallelIterator for std::ops::Range<$t> {
            type Seq = std::ops::Range<$t>;
            type Item = $t;
            fn into_par_iter(self) -> Par<Self::Seq> {
                Par(self)
            }
        }
    )*};
}
range_impl!(u32, u64, usize);

pub trait IntoParallelRefIterator<'a> {
    type Seq: Iterator;
    fn par_iter(&'a self) -> Par<Self::Seq>;
}
impl<'a, T: 'a> IntoParallelRefIterator<'a> for [T] {
    type Seq = std::slice::Iter<'a, T>;
    fn par_iter(&'a self) -> Par<Self::Seq> {
        Par(self.iter())
    }
}
impl<'a, T: 'a> IntoParallelRefIterator<'a> for Vec<T> {
    type Seq = std::slice::Iter<'a, T>;
    fn par_iter(&'a self) -> Par<Self::Seq> {
        Par(self.iter())
    }
}
impl<'a, T: 'a, const N: usize> IntoParallelRefIterator<'a> for [T; N] {
    type Seq = std::slice::Iter<'a, T>;
    fn par_iter(&'a self) -> Par<Self::Seq> {
        Par(self.iter())
    }
}

pub trait IntoParallelRefMutIterator<'a> {
    type Seq: Iterator;
    fn par_iter_mut(&'a mut self) -> Par<Self::Seq>;
}
impl<'a, T: 'a> IntoParallelRefMutIterator<'a> for [T] {
    type Seq = std::slice::IterMut<'a, T>;
    fn par_iter_mut(&'a mut self) -> Par<Self::Seq> {
        Par(self.iter_mut())
    }
}
impl<'a, T: 'a> IntoParallelRefMutIterator<'a> for Vec<T> {
    type Seq = std::slice::IterMut<'a, T>;
    fn par_iter_mut(&'a mut self) -> Par<Self::Seq> {
        Par(self.iter_mut())
    }
}
impl<'a, T: 'a, const N: usize> IntoParallelRefMutIterator<'a> for [T; N] {
    type Seq = std::slice::IterMut<'a, T>;
    fn par_iter_mut(&'a mut self) -> Par<Self::Seq> {
        Par(self.iter_mut())
    }
}

pub trait ParallelSlice<T> {
    fn par_chunks(&self, size: usize) -> Par<std::slice::Chunks<'_, T>>;
}
impl<T> ParallelSlice<T> for [T] {
    fn par_chunks(&self, size: usize) -> Par<std::slice::Chunks<'_, T>> {
        Par(self.chunks(size))
    }
}
pub trait ParallelSliceMut<T> {
    fn par_chunks_mut(&mut self, size: usize) -> Par<std::slice::ChunksMut<'_, T>>;
}
impl<T> ParallelSliceMut<T> for [T] {
    fn par_chunks_mut(&mut self, size: usize) -> Par<std::slice::ChunksMut<'_, T>> {
        Par(self.chunks_mut(size))
    }
}

impl<I: Iterator> Par<I> {
    // ---- lazy adaptors ----------------------------------------------------------------------------
    pub fn with_min_len(self, _n: usize) -> Self {
        self
    }
    pub fn with_max_len(self, _n: usize) -> Self {
        self
    }
    pub fn enumerate(self) -> Par<std::iter::Enumerate<I>> {
        Par(self.0.enumerate())
    }
    pub fn zip<Z: IntoParallelIterator>(self, other: Z) -> Par<std::iter::Zip<I, Z::Seq>> {
        Par(self.0.zip(other.into_par_iter().0))
    }
    pub fn copied<'a, T: 'a + Copy>(self) -> Par<std::iter::Copied<I>>
    where
        I: Iterator<Item = &'a T>,
    {
        Par(self.0.copied())
    }
    pub fn cloned<'a, T: 'a + Clone>(self) -> Par<std::iter::Cloned<I>>
    where
        I: Iterator<Item = &'a T>,
    {
        Par(self.0.cloned())
    }
    pub fn filter<P: FnMut(&I::Item) -> bool>(self, p: P) -> Par<std::iter::Filter<I, P>> {
        Par(self.0.filter(p))
    }

    // ---- terminals: the per-item work runs as one region, in controller order ----------------------
    pub fn for_each<F: FnMut(I::Item)>(self, f: F) {
        run_region("for_each", self.0.collect(), f);
    }

    /// `map` is evaluated eagerly in controller order; results are re-assembled by index, so a
    /// following `collect` preserves order exactly as rayon's indexed iterators do.
    pub fn map<R, F: FnMut(I::Item) -> R>(self, mut f: F) -> Par<std::vec::IntoIter<R>> {
        let items: Vec<I::Item> = self.0.collect();
        let n = items.len();
        let order = order_for("map", n);
        let mut slots: Vec<Option<I::Item>> = items.into_iter().map(Some).collect();
        let mut out: Vec<Option<R>> = (0..n).map(|_| None).collect();
        for i in order {
            out[i] = Some(f(slots[i].take().expect("vrayon: task scheduled twice")));
        }
        Par(out.into_iter().map(|x| x.expect("vrayon: task not run")).collect::<Vec<R>>().into_iter())
    }

    pub fn collect<C: FromIterator<I::Item>>(self) -> C {
        self.0.collect()
    }

    pub fn count(self) -> usize {
        self.0.count()
    }

    /// the predicate is evaluated lazily in index order (the range may be astronomically long);
    /// the k-th match is returned, k chosen by the controller (any match is a legal answer)
    pub fn find_any<P: FnMut(&I::Item) -> bool>(self, mut p: P) -> Option<I::Item> {
        let k = CTL.with(|x| {
            let mut b = x.borrow_mut();
            match b.as_mut() {
                None => 0,
                Some(c) => {
                    let r = Region { id: c.log.len(), kind: "find_any", tasks: 0 };
                    c.log.push(r);
                    c.find_k
                },
            }
        });
        let mut seen = 0;
        for item in self.0 {
            if p(&item) {
                if seen == k {
                    return Some(item);
                }
                seen += 1;
            }
        }
        None
    }
    pub fn find_first<P: FnMut(&I::Item) -> bool>(mut self, mut p: P) -> Option<I::Item> {
        self.0.find(|x| p(x))
    }
    pub fn any<P: FnMut(I::Item) -> bool>(mut self, p: P) -> bool {
        self.0.any(p)
    }
    pub fn all<P: FnMut(I::Item) -> bool>(mut self, p: P) -> bool {
        self.0.all(p)
    }
    pub fn sum<S: std::iter::Sum<I::Item>>(self) -> S {
        self.0.sum()
    }
    /// operands are combined in controller order
    pub fn reduce<ID: Fn() -> I::Item, OP: Fn(I::Item, I::Item) -> I::Item>(self, identity: ID, op: OP) -> I::Item {
        let items: Vec<I::Item> = self.0.collect();
        let order = order_for("reduce", items.len());
        let mut slots: Vec<Option<I::Item>> = items.into_iter().map(Some).collect();
        let mut acc = identity();
        for i in order {
            acc = op(acc, slots[i].take().unwrap());
        }
        acc
    }
}

// SCOPE
// ================================================================================================

type Job<'s> = Box<dyn FnOnce(&Scope<'s>) + 's>;

pub struct Scope<'s> {
    queue: RefCell<Vec<Job<'s>>>,
}

impl<'s> Scope<'s> {
    pub fn spawn<F: FnOnce(&Scope<'s>) + Send + 's>(&self, f: F) {
        self.queue.borrow_mut().push(Box::new(f));
    }
}

/// Runs `op`, then every spawned closure (one region, controller order); closures spawned by
/// closures join a further round, until none is left.
pub fn scope<'s, OP: FnOnce(&Scope<'s>) -> R, R>(op: OP) -> R {
    let s = Scope { queue: RefCell::new(vec![]) };
    let r = op(&s);
    loop {
        let jobs: Vec<Job<'s>> = std::mem::take(&mut *s.queue.borrow_mut());
        if jobs.is_empty() {
            break;
        }
        run_region("scope", jobs, |j| j(&s));
    }
    r
}

pub fn join<A: FnOnce() -> RA, B: FnOnce() -> RB, RA, RB>(a: A, b: B) -> (RA, RB) {
    let order = order_for("join", 2);
    if order[0] == 0 {
        let ra = a();
        let rb = b();
        (ra, rb)
    } else {
        let rb = b();
        let ra = a();
        (ra, rb)
    }
}

// ALTERNATIVE ORDER SETS (DESIGN.md section 4, E3)
// ================================================================================================

/// The alternative orders explored for a region of m tasks. `level` 0: {reverse, rotate by one};
/// 1: all m! orders if m <= 4; reverse, every rotation and every adjacent transposition if m <= 32;
/// reverse, rotations by {1, m/2, m-1} and transpositions of the first, middle and last adjacent
/// pair beyond.
pub fn alternatives(m: usize, level: u8) -> Vec<Order> {
    if m < 2 {
        return vec![];
    }
    if m == 2 {
        return vec![Order::Reverse];
    }
    if level == 0 {
        return vec![Order::Reverse, Order::Rotate(1)];
    }
    let mut v = vec![];
    if m <= 4 {
        let mut p: Vec<usize> = (0..m).collect();
        // all permutations except the identity, in lexicographic order
        loop {
            let mut i = m - 1;
            while i > 0 && p[i - 1] >= p[i] {
                i -= 1;
            }
            if i == 0 {
                break;
            }
            let mut j = m - 1;
            while p[j] <= p[i - 1] {
                j -= 1;
            }
            p.swap(i - 1, j);
            p[i..].reverse();
            v.push(Order::Perm(p.clone()));
        }
    } else if m <= 32 {
        v.push(Order::Reverse);
        for k in 1..m {
            v.push(Order::Rotate(k));
        }
        for i in 0..m - 1 {
            v.push(Order::Transpose(i));
        }
    } else {
        v.push(Order::Reverse);
        for k in [1, m / 2, m - 1] {
            v.push(Order::Rotate(k));
        }
        for i in [0, m / 2 - 1, m - 2] {
            v.push(Order::Transpose(i));
        }
    }
    v
}

#[cfg(test)]
mod tests {
    use super::*;
    use crate::prelude::*;

    #[test]
    fn orders_and_regions() {
        let mut seen = vec![];
        let c = Controller::new(4, Box::new(|_r| Order::Reverse));
        let (out, c) = with_controller(c, || {
            let mut v = vec![0u32; 8];
            v.par_chunks_mut(2).enumerate().for_each(|(i, ch)| {
                seen.push(i);
                ch[0] = i as u32
            });
            let w: Vec<u32> = v.par_iter().map(|x| x + 1).collect();
            (v, w, current_num_threads())
        });
        assert_eq!(seen, vec![3, 2, 1, 0]);
        assert_eq!(out.0, vec![0, 0, 1, 0, 2, 0, 3, 0]);
        assert_eq!(out.1, vec![1, 1, 2, 1, 3, 1, 4, 1]);
        assert_eq!(out.2, 4);
        assert_eq!(c.log.len(), 2);
        assert_eq!(alternatives(3, 1).len(), 5);
        assert_eq!(alternatives(4, 1).len(), 23);
    }

    #[test]
    fn scope_and_find() {
        let c = Controller { find_k: 2, ..Controller::new(2, Box::new(|_| Order::Reverse)) };
        let (r, _) = with_controller(c, || {
            let order = std::sync::Mutex::new(vec![]);
            scope(|s| {
                for i in 0..3 {
                    let order = &order;
                    s.spawn(move |_| order.lock().unwrap().push(i));
                }
            });
            let f = (0..u64::MAX).into_par_iter().find_any(|x| x % 5 == 0);
            (order.into_inner().unwrap(), f)
        });
        assert_eq!(r.0, vec![2, 1, 0]);
        assert_eq!(r.1, Some(10));
    }
}

// DEVIATION-BOUNDED SCHEDULE EXPLORATION
// ================================================================================================

#[derive(Default, Debug, Clone)]
pub struct ExploreStats {
    pub schedules: u64,
    /// schedules that run some region with >= 2 tasks in a non-submission order
    pub nontrivial: u64,
    pub task_runs: u64,
    /// (threads, regions, regions with >= 2 tasks) of the default schedule
    pub regions: Vec<(usize, usize, usize)>,
}

/// Runs `body(tag)` under: the submission-order schedule for every thread count of `ts_all`, and,
/// for the thread counts of `ts_dev`, every schedule that deviates from it in exactly one region
/// (every alternative order of `alternatives(m, level)` of every region with m >= 2 tasks).
/// `body` performs the computation *and* judges it (the tag names the schedule for its reports).
/// A deviating run must meet the same region with the same number of tasks as the default run.
pub fn explore(ts_all: &[usize], ts_dev: &[usize], level: u8, mut body: impl FnMut(&str)) -> ExploreStats {
    let mut st = ExploreStats::default();
    for &t in ts_all {
        let tag = format!("T={t} submission order");
        let c = Controller::new(t, Box::new(|_| Order::Submission));
        let (_, c) = with_controller(c, || body(&tag));
        st.schedules += 1;
        st.task_runs += c.task_runs;
        let multi: Vec<Region> = c.log.iter().filter(|r| r.tasks >= 2).cloned().collect();
        st.regions.push((t, c.log.len(), multi.len()));
        if !ts_dev.contains(&t) {
            continue;
        }
        for r in &multi {
            for o in alternatives(r.tasks, level) {
                let tag = format!("T={t} region {} ({} x{}) {:?}", r.id, r.kind, r.tasks, o);
                let (id, oo) = (r.id, o.clone());
                let c = Controller::new(t, Box::new(move |x: &Region| if x.id == id { oo.clone() } else { Order::Submission }));
                let (_, c) = with_controller(c, || body(&tag));
                assert_eq!(c.log.get(r.id).map(|x| x.tasks), Some(r.tasks), "vrayon replay divergence: region {} changed its task count", r.id);
                st.schedules += 1;
                st.nontrivial += 1;
                st.task_runs += c.task_runs;
            }
        }
    }
    st
}
