//! C29 — `Trace::validate` accepts a trace exactly when the independent checker R9 says every
//! assertion and every transition constraint on the non-exempt steps holds. Fault enumeration
//! over every cell of every catalogue instance (main and auxiliary segments). Plus: trace tables
//! built by `fill`, `init` and `fragments` (every fragment length, every fill order) are equal.

use std::sync::Arc;

use mck::{json, Args, Report, Value, Violation};
use winterfell::math::fields::QuadExtension;
use winterfell::math::FieldElement;
use winterfell::matrix::ColMatrix;
use winterfell::{Air, AuxRandElements, AuxTraceWithMetadata, Trace, TraceTable};

use crate::cfg::*;
use crate::genair::*;

#[derive(Clone, Debug)]
pub enum TFault {
    None,
    /// main cell (col, row) += 1
    Main(usize, usize),
    /// aux cell (col, row) += 1
    Aux(usize, usize),
    /// claimed value k of assertion a += 1 (the statement changes, the trace does not)
    Claim(usize, usize),
    /// aux column c regenerated from another start value (only its assertion is violated)
    AuxStart(usize),
}

fn rands<E: FieldElement>(k: usize) -> Vec<E> {
    (0..k).map(|i| E::from(1000u32 + 77 * i as u32) + E::ONE.double()).collect()
}

struct Stats {
    evals: u64,
    unsat: u64,
    viol: Vec<Violation>,
}

fn one<B: BaseF, E: FieldElement<BaseField = B>>(shape: &Arc<Shape>, h: &Honest<B>, ename: &str, f: &TFault, st: &mut Stats) {
    let mut main = h.main.clone();
    let mut claimed = h.inputs.clone();
    let rs = rands::<E>(shape.aux.map(|a| a.1).unwrap_or(0));
    let mut aux: Option<Vec<Vec<E>>> = shape.aux.map(|_| gen_aux::<B, E>(shape, &ColMatrix::new(h.main.clone()), &rs));
    match *f {
        TFault::None => {},
        TFault::Main(c, r) => main[c][r] += B::ONE,
        TFault::Aux(c, r) => aux.as_mut().unwrap()[c][r] += E::ONE,
        TFault::Claim(a, k) => claimed.values[a][k] += B::ONE,
        TFault::AuxStart(c) => aux = Some(gen_aux_from::<B, E>(shape, &ColMatrix::new(h.main.clone()), &rs, Some(c))),
    }
    // the auxiliary trace is a function of the main trace: a main fault followed by an honest
    // aux computation is the realistic case; aux is recomputed from the faulted main trace
    if let (TFault::Main(..), Some(_)) = (f, &aux) {
        aux = Some(gen_aux::<B, E>(shape, &ColMatrix::new(main.clone()), &rs));
    }
    // R9 verdict
    let mut want = check_main(shape, &main, &claimed.values);
    if want.is_ok() {
        if let Some(a) = &aux {
            want = check_aux(shape, &main, a, &rs);
        }
    }
    // library verdict
    let cfg = Cfg::base(Fid::F64, Hid::Blake3_256);
    let air = GenAir::<B>::new(shape.trace_info(), claimed.clone(), cfg.options());
    let trace = GenTrace::new(shape, main.clone());
    let meta = aux.clone().map(|a| AuxTraceWithMetadata { aux_trace: ColMatrix::new(a), aux_rand_elements: AuxRandElements::new(rs.clone()) });
    let got = mck::catch(|| trace.validate::<GenAir<B>, E>(&air, meta.as_ref()));
    st.evals += 1;
    if want.is_err() {
        st.unsat += 1;
    }
    let key = format!("{}/{ename}/{f:?}", shape.name);
    let replay = json!({"shape": shape.name, "ext": ename, "fault": format!("{f:?}")});
    match (want, got) {
        (Ok(()), Ok(())) => {},
        (Err(_), Err(p)) if p.in_library && p.location.starts_with("prover/src/trace/mod.rs") => {},
        (Err(why), Err(p)) => st.viol.push(Violation { class: format!("validate_panicked_elsewhere:{}", p.location), key, detail: format!("shape {} fault {f:?}: the trace is unsatisfying ({why}) but validate failed at {} ({}) instead of its own assertion", shape.name, p.location, p.message), replay }),
        (Ok(()), Err(p)) => st.viol.push(Violation { class: "validate_rejects_satisfying_trace".into(), key, detail: format!("shape {} ({ename}), fault {f:?}: R9 finds every assertion and transition satisfied, validate panicked at {}: {}", shape.name, p.location, p.message), replay }),
        (Err(why), Ok(())) => st.viol.push(Violation { class: "validate_accepts_unsatisfying_trace".into(), key, detail: format!("shape {} ({ename}), fault {f:?}: {why}, but validate returned normally", shape.name), replay }),
    }
}

fn faults(shape: &Shape) -> Vec<TFault> {
    let mut f = vec![TFault::None];
    for c in 0..shape.width() {
        for r in 0..shape.n {
            f.push(TFault::Main(c, r));
        }
    }
    if let Some((aw, _)) = shape.aux {
        for c in 0..aw {
            for r in 0..shape.n {
                f.push(TFault::Aux(c, r));
            }
            f.push(TFault::AuxStart(c));
        }
    }
    for (a, spec) in shape.asserts.iter().enumerate() {
        let k = match spec {
            ASpec::Sequence { .. } => spec.steps(shape.n).len(),
            _ => 1,
        };
        for i in 0..k {
            f.push(TFault::Claim(a, i));
        }
    }
    f
}

fn parse_fault(t: &str) -> TFault {
    let nums: Vec<usize> = t.split(|c: char| !c.is_ascii_digit()).filter(|x| !x.is_empty()).filter_map(|x| x.parse().ok()).collect();
    let g = |i: usize| nums.get(i).copied().unwrap_or(0);
    if t.starts_with("Main") {
        TFault::Main(g(0), g(1))
    } else if t.starts_with("AuxStart") {
        TFault::AuxStart(g(0))
    } else if t.starts_with("Aux") {
        TFault::Aux(g(0), g(1))
    } else if t.starts_with("Claim") {
        TFault::Claim(g(0), g(1))
    } else {
        TFault::None
    }
}

fn sweep_shape<B: BaseF>(shape: &Arc<Shape>, only: Option<(&str, TFault)>) -> Stats {
    let mut st = Stats { evals: 0, unsat: 0, viol: vec![] };
    let h = honest::<B>(shape);
    let fs = match &only {
        Some((_, f)) => vec![f.clone()],
        None => faults(shape),
    };
    for f in &fs {
        if only.as_ref().map(|o| o.0 != "quad").unwrap_or(true) {
            one::<B, B>(shape, &h, "base", f, &mut st);
        }
        if shape.aux.is_some() && only.as_ref().map(|o| o.0 != "base").unwrap_or(true) {
            one::<B, QuadExtension<B>>(shape, &h, "quad", f, &mut st);
        }
    }
    st
}

// TRACE TABLES
// ================================================================================================

fn row<B: BaseF>(i: usize, w: usize) -> Vec<B> {
    (0..w).map(|j| lit::<B>((i as u64 + 1) * 1_000_003 + j as u64 * 7 + 1)).collect()
}

fn perms(k: usize) -> Vec<Vec<usize>> {
    fn rec(cur: &mut Vec<usize>, used: &mut Vec<bool>, out: &mut Vec<Vec<usize>>) {
        if cur.len() == used.len() {
            out.push(cur.clone());
            return;
        }
        for i in 0..used.len() {
            if !used[i] {
                used[i] = true;
                cur.push(i);
                rec(cur, used, out);
                cur.pop();
                used[i] = false;
            }
        }
    }
    if k <= 5 {
        let mut out = vec![];
        rec(&mut vec![], &mut vec![false; k], &mut out);
        out
    } else {
        let id: Vec<usize> = (0..k).collect();
        let mut rev = id.clone();
        rev.reverse();
        let mut rot = id.clone();
        rot.rotate_left(1);
        let mut il: Vec<usize> = (0..k).filter(|i| i % 2 == 1).collect();
        il.extend((0..k).filter(|i| i % 2 == 0));
        vec![id, rev, rot, il]
    }
}

fn tables<B: BaseF>(fname: &str, viol: &mut Vec<Violation>) -> (u64, u64) {
    let mut evals = 0;
    let mut nontrivial = 0;
    for w in [1usize, 2, 5] {
        for lg in 3..=8u32 {
            let n = 1usize << lg;
            let cols: Vec<Vec<B>> = (0..w).map(|j| (0..n).map(|i| row::<B>(i, w)[j]).collect()).collect();
            let by_init = TraceTable::init(cols.clone());
            let mut by_fill = TraceTable::<B>::new(w, n);
            by_fill.fill(|s| s.copy_from_slice(&row::<B>(0, w)), |i, s| s.copy_from_slice(&row::<B>(i + 1, w)));
            let same = |a: &TraceTable<B>, b: &TraceTable<B>| (0..w).all(|c| a.get_column(c) == b.get_column(c)) && a.length() == b.length() && a.width() == b.width();
            evals += 1;
            if !same(&by_init, &by_fill) || (0..w).any(|c| by_init.get_column(c) != &cols[c][..]) {
                viol.push(Violation { class: "table:fill_differs_from_init".into(), key: format!("{fname}/w{w}/n{n}"), detail: format!("TraceTable::fill and TraceTable::init give different {w}x{n} tables"), replay: json!({"tables": fname}) });
            }
            let mut flen = 2usize;
            while flen <= n {
                let k = n / flen;
                for order in perms(k) {
                    let mut t = TraceTable::<B>::new(w, n);
                    {
                        #[cfg(not(feature = "conc"))]
                        let mut frs: Vec<_> = t.fragments(flen).collect();
                        #[cfg(feature = "conc")]
                        let mut frs: Vec<_> = {
                            use winterfell::iterators::*;
                            t.fragments(flen).collect()
                        };
                        for &fi in &order {
                            let fr = &mut frs[fi];
                            let off = fr.offset();
                            if fr.index() != fi || off != fi * flen || fr.length() != flen || fr.width() != w {
                                viol.push(Violation { class: "table:fragment_geometry".into(), key: format!("{fname}/w{w}/n{n}/f{flen}"), detail: format!("fragment {fi} of length {flen}: index {}, offset {off}, length {}, width {}", fr.index(), fr.length(), fr.width()), replay: json!({"tables": fname}) });
                            }
                            fr.fill(|s| s.copy_from_slice(&row::<B>(off, w)), |i, s| s.copy_from_slice(&row::<B>(off + i + 1, w)));
                        }
                    }
                    evals += 1;
                    if k > 1 {
                        nontrivial += 1;
                    }
                    if !same(&by_init, &t) {
                        viol.push(Violation { class: "table:fragments_differ".into(), key: format!("{fname}/w{w}/n{n}/f{flen}/{order:?}"), detail: format!("{w}x{n} table filled through fragments of length {flen} in order {order:?} differs from the sequentially filled one"), replay: json!({"tables": fname}) });
                    }
                }
                flen *= 2;
            }
        }
    }
    (evals, nontrivial)
}

pub fn run(args: &Args) {
    let mut report = Report::new(args, "fault_enumeration");
    let thorough = args.tier == mck::Tier::Thorough;
    if let Some(v) = args.replay_value() {
        let mut viol = vec![];
        if v.get("tables").is_some() {
            tables::<B64>("f64", &mut viol);
            tables::<B128>("f128", &mut viol);
        } else {
            let shape = shape_by_name(v["shape"].as_str().unwrap_or(""));
            let f = parse_fault(v["fault"].as_str().unwrap_or(""));
            let e = v["ext"].as_str().unwrap_or("base").to_string();
            for st in [sweep_shape::<B64>(&shape, Some((&e, f.clone()))), sweep_shape::<B128>(&shape, Some((&e, f.clone()))), sweep_shape::<B62>(&shape, Some((&e, f)))] {
                viol.extend(st.viol);
            }
        }
        report.part("replay", 1, 1, json!({}));
        report.violations(viol);
        report.finish(args)
    }
    let max_n = if thorough { 256 } else { 64 };
    let cat: Vec<Arc<Shape>> = catalogue(if thorough { 2 } else { 1 }).into_iter().filter(|s| s.n <= max_n && s.width() <= 17 && Cfg::base(Fid::F64, Hid::Blake3_256).valid_for(s).is_ok()).collect();
    for (fname, fid) in [("f64", Fid::F64), ("f128", Fid::F128), ("f62", Fid::F62)] {
        let outs = mck::par_map(cat.len(), |i| match fid {
            Fid::F64 => sweep_shape::<B64>(&cat[i], None),
            Fid::F128 => sweep_shape::<B128>(&cat[i], None),
            Fid::F62 => sweep_shape::<B62>(&cat[i], None),
        });
        let (mut evals, mut unsat) = (0, 0);
        for st in outs {
            evals += st.evals;
            unsat += st.unsat;
            report.violations(st.viol);
        }
        report.part(&format!("validate vs R9 over {fname}: every cell +1, every claimed value +1, honest trace"), evals, unsat, json!({"shapes": cat.len(), "unsatisfying_cases": unsat, "satisfying_cases": evals - unsat}));
    }
    let mut viol = vec![];
    let (e1, n1) = tables::<B64>("f64", &mut viol);
    let (e2, n2) = tables::<B128>("f128", &mut viol);
    report.part("TraceTable fill / init / fragments (every fragment length 2..n, every order of <= 5 fragments, 4 orders beyond)", e1 + e2, n1 + n2, json!({"widths": [1, 2, 5], "lengths": "8..256"}));
    report.violations(viol);
    report.sample(json!({"shape": "aux2x2+reset+exempt2", "fault": "Main(1, 15) (+1 in the last row, exempt from transitions, not asserted)", "oracle": "R9: satisfied => validate must return normally"}));
    report.exhaustive = true;
    report.rule = "one case per (field, shape, extension of the aux segment, single fault); non-trivial = cases R9 classifies as unsatisfying (validate must panic), the rest must be accepted".into();
    report.bounds = json!({"max_trace_length": max_n, "faults": "every main cell, every aux cell, every claimed assertion value, each +1", "variant": args.variant});
    report.assumptions = vec!["validate signals rejection by panicking inside prover/src/trace/mod.rs (its documented behaviour)".into()];
    report.finish(args)
}
