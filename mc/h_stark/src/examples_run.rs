//! The bundled examples as a library: each (example, size, option set) is proved, sent through
//! its own encoding, verified, and verified against wrong public inputs.

use examples::{Example, ExampleOptions};
use mck::{json, Value, Violation};
use structopt::StructOpt;
use winterfell::Proof;

fn build(name: &str, n: usize, opt: &[String]) -> Result<Box<dyn Example>, String> {
    let sub = match name {
        "fib" => "fib",
        "fib8" => "fib8",
        "mulfib" => "mulfib",
        "mulfib8" => "mulfib8",
        "fib_small" => "fib-small",
        "vdf" => "vdf",
        "vdf_exempt" => "vdf-exempt",
        "rescue" => "rescue",
        "rescue_raps" => "rescue-raps",
        "merkle" => "merkle",
        "lamport_a" => "lamport-a",
        "lamport_t" => "lamport-t",
        _ => return Err("unknown example".into()),
    };
    let mut args: Vec<String> = vec!["winterfell".into()];
    args.extend(opt.iter().cloned());
    args.push(sub.into());
    args.extend(["-n".to_string(), n.to_string()]);
    let o = ExampleOptions::from_iter_safe(args).map_err(|e| format!("{e}"))?;
    match name {
        "fib" => examples::fibonacci::fib2::get_example(&o, n),
        "fib8" => examples::fibonacci::fib8::get_example(&o, n),
        "mulfib" => examples::fibonacci::mulfib2::get_example(&o, n),
        "mulfib8" => examples::fibonacci::mulfib8::get_example(&o, n),
        "fib_small" => examples::fibonacci::fib_small::get_example(&o, n),
        "vdf" => examples::vdf::regular::get_example(&o, n),
        "vdf_exempt" => examples::vdf::exempt::get_example(&o, n),
        "rescue" => examples::rescue::get_example(&o, n),
        "rescue_raps" => examples::rescue_raps::get_example(&o, n),
        "merkle" => examples::merkle::get_example(&o, n),
        "lamport_a" => examples::lamport::aggregate::get_example(&o, n),
        "lamport_t" => examples::lamport::threshold::get_example(&o, n),
        _ => Err("unknown example".into()),
    }
}

fn opts(h: &str, q: usize, b: usize, e: u32, f: usize) -> Vec<String> {
    vec!["-h".into(), h.into(), "-q".into(), q.to_string(), "-b".into(), b.to_string(), "-g".into(), "0".into(), "-e".into(), e.to_string(), "-f".into(), f.to_string()]
}

/// `None` = this option set is not offered by the example (e.g. a hasher over another field)
fn one(name: &str, n: usize, opt: &[String]) -> Option<Result<(), (String, String)>> {
    let ex = match mck::catch(|| build(name, n, opt)) {
        Ok(Ok(e)) => e,
        Ok(Err(_)) => return None,
        Err(_) => return None, // constructor asserts on sizes/options it does not support
    };
    let proof = match mck::catch(|| ex.prove()) {
        Ok(p) => p,
        // the examples unwrap the prover's Result: an unsupported extension is the example's way of
        // saying "not offered"; any other prover error or a panic inside the library is a failure
        Err(p) if p.message.contains("UnsupportedFieldExtension") => return None,
        Err(p) => return Some(Err((format!("prover_panic:{}", p.location), format!("prove() panicked at {}: {}", p.location, p.message)))),
    };
    let bytes = proof.to_bytes();
    let decoded = match mck::catch(|| Proof::from_bytes(&bytes)) {
        Ok(Ok(p)) => p,
        Ok(Err(e)) => return Some(Err(("decode_err".into(), format!("own encoding does not decode: {e}")))),
        Err(p) => return Some(Err((format!("decode_panic:{}", p.location), format!("decoding its own encoding panicked at {}: {}", p.location, p.message)))),
    };
    match mck::catch(|| ex.verify(decoded.clone())) {
        Ok(Ok(())) => {},
        Ok(Err(e)) => return Some(Err((format!("verify_err:{}", format!("{e:?}").split('(').next().unwrap_or("")), format!("honest proof rejected: {e}")))),
        Err(p) => return Some(Err((format!("verify_panic:{}", p.location), format!("verify panicked at {}: {}", p.location, p.message)))),
    }
    match mck::catch(|| ex.verify_with_wrong_inputs(decoded)) {
        Ok(Err(_)) => {},
        Ok(Ok(())) => return Some(Err(("accepted_wrong_inputs".into(), "the proof verifies against wrong public inputs".into()))),
        Err(p) => return Some(Err((format!("verify_panic:{}", p.location), format!("verify (wrong inputs) panicked at {}: {}", p.location, p.message)))),
    }
    Some(Ok(()))
}

fn grid(thorough: bool) -> Vec<(&'static str, usize, Vec<String>)> {
    let mut g = vec![];
    let sizes: Vec<(&'static str, Vec<usize>)> = vec![
        ("fib", vec![16, 64]),
        ("fib8", vec![64, 256]),
        ("mulfib", vec![16, 64]),
        ("mulfib8", vec![64, 128]),
        ("fib_small", vec![16, 64]),
        ("vdf", vec![16, 64]),
        ("vdf_exempt", vec![15, 63]),
        ("rescue", vec![2, 8]),
        ("rescue_raps", vec![2, 8]),
        ("merkle", vec![3, 7]),
        ("lamport_a", vec![2, 4]),
        ("lamport_t", vec![3]),
    ];
    for (name, ns) in sizes {
        for (i, n) in ns.iter().enumerate() {
            if i > 0 && !thorough {
                continue;
            }
            for h in ["blake3_256", "blake3_192", "sha3_256", "rp64_256", "rp_jive64_256"] {
                for e in 1..=3u32 {
                    for (q, b, f) in [(8usize, 8usize, 4usize), (1, 16, 2), (40, 32, 16), (255, 64, 8)] {
                        if !thorough && (q, e) == (255, 3) {
                            continue;
                        }
                        g.push((name, *n, opts(h, q, b, e, f)));
                    }
                }
            }
        }
    }
    g
}

pub fn run(thorough: bool) -> (u64, u64, Vec<Violation>) {
    let g = grid(thorough);
    let outs = mck::par_map(g.len(), |i| one(g[i].0, g[i].1, &g[i].2));
    let mut n = 0;
    let mut v = vec![];
    for ((name, size, opt), o) in g.iter().zip(outs) {
        match o {
            None => {},
            Some(Ok(())) => n += 1,
            Some(Err((class, detail))) => {
                n += 1;
                v.push(Violation { class: format!("example:{class}"), key: format!("{name}/{size}/{}", opt.join(" ")), detail: format!("example {name} (n = {size}, options {}): {detail}", opt.join(" ")), replay: json!({"example": name, "n": size, "opt": opt}) });
            },
        }
    }
    (n, n, v)
}

pub fn replay(v: &Value) -> Vec<Violation> {
    let name = v["example"].as_str().unwrap_or("").to_string();
    let n = v["n"].as_u64().unwrap_or(16) as usize;
    let opt: Vec<String> = v["opt"].as_array().map(|a| a.iter().filter_map(|x| x.as_str().map(|s| s.to_string())).collect()).unwrap_or_default();
    match one(&name, n, &opt) {
        Some(Err((class, detail))) => vec![Violation { class: format!("example:{class}"), key: format!("{name}/{n}"), detail, replay: v.clone() }],
        _ => vec![],
    }
}
