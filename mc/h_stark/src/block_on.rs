//! A minimal executor for the async prover variant: the futures involved never actually suspend.
#![allow(dead_code)]

use std::future::Future;
use std::pin::pin;
use std::sync::Arc;
use std::task::{Context, Poll, Wake, Waker};

struct Noop;
impl Wake for Noop {
    fn wake(self: Arc<Self>) {}
}

pub fn block_on<F: Future>(f: F) -> F::Output {
    let waker: Waker = Arc::new(Noop).into();
    let mut cx = Context::from_waker(&waker);
    let mut f = pin!(f);
    loop {
        if let Poll::Ready(v) = f.as_mut().poll(&mut cx) {
            return v;
        }
        std::thread::yield_now();
    }
}
