//! C04 — tampered proof bytes are rejected unless semantically identical. E4 over the encodings
//! of the smallest honest proofs of several configurations; every mutant is decoded and verified
//! (same public inputs; OptionSet{own} and MinConjecturedSecurity(own level)) in an isolated
//! worker. Oracle: decode error, or verify error, or acceptance with parsed contents equal to the
//! original's. Panics are not acceptance and are C05's subject.

use mck::pool::{self, Outcome};
use mck::{json, Args, Report, Violation};

use crate::mutants::*;

#[derive(Default)]
struct Acc {
    total: u64,
    decode_err: u64,
    rejected: u64,
    accepted_same: u64,
    panicked: u64,
    died: u64,
    viol: Vec<(usize, Violation)>,
}

fn class_of(desc: &str, diff: &str) -> String {
    // one class per differing component (the defect is "this component is malleable")
    // the class names every differing component: a known finding about one component does not
    // cover a mutant that differs in that component and another one
    let _ = desc;
    format!("accepted_different_contents:{}", diff.replace(',', "+"))
}

pub fn run(args: &Args) {
    let mut report = Report::new(args, "fault_enumeration");
    let thorough = args.tier == mck::Tier::Thorough;
    let cfg = pool_cfg();
    let corp = corpus();
    if let Some(v) = args.replay_value() {
        let id = v["corpus"].as_u64().unwrap_or(0) as u8;
        let bytes = crate::mutants::replay_bytes(&v);
        let mut payload = vec![id];
        payload.extend(&bytes);
        let (o1, o2) = (pool::run_single(&cfg, &payload), pool::run_single(&cfg, &payload));
        if o1 != o2 {
            mck::report::machinery("C04 replay: two executions of the same mutant disagree");
        }
        if let Some(r) = parse_reply(&o1) {
            if r["same"] == json!(false) {
                let diff = r["diff"].as_str().unwrap_or("?").to_string();
                report.violation(Violation { class: class_of("", &diff), key: "replay".into(), detail: format!("accepted with different parsed contents: {diff}"), replay: v.clone() });
            }
        }
        report.part("replay", 1, 1, json!({}));
        report.finish(args)
    }
    let use_ids: Vec<u8> = if thorough { (0..corp.len() as u8).collect() } else { vec![0, 1, 2, 3, 4, 7, 8] };
    let mut validated = 0u64;
    let mut sizes = vec![];
    let mut t = Acc::default();
    let mut viol = vec![];
    let mut groups: std::collections::BTreeMap<String, usize> = Default::default();
    let mut index_base = 0usize;
    // one corpus proof at a time: the mutants of all proofs together do not fit in memory in the thorough tier
    for e in corp.iter().filter(|e| use_ids.contains(&e.id)) {
        let bytes = honest_bytes(e);
        let tree = r8_tree(e, &bytes);
        validated += 1;
        sizes.push(json!({"corpus": e.id, "shape": e.shape.name, "cfg": e.cfg.short(), "bytes": bytes.len()}));
        let all: Vec<Mutant> = mutants_of(e, &bytes, &tree, thorough);
        for m in &all {
            *groups.entry(m.group.to_string()).or_default() += 1;
        }
    let accs: Vec<Acc> = pool::run(
        &cfg,
        all.len(),
        |i| {
            let mut p = vec![all[i].corpus];
            p.extend(&all[i].bytes);
            p
        },
        |acc: &mut Acc, i, payload, outcome| {
            acc.total += 1;
            let m = &all[i];
            match parse_reply(&outcome) {
                None => acc.died += 1, // abort / timeout: C05's subject
                Some(r) => {
                    let d = r["d"].as_str().unwrap_or("");
                    if d.starts_with("err") {
                        acc.decode_err += 1;
                    } else if d.starts_with("panic") {
                        acc.panicked += 1;
                    } else {
                        let v: Vec<&str> = r["v"].as_array().map(|a| a.iter().filter_map(|x| x.as_str()).collect()).unwrap_or_default();
                        let acc_right = v.iter().take(2).any(|x| *x == "A");
                        if v.iter().take(2).any(|x| x.starts_with('P')) {
                            acc.panicked += 1;
                        }
                        if !acc_right {
                            acc.rejected += 1;
                        } else if r["same"] == json!(true) {
                            acc.accepted_same += 1;
                        } else if pool::confirmed(&cfg, payload, &outcome) {
                            let diff = r["diff"].as_str().unwrap_or("?").to_string();
                            let modes: Vec<&str> = ["OptionSet{own}", "MinConjecturedSecurity(own)"].iter().zip(v.iter()).filter(|(_, x)| **x == "A").map(|(n, _)| *n).collect();
                            acc.viol.push((
                                i,
                                Violation {
                                    class: class_of(&m.desc, &diff),
                                    key: format!("corpus{}/{}", m.corpus, m.desc),
                                    detail: format!("corpus proof {} ({} bytes after the edit): '{}' is accepted under {:?} for the same public inputs although its parsed contents differ from the original's in: {diff}", m.corpus, m.bytes.len(), m.desc, modes),
                                    replay: json!({"corpus": m.corpus, "mutant": mck::hex(&m.bytes), "edit": m.desc}),
                                },
                            ));
                        }
                    }
                },
            }
        },
    );
    for a in accs {
        t.total += a.total;
        t.decode_err += a.decode_err;
        t.rejected += a.rejected;
        t.accepted_same += a.accepted_same;
        t.panicked += a.panicked;
        t.died += a.died;
        viol.extend(a.viol.into_iter().map(|(i, v)| (index_base + i, v)));
    }
        index_base += all.len();
    }
    viol.sort_by_key(|(i, _)| *i);
    let by_group = |g: &str| groups.get(g).copied().unwrap_or(0);
    report.part(
        "single faults of every corpus proof (bit flips, byte boundary values, truncations, insertions, deletions, trailing bytes; every numeric field to its boundary set, over-long size encodings, lying length/count prefixes, item dropped/duplicated/swapped/appended with enclosing prefixes repaired)",
        t.total,
        t.total - t.decode_err,
        json!({"corpus": sizes, "byte_level": by_group("byte-level"), "field_and_structure": by_group("field/structure (R8)"), "pairs": by_group("pairs (R8)"),
               "decode_error": t.decode_err, "verifier_rejected": t.rejected, "accepted_with_equal_contents": t.accepted_same, "panicked_(left_to_C05)": t.panicked, "worker_died_or_timed_out_(left_to_C05)": t.died}),
    );
    for (_, v) in viol {
        report.violation(v);
    }
    report.traces_validated = Some(validated);
    report.sample(json!({"edit": "proof.trace_queries[main].opening_proof.batch_merkle_proof.node_vectors.nodes[0] + a copy of its last item", "oracle": "decode error, verify error, or accepted with equal parsed contents"}));
    report.exhaustive = true;
    report.rule = "one case per distinct mutant byte string; non-trivial = mutants that still deserialise (they reach the verifier)".into();
    report.bounds = json!({"corpus_proofs": use_ids.len(), "faults": if thorough { "all single faults + pairs inside the header / length groups" } else { "all single faults" }});
    report.assumptions = vec![
        "parsed contents are compared through the library's own component parsers (context, unique-query count, commitment digests as values, query values and openings, OOD frame, FRI layers and remainder, nonce)".into(),
        "R8 (the field map) is bound to the code: print(parse(b)) == b and every field/segment equals the implementation's decoding, for every corpus proof (traces_validated_against_impl)".into(),
        "trailing bytes after a proof are not part of the proof".into(),
    ];
    report.finish(args)
}
