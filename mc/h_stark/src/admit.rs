//! Admissibility of a catalogue instance: winterfell's contract is that the *actual* degree of
//! every transition constraint on the given trace equals the declared one. The harness measures
//! the actual degrees itself (polynomial arithmetic on the interpolated columns) and drops — and
//! reports — instances where they differ, so that a check never blames the library for refusing
//! a trace outside its contract.

use winterfell::math::{fft, polynom, FieldElement, StarkField};

use crate::genair::*;

fn ppow<B: StarkField>(p: &[B], d: u32) -> Vec<B> {
    let mut r = vec![B::ONE];
    for _ in 0..d {
        r = polynom::mul(&r, p);
    }
    r
}

fn interp<B: StarkField>(values: &[B]) -> Vec<B> {
    let mut v = values.to_vec();
    let inv = fft::get_inv_twiddles::<B>(v.len());
    fft::interpolate_poly(&mut v, &inv);
    v
}

/// measured degrees of the main-segment constraint polynomials of the honest trace
pub fn measured_degrees<B: BaseF>(s: &Shape, main: &[Vec<B>]) -> Vec<usize> {
    let n = s.n;
    let g = B::get_root_of_unity(n.trailing_zeros());
    let polys: Vec<Vec<B>> = main.iter().map(|c| interp(c)).collect();
    let shifted: Vec<Vec<B>> = polys
        .iter()
        .map(|p| {
            let mut x = B::ONE;
            p.iter()
                .map(|c| {
                    let r = *c * x;
                    x *= g;
                    r
                })
                .collect()
        })
        .collect();
    let pers: Vec<Vec<B>> = s
        .periodic
        .iter()
        .map(|p| {
            let vals: Vec<B> = (0..n).map(|i| lit(p.values[i % p.values.len()])).collect();
            interp(&vals)
        })
        .collect();
    (0..s.width())
        .map(|j| {
            let cur = &polys[j];
            let l = &polys[s.left(j)];
            let rhs = match &s.cols[j] {
                Rule::Pow { d, k } => polynom::add(&ppow(cur, *d), &[lit(*k)]),
                Rule::PowPer { d, p } => polynom::add(&ppow(cur, *d), &pers[*p]),
                Rule::Mul { p } => polynom::add(&polynom::mul(cur, l), &pers[*p]),
                Rule::Sum { d } => polynom::add(cur, &ppow(l, *d)),
                Rule::MulPer { d, p } => polynom::add(&polynom::mul(&pers[*p], &ppow(cur, *d)), l),
                Rule::Reset { d, p, v } => {
                    let m = &pers[*p];
                    let one_minus_m = polynom::sub(&[B::ONE], m);
                    polynom::add(&polynom::mul(m, &polynom::add(&ppow(cur, *d), l)), &polynom::mul_by_scalar(&one_minus_m, lit(*v)))
                },
            };
            polynom::degree_of(&polynom::sub(&shifted[j], &rhs))
        })
        .collect()
}

/// `Ok` iff every measured degree equals the declared evaluation degree
pub fn admissible<B: BaseF>(s: &Shape, main: &[Vec<B>]) -> Result<(), String> {
    if s.n > 256 {
        return Ok(()); // same rule pattern as a measured smaller instance; too costly to re-measure
    }
    let got = measured_degrees(s, main);
    for j in 0..s.width() {
        let (d, c) = s.declared(j);
        let want = s.eval_degree(d, &c);
        if got[j] != want {
            return Err(format!("constraint {j} of shape {}: measured degree {} != declared evaluation degree {want}", s.name, got[j]));
        }
    }
    Ok(())
}

#[allow(dead_code)]
pub fn _unused<E: FieldElement>() {}
