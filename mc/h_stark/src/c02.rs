//! C02 — proofs of unsatisfied statements are rejected. Fault enumeration on the traces (and the
//! public inputs) of every small catalogue instance under several option sets; R9 classifies
//! each faulted trace and only unsatisfying ones are kept. Oracle: the release-mode prover fails,
//! or the verifier rejects the proof it produced.

use std::sync::Arc;

use mck::{json, Args, Report, Value, Violation};
use winterfell::AcceptableOptions;

use crate::cfg::*;
use crate::dispatch;
use crate::genair::*;

#[derive(Clone, Debug, PartialEq)]
pub enum Fault {
    /// cell (col, row) += 1
    Inc(usize, usize),
    /// cell (col, row) = 0
    Zero(usize, usize),
    /// whole row = 0
    ZeroRow(usize),
    /// every cell of a column += 1
    IncCol(usize),
    /// whole column = 0
    ZeroCol(usize),
    /// one column taken from the trace regenerated from another start
    SeedCol(usize),
    /// the whole trace regenerated from another start (all transitions valid, assertions break)
    OtherSeed,
    /// auxiliary cell (col, row) += 1, injected by the prover's aux-trace builder
    Aux(usize, usize),
    /// auxiliary column regenerated from another start value: every auxiliary transition holds,
    /// only the auxiliary assertion on that column is violated
    AuxStart(usize),
    /// claimed value k of assertion a += 1 at verification time (honest proof)
    Claim(usize, usize),
}

fn faults(s: &Shape) -> Vec<Fault> {
    let mut f = vec![Fault::OtherSeed];
    for c in 0..s.width() {
        for r in 0..s.n {
            f.push(Fault::Inc(c, r));
            f.push(Fault::Zero(c, r));
        }
    }
    for r in 0..s.n {
        f.push(Fault::ZeroRow(r));
    }
    for c in 0..s.width() {
        f.push(Fault::IncCol(c));
        f.push(Fault::ZeroCol(c));
        f.push(Fault::SeedCol(c));
    }
    if let Some((aw, _)) = s.aux {
        for c in 0..aw {
            for r in 0..s.n {
                f.push(Fault::Aux(c, r));
            }
            f.push(Fault::AuxStart(c));
        }
    }
    for (a, spec) in s.asserts.iter().enumerate() {
        let k = match spec {
            ASpec::Sequence { .. } => spec.steps(s.n).len(),
            _ => 1,
        };
        for i in 0..k {
            f.push(Fault::Claim(a, i));
        }
    }
    f
}

pub struct Out {
    evals: u64,
    kept: u64,
    skipped_satisfying: u64,
    prover_failed: u64,
    rejected: u64,
    reject_kinds: std::collections::BTreeMap<String, u64>,
    viol: Vec<Violation>,
}

fn kind(f: &Fault) -> String {
    format!("{f:?}").split('(').next().unwrap_or("").to_string()
}

fn run_g<B: BaseF, H: HF<B>>(shape: &Arc<Shape>, cfg: &Cfg, only: Option<&Fault>, claims_only: bool) -> Out {
    let mut o = Out { evals: 0, kept: 0, skipped_satisfying: 0, prover_failed: 0, rejected: 0, reject_kinds: Default::default(), viol: vec![] };
    let h = honest::<B>(shape);
    let own = AcceptableOptions::OptionSet(vec![cfg.options()]);
    let all = faults(shape);
    let fs: Vec<&Fault> = match only {
        Some(f) => vec![f],
        None => all.iter().filter(|f| !claims_only || matches!(f, Fault::Claim(..))).collect(),
    };
    // the honest proof, for the public-input faults
    let mut honest_bytes: Option<Vec<u8>> = None;
    for f in fs {
        o.evals += 1;
        let mut main = h.main.clone();
        let mut claimed = h.inputs.clone();
        let mut aux_fault = None;
        match *f {
            Fault::Inc(c, r) => main[c][r] += B::ONE,
            Fault::Zero(c, r) => main[c][r] = B::ZERO,
            Fault::ZeroRow(r) => (0..shape.width()).for_each(|c| main[c][r] = B::ZERO),
            Fault::IncCol(c) => (0..shape.n).for_each(|r| main[c][r] += B::ONE),
            Fault::ZeroCol(c) => (0..shape.n).for_each(|r| main[c][r] = B::ZERO),
            Fault::SeedCol(c) => {
                let mut s2 = (**shape).clone();
                s2.seed += 1;
                main[c] = gen_main::<B>(&s2)[c].clone();
            },
            Fault::OtherSeed => {
                let mut s2 = (**shape).clone();
                s2.seed += 1;
                main = gen_main::<B>(&s2);
            },
            Fault::Aux(c, r) => aux_fault = Some((c, r)),
            Fault::AuxStart(c) => aux_fault = Some((c, usize::MAX)),
            Fault::Claim(a, k) => claimed.values[a][k] += B::ONE,
        }
        // classification by the independent checker
        let unsat = match *f {
            Fault::Aux(_, r) => r == 0 || r <= shape.n - shape.exemptions,
            Fault::AuxStart(_) => true, // the assertion aux[c][0] = 1 is violated by construction
            _ => check_main(shape, &main, &claimed.values).is_err(),
        };
        if !unsat {
            o.skipped_satisfying += 1;
            continue;
        }
        o.kept += 1;
        let key = format!("{}@{}/{f:?}", shape.name, cfg.short());
        let replay = json!({"shape": shape.name, "cfg": cfg.to_json(), "fault": format!("{f:?}")});
        let bytes = if let Fault::Claim(..) = f {
            // honest trace, honest proof; the verifier is handed other public inputs
            if honest_bytes.is_none() {
                match prove_trace::<B, H>(shape, h.main.clone(), &h.inputs, cfg, None) {
                    Ok(p) => honest_bytes = Some(p.to_bytes()),
                    Err(e) => mck::report::machinery(&format!("C02: honest proof failed for {key}: {}", e.describe())),
                }
            }
            honest_bytes.clone().unwrap()
        } else {
            // the prover claims the honest statement about the faulted trace
            match prove_trace::<B, H>(shape, main, &h.inputs, cfg, aux_fault) {
                Ok(p) => p.to_bytes(),
                Err(_) => {
                    o.prover_failed += 1;
                    continue;
                },
            }
        };
        // a claimed-value fault is played twice: the honest proof checked against the false claim (above),
        // and a prover that makes the false claim itself about the honest trace (the transcript is then
        // consistent with the claim, so only the boundary constraints can reject)
        let mut all_bytes = vec![bytes];
        if let Fault::Claim(..) = f {
            o.evals += 1;
            o.kept += 1;
            match prove_trace::<B, H>(shape, h.main.clone(), &claimed, cfg, None) {
                Ok(p) => all_bytes.push(p.to_bytes()),
                Err(_) => o.prover_failed += 1,
            }
        }
        for (variant, bytes) in all_bytes.into_iter().enumerate() {
            let key = if variant == 1 { format!("{key}/prover-claims-it") } else { key.clone() };
            let replay = replay.clone();
            let proof = match decode(&bytes) {
                Ok(p) => p,
                Err(_) => {
                    o.prover_failed += 1;
                    continue;
                },
            };
            match verify_proof::<B, H>(proof, &claimed, &own) {
                Err(Fail::Err(e)) => {
                    o.rejected += 1;
                    *o.reject_kinds.entry(e.split(|c: char| c == ':' || c == ';').next().unwrap_or("").chars().take(60).collect()).or_default() += 1;
                },
                Err(Fail::Panic(p)) => o.viol.push(Violation { class: format!("verify_panic:{}", p.location), key, detail: format!("verifier panicked at {} ({}) on the proof of a faulted trace ({f:?}) of {}", p.location, p.message, shape.name), replay }),
                Ok(()) => o.viol.push(Violation {
                    class: format!("accepted_false_statement:{}", kind(f)),
                    key,
                    detail: format!("shape {} under {}: fault {f:?} makes the statement false (R9), the release prover produced a proof and the verifier ACCEPTED it{}", shape.name, cfg.short(), if variant == 1 { " (the prover made the false claim itself)" } else { "" }),
                    replay,
                }),
            }
        }
    }
    o
}

fn configs(thorough: bool) -> Vec<Cfg> {
    let mut v = vec![];
    let mut a = Cfg::base(Fid::F64, Hid::Blake3_256);
    a.queries = 1;
    a.blowup = 2; // raised to the shape's minimum where needed
    v.push(a.clone());
    let mut b = Cfg::base(Fid::F64, Hid::Blake3_256);
    b.ext = 2;
    b.bc = 1;
    b.bd = 2;
    v.push(b);
    let mut c = Cfg::base(Fid::F128, Hid::Sha3_256);
    c.queries = 4;
    c.bc = 2;
    c.bd = 1;
    v.push(c);
    let mut d = Cfg::base(Fid::F62, Hid::Rp62_248);
    d.ext = 3;
    d.parts = 2;
    d.rate = 4;
    v.push(d);
    if thorough {
        let mut e = Cfg::base(Fid::F64, Hid::Rp64_256);
        e.ext = 3;
        e.folding = 2;
        e.rem = 0;
        v.push(e);
        let mut f = Cfg::base(Fid::F128, Hid::Blake3_192);
        f.ext = 2;
        f.queries = 1;
        f.folding = 16;
        v.push(f);
        let mut g = Cfg::base(Fid::F64, Hid::RpJive64_256);
        g.queries = 2;
        g.blowup = 16;
        v.push(g);
    }
    v
}

fn parse_fault(t: &str) -> Fault {
    let nums: Vec<usize> = t.split(|c: char| !c.is_ascii_digit()).filter(|x| !x.is_empty()).filter_map(|x| x.parse().ok()).collect();
    let g = |i: usize| nums.get(i).copied().unwrap_or(0);
    match t.split('(').next().unwrap_or("") {
        "Inc" => Fault::Inc(g(0), g(1)),
        "Zero" => Fault::Zero(g(0), g(1)),
        "ZeroRow" => Fault::ZeroRow(g(0)),
        "IncCol" => Fault::IncCol(g(0)),
        "ZeroCol" => Fault::ZeroCol(g(0)),
        "SeedCol" => Fault::SeedCol(g(0)),
        "Aux" => Fault::Aux(g(0), g(1)),
        "AuxStart" => Fault::AuxStart(g(0)),
        "Claim" => Fault::Claim(g(0), g(1)),
        _ => Fault::OtherSeed,
    }
}

pub fn run(args: &Args) {
    let mut report = Report::new(args, "fault_enumeration");
    let thorough = args.tier == mck::Tier::Thorough;
    if let Some(v) = args.replay_value() {
        let shape = shape_by_name(v["shape"].as_str().unwrap_or(""));
        let cfg = Cfg::from_json(&v["cfg"]);
        let f = parse_fault(v["fault"].as_str().unwrap_or(""));
        let o = dispatch!(cfg, run_g, &shape, &cfg, Some(&f), false);
        report.part("replay", o.evals, o.kept, json!({}));
        report.violations(o.viol);
        report.finish(args)
    }
    let max_n = if thorough { 128 } else { 32 };
    let cat: Vec<Arc<Shape>> = catalogue(if thorough { 2 } else { 1 }).into_iter().filter(|s| s.n <= max_n && s.width() <= 9).collect();
    let mut jobs: Vec<(Arc<Shape>, Cfg, bool)> = vec![];
    for s in &cat {
        for c in configs(thorough) {
            let mut c = c.clone();
            c.blowup = c.blowup.max(s.min_blowup());
            if c.valid_for(s).is_ok() {
                jobs.push((s.clone(), c, false));
            }
        }
    }
    // every pair of a single and a sequence assertion (all strides, first steps and steps): each claimed
    // value +1 - a false statement about one asserted cell only, whatever groups the two assertions form
    let pairs = crate::cfg::group_pair_shapes();
    for s in &pairs {
        let mut c = configs(false)[0].clone();
        c.blowup = c.blowup.max(s.min_blowup());
        if c.valid_for(s).is_ok() {
            jobs.push((s.clone(), c, true));
        }
    }
    let outs = mck::par_map(jobs.len(), |i| {
        let (s, c, claims_only) = &jobs[i];
        dispatch!(c, run_g, s, c, None, *claims_only)
    });
    let (mut evals, mut kept, mut sat, mut pf, mut rej) = (0, 0, 0, 0, 0);
    let mut kinds: std::collections::BTreeMap<String, u64> = Default::default();
    for o in outs {
        evals += o.evals;
        kept += o.kept;
        sat += o.skipped_satisfying;
        pf += o.prover_failed;
        rej += o.rejected;
        for (k, n) in o.reject_kinds {
            *kinds.entry(k).or_default() += n;
        }
        report.violations(o.viol);
    }
    report.part(
        "every cell +1 / =0, every row zeroed, every column +1 / zeroed / from another start, other seed, every aux cell +1, every aux column from another start, every claimed value +1",
        evals,
        kept,
        json!({"instances": jobs.len(), "shapes": cat.len(), "assertion_group_pair_shapes_(claimed_value_faults_only)": pairs.len(), "faults_classified_unsatisfying_and_kept": kept, "faults_still_satisfying_and_skipped": sat,
               "prover_refused": pf, "verifier_rejected": rej, "rejections_by_error": kinds}),
    );
    report.sample(json!({"shape": "reset/n8/s4/z3/d1", "cfg": "1 query, blowup 2", "fault": "Inc(1, 3)", "oracle": "R9: unsatisfying; release prover yields a proof; verify must return Err (out-of-domain check)"}));
    report.exhaustive = true;
    report.rule = "one case per (shape, option set, single fault); non-trivial = faults the independent checker classifies as unsatisfying (only those are proved and verified)".into();
    report.bounds = json!({"max_trace_length": max_n, "option_sets": configs(thorough).len()});
    report.assumptions = vec![
        "rejection holds up to the Schwartz-Zippel error of the out-of-domain check (< 2^-50 per case, deterministic per instance)".into(),
        "an auxiliary cell fault is classified unsatisfying when the cell takes part in a checked transition or assertion (row 0, or row <= n - exemptions)".into(),
    ];
    report.finish(args)
}

#[allow(dead_code)]
fn _v(_: Value) {}
