//! C01 — honest proofs verify. Configuration-lattice enumeration (E5): every catalogue shape at
//! the base points, every value of every option dimension around the base points (deviation 1),
//! all pairs of dimensions over reduced lists (deviation 2, thorough), the bundled examples, and
//! the all-255-positions-distinct corner. Oracle: the proof survives its own encoding and the
//! verifier accepts it under `OptionSet{own}` and under `MinConjecturedSecurity(own level)`.

use std::collections::BTreeSet;
use std::sync::Arc;

use mck::{json, Args, Report, Value, Violation};
use winterfell::AcceptableOptions;

use crate::admit;
use crate::cfg::*;
use crate::dispatch;
use crate::genair::*;

#[derive(Clone)]
pub struct Case {
    pub shape: Arc<Shape>,
    pub cfg: Cfg,
    pub part: &'static str,
}

pub struct CaseOut {
    pub viol: Option<(String, String)>,
    pub skipped: Option<&'static str>,
    pub unique_queries: usize,
    pub proof_len: usize,
    pub comp_columns: usize,
}

fn run_case_g<B: BaseF, H: HF<B>>(c: &Case) -> CaseOut {
    let mut out = CaseOut { viol: None, skipped: None, unique_queries: 0, proof_len: 0, comp_columns: 0 };
    let h = honest::<B>(&c.shape);
    if let Err(e) = admit::admissible(&c.shape, &h.main) {
        mck::report::machinery(&format!("catalogue instance outside winterfell's contract: {e}"));
    }
    let proof = match prove_trace::<B, H>(&c.shape, h.main.clone(), &h.inputs, &c.cfg, None) {
        Ok(p) => p,
        Err(f) => {
            out.viol = Some((format!("prover_{}", f.site()), format!("prover failed on a satisfying trace: {}", f.describe())));
            return out;
        },
    };
    out.unique_queries = proof.num_unique_queries as usize;
    let bytes = proof.to_bytes();
    out.proof_len = bytes.len();
    let level = proof.conjectured_security::<H>().bits();
    let decoded = match decode(&bytes) {
        Ok(p) => p,
        Err(f) => {
            out.viol = Some((format!("decode_{}", f.site()), format!("the proof does not decode from its own {}-byte encoding: {}", bytes.len(), f.describe())));
            return out;
        },
    };
    if decoded.to_bytes() != bytes {
        out.viol = Some(("reencode_differs".into(), "decode(encode(proof)) re-encodes to different bytes".into()));
        return out;
    }
    let own = AcceptableOptions::OptionSet(vec![c.cfg.options()]);
    if let Err(f) = verify_proof::<B, H>(decoded.clone(), &h.inputs, &own) {
        out.viol = Some((format!("verify_{}", f.site()), format!("verifier rejected an honest proof under OptionSet{{own}}: {}", f.describe())));
        return out;
    }
    if let Err(f) = verify_proof::<B, H>(decoded, &h.inputs, &AcceptableOptions::MinConjecturedSecurity(level)) {
        out.viol = Some((format!("verify_minsec_{}", f.site()), format!("verifier rejected an honest proof under MinConjecturedSecurity({level}) = its own level: {}", f.describe())));
    }
    out
}

pub fn run_case(c: &Case) -> CaseOut {
    if let Err(why) = c.cfg.valid_for(&c.shape) {
        return CaseOut { viol: None, skipped: Some(why), unique_queries: 0, proof_len: 0, comp_columns: 0 };
    }
    dispatch!(c.cfg, run_case_g, c)
}

// LATTICE
// ================================================================================================

struct Dim {
    name: &'static str,
    /// shapes this dimension is exercised on
    shapes: Vec<&'static str>,
    /// every value of the dimension, as a transformation of the base configuration
    values: Vec<Cfg>,
}

fn hashers_of(f: Fid) -> Vec<Hid> {
    match f {
        Fid::F64 => vec![Hid::Blake3_256, Hid::Blake3_192, Hid::Sha3_256, Hid::Rp64_256, Hid::RpJive64_256],
        Fid::F128 => vec![Hid::Blake3_256, Hid::Blake3_192, Hid::Sha3_256],
        Fid::F62 => vec![Hid::Blake3_256, Hid::Sha3_256, Hid::Rp62_248],
    }
}

fn dims(base: &Cfg, thorough: bool) -> Vec<Dim> {
    let mut d = vec![];
    let with = |f: &dyn Fn(&mut Cfg)| {
        let mut c = base.clone();
        f(&mut c);
        c
    };
    d.push(Dim { name: "queries", shapes: vec!["long/n64"], values: (1..=255).map(|q| with(&|c| c.queries = q)).collect() });
    d.push(Dim { name: "blowup", shapes: vec!["pow2+sum1", "long/n64", "aux2x2/w3"], values: [2, 4, 8, 16, 32, 64, 128].iter().map(|&b| with(&|c| c.blowup = b)).collect() });
    let gmax = if thorough { 20 } else { 16 };
    d.push(Dim { name: "grinding", shapes: vec!["pow2+sum1"], values: (0..=gmax).map(|g| with(&|c| c.grinding = g)).collect() });
    d.push(Dim {
        name: "extension x hasher",
        shapes: vec!["pow2+sum1", "aux2x2/w3", "mulper2/c4/n8", "mixed-assertions"],
        values: hashers_of(base.field).into_iter().flat_map(|h| (1..=3u8).map(move |e| (h, e))).map(|(h, e)| with(&|c| { c.hasher = h; c.ext = e })).collect(),
    });
    d.push(Dim {
        name: "batching",
        shapes: vec!["mixed-assertions", "aux2x2/w3", "exempt2/n8/deg2"],
        values: (0..3u8).flat_map(|a| (0..3u8).map(move |b| (a, b))).flat_map(|(a, b)| (1..=2u8).map(move |e| (a, b, e))).map(|(a, b, e)| with(&|c| { c.bc = a; c.bd = b; c.ext = e })).collect(),
    });
    let rems: Vec<usize> = vec![0, 1, 3, 7, 15, 31, 63, 127, 255];
    d.push(Dim {
        name: "folding x remainder",
        shapes: vec!["pow2+sum1", "long/n64", "long/n256"],
        values: [2usize, 4, 8, 16].iter().flat_map(|&f| rems.iter().map(move |&r| (f, r))).flat_map(|(f, r)| [2usize, 8, 64].into_iter().map(move |b| (f, r, b))).map(|(f, r, b)| with(&|c| { c.folding = f; c.rem = r; c.blowup = b })).collect(),
    });
    let rates: Vec<usize> = vec![1, 2, 3, 4, 7, 8, 12, 16, 255, 256];
    d.push(Dim {
        name: "partitions x rate x extension",
        shapes: if thorough { vec!["wide1", "wide3", "wide4", "wide5", "wide8", "wide9", "wide16", "wide17", "wide33", "aux2x2/w3", "deg8+mulper"] } else { vec!["wide3", "wide9", "wide17", "aux2x2/w3", "deg8+mulper"] },
        values: (1..=16usize).flat_map(|p| rates.iter().map(move |&r| (p, r))).flat_map(|(p, r)| (1..=3u8).map(move |e| (p, r, e))).map(|(p, r, e)| with(&|c| { c.parts = p; c.rate = r; c.ext = e })).collect(),
    });
    d
}

fn reduced(dm: &Dim) -> Vec<Cfg> {
    // boundary values of a dimension for the pairwise (deviation 2) product
    let v = &dm.values;
    let mut idx: Vec<usize> = vec![0, 1, v.len() / 2, v.len() - 2, v.len() - 1];
    idx.retain(|i| *i < v.len());
    idx.sort();
    idx.dedup();
    idx.into_iter().map(|i| v[i].clone()).collect()
}

/// the fields of `b` that differ from `base` are copied onto `a`
fn overlay(base: &Cfg, a: &Cfg, b: &Cfg) -> Cfg {
    let mut c = a.clone();
    macro_rules! f {
        ($($x:ident),*) => { $( if b.$x != base.$x { c.$x = b.$x.clone(); } )* };
    }
    f!(hasher, queries, blowup, grinding, ext, folding, rem, bc, bd, parts, rate);
    c
}

pub fn build_cases(thorough: bool) -> Vec<Case> {
    let mut cases = vec![];
    let bases: Vec<Cfg> = if thorough {
        vec![Cfg::base(Fid::F64, Hid::Blake3_256), Cfg::base(Fid::F128, Hid::Sha3_256), Cfg::base(Fid::F62, Hid::Blake3_256), Cfg::base(Fid::F64, Hid::Rp64_256), Cfg::base(Fid::F62, Hid::Rp62_248)]
    } else {
        vec![Cfg::base(Fid::F64, Hid::Blake3_256), Cfg::base(Fid::F128, Hid::Sha3_256), Cfg::base(Fid::F62, Hid::Rp62_248)]
    };
    let cat = catalogue(if thorough { 2 } else { 1 });
    // (1) every catalogue shape at every base point, extensions 1 and 2, two partition settings
    for s in &cat {
        for b in &bases {
            for ext in 1..=2u8 {
                for (p, r) in [(1usize, 1usize), (4, 4)] {
                    let mut c = b.clone();
                    c.ext = ext;
                    c.parts = p;
                    c.rate = r;
                    // larger traces need fewer repetitions
                    if s.n > 256 && (ext, p) != (1, 1) {
                        continue;
                    }
                    cases.push(Case { shape: s.clone(), cfg: c, part: "catalogue x base points" });
                }
            }
        }
    }
    // (2) deviation 1: every value of every dimension around every base point
    for (bi, b) in bases.iter().enumerate() {
        for dm in dims(b, thorough) {
            // the expensive exhaustive dimensions only around the first two base points
            if bi >= 2 && matches!(dm.name, "queries" | "partitions x rate x extension" | "folding x remainder") && !thorough {
                continue;
            }
            for sn in &dm.shapes {
                let Some(s) = cat.iter().find(|s| s.name == *sn) else { continue };
                for v in &dm.values {
                    cases.push(Case { shape: s.clone(), cfg: v.clone(), part: "deviation 1" });
                }
            }
        }
    }
    // (3) deviation 2: all pairs of dimensions over reduced lists
    if thorough {
        for b in bases.iter().take(3) {
            let ds = dims(b, true);
            for i in 0..ds.len() {
                for j in i + 1..ds.len() {
                    for x in reduced(&ds[i]) {
                        for y in reduced(&ds[j]) {
                            let c = overlay(b, &x, &y);
                            for sn in ["long/n64", "aux2x2/w3", "wide9"] {
                                if let Some(s) = cat.iter().find(|s| s.name == sn) {
                                    cases.push(Case { shape: s.clone(), cfg: c.clone(), part: "deviation 2" });
                                }
                            }
                        }
                    }
                }
            }
        }
    }
    // (4) deviation 3 over boundary pairs: every triple of option dimensions, two off-base values
    // each, on the shapes that exercise the most machinery (auxiliary segment, several composition
    // columns, exemptions, periodic columns, long sequences) — interactions of three features
    {
        type Setter = fn(&mut Cfg, usize);
        let dims3: Vec<(&str, Setter)> = vec![
            ("extension", |c, k| c.ext = [2, 3][k]),
            ("partitions", |c, k| {
                let v = [(4usize, 4usize), (2, 8)][k];
                c.parts = v.0;
                c.rate = v.1;
            }),
            ("batching", |c, k| {
                let v = [(1u8, 2u8), (2, 1)][k];
                c.bc = v.0;
                c.bd = v.1;
            }),
            ("folding", |c, k| c.folding = [2, 16][k]),
            ("blowup", |c, k| c.blowup = [16, 32][k]),
            ("remainder", |c, k| c.rem = [0, 63][k]),
            ("queries", |c, k| c.queries = [1, 60][k]),
        ];
        let shapes3 = ["aux2x2+reset+exempt2", "deg8+mulper", "mixed-assertions", "seq/n128/f1/s2", "wide9"];
        let hashers3: Vec<(Fid, Hid)> = if thorough {
            vec![(Fid::F64, Hid::Blake3_256), (Fid::F64, Hid::Rp64_256), (Fid::F128, Hid::Sha3_256), (Fid::F62, Hid::Rp62_248), (Fid::F64, Hid::RpJive64_256), (Fid::F128, Hid::Blake3_192)]
        } else {
            vec![(Fid::F64, Hid::Blake3_256), (Fid::F128, Hid::Sha3_256)]
        };
        for (f, h) in hashers3 {
            let b = Cfg::base(f, h);
            for i in 0..dims3.len() {
                for j in i + 1..dims3.len() {
                    for k in j + 1..dims3.len() {
                        for m in 0..8usize {
                            let mut c = b.clone();
                            (dims3[i].1)(&mut c, m & 1);
                            (dims3[j].1)(&mut c, m >> 1 & 1);
                            (dims3[k].1)(&mut c, m >> 2 & 1);
                            for sn in shapes3 {
                                if let Some(s) = cat.iter().find(|s| s.name == sn) {
                                    cases.push(Case { shape: s.clone(), cfg: c.clone(), part: "deviation 3 (boundary pairs)" });
                                }
                            }
                        }
                    }
                }
            }
        }
    }
    cases
}

fn key_of(c: &Case) -> String {
    format!("{}@{}", c.shape.name, c.cfg.short())
}

fn to_violation(c: &Case, class: String, detail: String) -> Violation {
    Violation { class, key: key_of(c), detail: format!("shape {} under {}: {detail}", c.shape.name, c.cfg.short()), replay: json!({"shape": c.shape.name, "cfg": c.cfg.to_json()}) }
}

/// the corner where all 255 drawn positions are distinct: a 2^16-point LDE domain, deterministic
/// search over trace seeds
fn distinct_255(report: &mut Report, thorough: bool) {
    let mut found = 0u64;
    let mut tried = 0u64;
    let mut viols = vec![];
    for (field, hasher, ext) in [(Fid::F64, Hid::Blake3_256, 1u8), (Fid::F128, Hid::Sha3_256, 2)] {
        for seed in 1..=(if thorough { 12 } else { 6 }) {
            let s = Arc::new(Shape {
                name: format!("distinct255/seed{seed}"),
                n: 1024,
                cols: vec![Rule::Pow { d: 2, k: 1 }, Rule::Sum { d: 1 }],
                periodic: vec![],
                aux: None,
                exemptions: 1,
                asserts: vec![ASpec::Single { col: 0, step: 0 }, ASpec::Single { col: 1, step: 1023 }],
                meta: vec![],
                seed,
            });
            let mut cfg = Cfg::base(field, hasher);
            cfg.queries = 255;
            cfg.blowup = 64;
            cfg.ext = ext;
            cfg.rem = 255;
            let c = Case { shape: s, cfg, part: "255 distinct positions" };
            let o = run_case(&c);
            tried += 1;
            if let Some((class, detail)) = o.viol {
                viols.push(Violation { class, key: key_of(&c), detail: format!("{} ({} unique positions): {detail}", key_of(&c), o.unique_queries), replay: json!({"distinct255_seed": seed, "cfg": c.cfg.to_json()}) });
            }
            if o.unique_queries == 255 {
                found += 1;
                if !thorough {
                    break;
                }
            }
        }
    }
    report.part("255 queries on a 2^16 domain (seed search for pairwise distinct positions)", tried, found, json!({"instances_with_255_distinct_positions": found}));
    report.violations(viols);
}

#[cfg(not(feature = "ex"))]
fn examples_part(_report: &mut Report, _thorough: bool) {}

#[cfg(feature = "ex")]
fn examples_part(report: &mut Report, thorough: bool) {
    let (n, nontrivial, viols) = crate::examples_run::run(thorough);
    report.part("bundled examples (fib, fib8, mulfib, vdf, rescue, rescue-raps, merkle, lamport) x option sets", n, nontrivial, json!({}));
    report.violations(viols);
}

pub fn replay(v: &Value) -> Vec<Violation> {
    if let Some(seed) = v.get("distinct255_seed").and_then(|s| s.as_u64()) {
        let s = Arc::new(Shape { name: format!("distinct255/seed{seed}"), n: 1024, cols: vec![Rule::Pow { d: 2, k: 1 }, Rule::Sum { d: 1 }], periodic: vec![], aux: None, exemptions: 1,
            asserts: vec![ASpec::Single { col: 0, step: 0 }, ASpec::Single { col: 1, step: 1023 }], meta: vec![], seed });
        let c = Case { shape: s, cfg: Cfg::from_json(&v["cfg"]), part: "replay" };
        return run_case(&c).viol.map(|(cl, d)| vec![to_violation(&c, cl, d)]).unwrap_or_default();
    }
    #[cfg(feature = "ex")]
    if v.get("example").is_some() {
        return crate::examples_run::replay(v);
    }
    let c = Case { shape: shape_by_name(v["shape"].as_str().unwrap_or("")), cfg: Cfg::from_json(&v["cfg"]), part: "replay" };
    run_case(&c).viol.map(|(cl, d)| vec![to_violation(&c, cl, d)]).unwrap_or_default()
}

pub fn run(args: &Args) {
    let mut report = Report::new(args, "exploration");
    if let Some(v) = args.replay_value() {
        let vs = replay(&v);
        report.part("replay", 1, 1, json!({}));
        report.violations(vs);
        report.finish(args)
    }
    let thorough = args.tier == mck::Tier::Thorough;
    let cases = build_cases(thorough);
    // distinct cases only
    let mut seen = BTreeSet::new();
    let cases: Vec<Case> = cases.into_iter().filter(|c| seen.insert(key_of(c))).collect();
    let outs = mck::par_map(cases.len(), |i| run_case(&cases[i]));
    let mut per_part: std::collections::BTreeMap<&str, (u64, u64, u64)> = Default::default();
    let mut skipped: std::collections::BTreeMap<&str, u64> = Default::default();
    let mut max_unique = 0;
    let mut sizes = (usize::MAX, 0usize);
    for (c, o) in cases.iter().zip(outs.iter()) {
        let e = per_part.entry(c.part).or_default();
        if let Some(why) = o.skipped {
            e.2 += 1;
            *skipped.entry(why).or_default() += 1;
            continue;
        }
        e.0 += 1;
        // non-trivial = away from the plain base point in at least one way
        let b = Cfg::base(c.cfg.field, c.cfg.hasher);
        if c.cfg != b || c.shape.aux.is_some() || c.shape.exemptions > 1 || !c.shape.periodic.is_empty() {
            e.1 += 1;
        }
        max_unique = max_unique.max(o.unique_queries);
        sizes = (sizes.0.min(o.proof_len.max(1)), sizes.1.max(o.proof_len));
        if let Some((class, detail)) = &o.viol {
            report.violation(to_violation(c, class.clone(), detail.clone()));
        }
    }
    for (p, (n, nt, sk)) in &per_part {
        report.part(p, *n, *nt, json!({"lattice_points_excluded_by_validity_predicate": sk}));
    }
    distinct_255(&mut report, thorough);
    examples_part(&mut report, thorough);
    report.extra.insert("excluded_points_by_reason".into(), json!(skipped));
    report.extra.insert("max_unique_query_positions_in_lattice".into(), json!(max_unique));
    report.extra.insert("proof_size_range_bytes".into(), json!([sizes.0, sizes.1]));
    report.extra.insert("catalogue_shapes".into(), json!(catalogue(if thorough { 2 } else { 1 }).len()));
    report.sample(json!({"shape": "aux2x2/w3", "cfg": "F64/Rp64_256/q8/b8/g0/e3/f4/r7/bc0/bd0/p1x1", "oracle": "prove; bytes -> Proof -> same bytes; verify Ok under OptionSet{own} and MinConjecturedSecurity(own)"}));
    report.exhaustive = true;
    report.rule = "one case per distinct (shape, configuration) lattice point that the validity predicate admits; non-trivial = differs from the plain base point (some option off base, or a shape with aux segment / periodic columns / extra exemptions)".into();
    report.bounds = json!({"deviation": if thorough { 2 } else { 1 }, "bases": if thorough { 5 } else { 3 }, "catalogue_level": if thorough { 2 } else { 1 }});
    report.assumptions = vec![
        "validity predicate = documented constructor preconditions, blowup >= the AIR's minimum, queries < LDE size (draw_integers precondition), FRI remainder keeps >= 1 coefficient, supported extension".into(),
        "catalogue instances are admissible: the harness measures the actual degree of every transition constraint on the honest trace and requires it to equal the declaration".into(),
    ];
    report.finish(args)
}
