//! Configurations (E5 lattice points), field/hasher dispatch, the GenAir shape catalogue, and the
//! prove / verify primitives every STARK-level check uses.

use std::sync::Arc;

use mck::{json, Value};
use winter_air::proof::Proof;
use winterfell::crypto::hashers::{Blake3_192, Blake3_256, Rp62_248, Rp64_256, RpJive64_256, Sha3_256};
use winterfell::crypto::{DefaultRandomCoin, ElementHasher, MerkleTree};
use winterfell::math::fields::{f128, f62, f64};
use winterfell::{AcceptableOptions, BatchingMethod, FieldExtension, ProofOptions};

use crate::genair::*;

pub type B64 = f64::BaseElement;
pub type B62 = f62::BaseElement;
pub type B128 = f128::BaseElement;

#[derive(Clone, Copy, Debug, PartialEq, Eq, PartialOrd, Ord)]
pub enum Fid {
    F64,
    F128,
    F62,
}

#[derive(Clone, Copy, Debug, PartialEq, Eq, PartialOrd, Ord)]
pub enum Hid {
    Blake3_256,
    Blake3_192,
    Sha3_256,
    Rp64_256,
    RpJive64_256,
    Rp62_248,
}

#[derive(Clone, Debug, PartialEq, Eq)]
pub struct Cfg {
    pub field: Fid,
    pub hasher: Hid,
    pub queries: usize,
    pub blowup: usize,
    pub grinding: u32,
    /// extension degree 1, 2, 3
    pub ext: u8,
    pub folding: usize,
    pub rem: usize,
    /// batching methods 0 = linear, 1 = algebraic, 2 = horner
    pub bc: u8,
    pub bd: u8,
    pub parts: usize,
    pub rate: usize,
}

impl Cfg {
    pub fn base(field: Fid, hasher: Hid) -> Cfg {
        Cfg { field, hasher, queries: 8, blowup: 8, grinding: 0, ext: 1, folding: 4, rem: 7, bc: 0, bd: 0, parts: 1, rate: 1 }
    }
    pub fn to_json(&self) -> Value {
        json!({"field": format!("{:?}", self.field), "hasher": format!("{:?}", self.hasher), "queries": self.queries, "blowup": self.blowup, "grinding": self.grinding,
               "ext": self.ext, "folding": self.folding, "rem": self.rem, "bc": self.bc, "bd": self.bd, "parts": self.parts, "rate": self.rate})
    }
    pub fn from_json(v: &Value) -> Cfg {
        let u = |k: &str| v[k].as_u64().unwrap_or(0) as usize;
        Cfg {
            field: match v["field"].as_str().unwrap_or("") {
                "F128" => Fid::F128,
                "F62" => Fid::F62,
                _ => Fid::F64,
            },
            hasher: match v["hasher"].as_str().unwrap_or("") {
                "Blake3_192" => Hid::Blake3_192,
                "Sha3_256" => Hid::Sha3_256,
                "Rp64_256" => Hid::Rp64_256,
                "RpJive64_256" => Hid::RpJive64_256,
                "Rp62_248" => Hid::Rp62_248,
                _ => Hid::Blake3_256,
            },
            queries: u("queries"),
            blowup: u("blowup"),
            grinding: u("grinding") as u32,
            ext: u("ext") as u8,
            folding: u("folding"),
            rem: u("rem"),
            bc: u("bc") as u8,
            bd: u("bd") as u8,
            parts: u("parts"),
            rate: u("rate"),
        }
    }
    pub fn short(&self) -> String {
        format!("{:?}/{:?}/q{}/b{}/g{}/e{}/f{}/r{}/bc{}/bd{}/p{}x{}", self.field, self.hasher, self.queries, self.blowup, self.grinding, self.ext, self.folding, self.rem, self.bc, self.bd, self.parts, self.rate)
    }
    pub fn two_adicity(&self) -> u32 {
        match self.field {
            Fid::F64 => 32,
            Fid::F62 => 39,
            Fid::F128 => 40,
        }
    }
    /// the public constructors' documented preconditions (ProofOptions::new, PartitionOptions::new)
    pub fn constructible(&self) -> bool {
        (1..=255).contains(&self.queries)
            && self.blowup.is_power_of_two()
            && (2..=128).contains(&self.blowup)
            && self.grinding <= 32
            && self.folding.is_power_of_two()
            && (2..=16).contains(&self.folding)
            && (self.rem + 1).is_power_of_two()
            && self.rem <= 255
            && (1..=16).contains(&self.parts)
            && (1..=256).contains(&self.rate)
            && (1..=3).contains(&self.ext)
            && self.bc <= 2
            && self.bd <= 2
    }
    pub fn hasher_ok(&self) -> bool {
        matches!(
            (self.field, self.hasher),
            (Fid::F64, Hid::Blake3_256 | Hid::Blake3_192 | Hid::Sha3_256 | Hid::Rp64_256 | Hid::RpJive64_256)
                | (Fid::F128, Hid::Blake3_256 | Hid::Blake3_192 | Hid::Sha3_256)
                | (Fid::F62, Hid::Blake3_256 | Hid::Sha3_256 | Hid::Rp62_248)
        )
    }
    /// Validity predicate of the lattice (DESIGN section 4, E5): `Ok` iff proving this shape
    /// under this configuration is inside every documented precondition.
    pub fn valid_for(&self, s: &Shape) -> Result<(), &'static str> {
        if !self.constructible() {
            return Err("option constructor precondition");
        }
        if !self.hasher_ok() {
            return Err("hasher not defined over this field");
        }
        if self.ext == 3 && self.field == Fid::F128 {
            return Err("cubic extension unsupported for f128");
        }
        if self.blowup < s.min_blowup() {
            return Err("blowup below the AIR's minimum");
        }
        let lde = s.n * self.blowup;
        if lde.trailing_zeros() > self.two_adicity() {
            return Err("LDE domain exceeds the field's two-adicity");
        }
        if self.queries >= lde {
            return Err("draw_integers precondition: number of queries must be smaller than the LDE domain");
        }
        // FRI: the remainder must keep at least one coefficient
        let mut d = lde;
        while d > (self.rem + 1) * self.blowup {
            if d < self.folding {
                return Err("FRI folding factor exceeds a layer's domain");
            }
            d /= self.folding;
        }
        if d < self.blowup {
            return Err("FRI folding overshoots: remainder would have no coefficient");
        }
        if !s.exemptions_admissible() {
            return Err("transition exemption count outside the documented limit");
        }
        Ok(())
    }
    pub fn options(&self) -> ProofOptions {
        let bm = |b: u8| match b {
            0 => BatchingMethod::Linear,
            1 => BatchingMethod::Algebraic,
            _ => BatchingMethod::Horner,
        };
        let ext = match self.ext {
            1 => FieldExtension::None,
            2 => FieldExtension::Quadratic,
            _ => FieldExtension::Cubic,
        };
        ProofOptions::new(self.queries, self.blowup, self.grinding, ext, self.folding, self.rem, bm(self.bc), bm(self.bd)).with_partitions(self.parts, self.rate)
    }
}

/// `dispatch!(cfg, f, args…)` calls `f::<B, H>(args…)` for the configuration's field and hasher.
#[macro_export]
macro_rules! dispatch {
    ($cfg:expr, $f:ident $(, $arg:expr)*) => {{
        use $crate::cfg::{Fid, Hid, B128, B62, B64};
        use winterfell::crypto::hashers::{Blake3_192, Blake3_256, Rp62_248, Rp64_256, RpJive64_256, Sha3_256};
        match ($cfg.field, $cfg.hasher) {
            (Fid::F64, Hid::Blake3_256) => $f::<B64, Blake3_256<B64>>($($arg),*),
            (Fid::F64, Hid::Blake3_192) => $f::<B64, Blake3_192<B64>>($($arg),*),
            (Fid::F64, Hid::Sha3_256) => $f::<B64, Sha3_256<B64>>($($arg),*),
            (Fid::F64, Hid::Rp64_256) => $f::<B64, Rp64_256>($($arg),*),
            (Fid::F64, Hid::RpJive64_256) => $f::<B64, RpJive64_256>($($arg),*),
            (Fid::F128, Hid::Blake3_256) => $f::<B128, Blake3_256<B128>>($($arg),*),
            (Fid::F128, Hid::Blake3_192) => $f::<B128, Blake3_192<B128>>($($arg),*),
            (Fid::F128, Hid::Sha3_256) => $f::<B128, Sha3_256<B128>>($($arg),*),
            (Fid::F62, Hid::Blake3_256) => $f::<B62, Blake3_256<B62>>($($arg),*),
            (Fid::F62, Hid::Sha3_256) => $f::<B62, Sha3_256<B62>>($($arg),*),
            (Fid::F62, Hid::Rp62_248) => $f::<B62, Rp62_248>($($arg),*),
            _ => mck::report::machinery("dispatch: hasher not defined over this field"),
        }
    }};
}

#[allow(dead_code)]
fn _types() {
    let _: Option<(Blake3_192<B64>, Blake3_256<B64>, Rp62_248, Rp64_256, RpJive64_256, Sha3_256<B64>)> = None;
}

// PROVE / VERIFY PRIMITIVES
// ================================================================================================

pub trait HF<B: BaseF>: ElementHasher<BaseField = B> + Sync + Send {}
impl<B: BaseF, H: ElementHasher<BaseField = B> + Sync + Send> HF<B> for H {}

pub struct Honest<B: BaseF> {
    pub shape: Arc<Shape>,
    pub main: Vec<Vec<B>>,
    pub inputs: GenInputs<B>,
}

pub fn honest<B: BaseF>(shape: &Arc<Shape>) -> Honest<B> {
    let main = gen_main::<B>(shape);
    let inputs = read_inputs(shape, &main);
    Honest { shape: shape.clone(), main, inputs }
}

#[derive(Clone, Debug)]
pub enum Fail {
    Panic(mck::Panicked),
    Err(String),
}

impl Fail {
    pub fn describe(&self) -> String {
        match self {
            Fail::Panic(p) => format!("panic at {} ({})", p.location, p.message),
            Fail::Err(e) => format!("error: {e}"),
        }
    }
    pub fn site(&self) -> String {
        match self {
            Fail::Panic(p) => format!("panic:{}", p.location),
            Fail::Err(e) => format!("err:{}", e.split(|c: char| !c.is_alphanumeric() && c != ' ').next().unwrap_or("").trim().replace(' ', "_")),
        }
    }
}

/// Proves `main` (any trace, honest or not) against the claimed public inputs.
pub fn prove_trace<B: BaseF, H: HF<B>>(shape: &Arc<Shape>, main: Vec<Vec<B>>, claimed: &GenInputs<B>, cfg: &Cfg, aux_fault: Option<(usize, usize)>) -> Result<Proof, Fail> {
    let r = mck::catch(|| {
        let mut prover = GenProver::<B, H>::new(cfg.options(), claimed.clone());
        prover.aux_fault = aux_fault;
        let trace = GenTrace::new(shape, main);
        prove_with(&prover, trace)
    });
    match r {
        Err(p) => Err(Fail::Panic(p)),
        Ok(Err(e)) => Err(Fail::Err(format!("{e}"))),
        Ok(Ok(p)) => Ok(p),
    }
}

pub fn verify_proof<B: BaseF, H: HF<B>>(proof: Proof, inputs: &GenInputs<B>, acceptable: &AcceptableOptions) -> Result<(), Fail> {
    let r = mck::catch(|| winterfell::verify::<GenAir<B>, H, DefaultRandomCoin<H>, MerkleTree<H>>(proof, inputs.clone(), acceptable));
    match r {
        Err(p) => Err(Fail::Panic(p)),
        Ok(Err(e)) => Err(Fail::Err(format!("{e}"))),
        Ok(Ok(())) => Ok(()),
    }
}

pub fn decode(bytes: &[u8]) -> Result<Proof, Fail> {
    match mck::catch(|| Proof::from_bytes(bytes)) {
        Err(p) => Err(Fail::Panic(p)),
        Ok(Err(e)) => Err(Fail::Err(format!("{e}"))),
        Ok(Ok(p)) => Ok(p),
    }
}

// SHAPE CATALOGUE (fixed, ordered simplest-first)
// ================================================================================================

fn mask(stride: usize, zero_at: usize) -> Periodic {
    Periodic { values: (0..stride).map(|i| if i == zero_at { 0 } else { 1 }).collect() }
}
fn per(cycle: usize, salt: u64) -> Periodic {
    Periodic { values: (0..cycle as u64).map(|i| 2 + (i * i + 3 * i + salt) % 97).collect() }
}

fn shape(name: &str, n: usize, cols: Vec<Rule>, periodic: Vec<Periodic>, asserts: Vec<ASpec>) -> Shape {
    Shape { name: name.to_string(), n, cols, periodic, aux: None, exemptions: 1, asserts, meta: vec![], seed: 1 }
}

fn ends(col: usize, n: usize) -> Vec<ASpec> {
    vec![ASpec::Single { col, step: 0 }, ASpec::Single { col, step: n - 1 }]
}

/// The catalogue. `level` 0 = core (used where every shape is crossed with many configurations),
/// 1 = quick, 2 = thorough.
pub fn catalogue(level: u8) -> Vec<Arc<Shape>> {
    let mut v: Vec<Shape> = vec![];
    let n0 = 8;
    // --- one column, every declared degree ---------------------------------------------------------
    for d in 1..=8u32 {
        if level == 0 && ![1, 2, 3, 8].contains(&d) {
            continue;
        }
        v.push(shape(&format!("pow{d}"), n0, vec![Rule::Pow { d, k: 5 }], vec![], ends(0, n0)));
    }
    // --- two columns: product, sums, periodic terms -----------------------------------------------
    v.push(shape("pow2+sum1", n0, vec![Rule::Pow { d: 2, k: 1 }, Rule::Sum { d: 1 }], vec![], vec![ASpec::Single { col: 0, step: 0 }, ASpec::Single { col: 1, step: n0 - 1 }]));
    for d in 2..=5u32 {
        if level == 0 && d > 2 {
            continue;
        }
        v.push(shape(&format!("pow2+sum{d}"), 16, vec![Rule::Pow { d: 2, k: 1 }, Rule::Sum { d }], vec![], vec![ASpec::Single { col: 0, step: 0 }, ASpec::Single { col: 1, step: 15 }]));
    }
    for (n, c) in [(8usize, 2usize), (8, 4), (8, 8), (16, 2), (32, 32), (32, 8)] {
        if level == 0 && (n, c) != (8, 4) {
            continue;
        }
        v.push(shape(&format!("mul+per{c}/n{n}"), n, vec![Rule::Pow { d: 2, k: 3 }, Rule::Mul { p: 0 }], vec![per(c, 1)], vec![ASpec::Single { col: 1, step: 0 }, ASpec::Single { col: 0, step: n / 2 }]));
    }
    for (d, c) in [(1u32, 2usize), (2, 8), (3, 4)] {
        if level == 0 {
            continue;
        }
        v.push(shape(&format!("powper{d}/c{c}"), 16, vec![Rule::PowPer { d, p: 0 }, Rule::Sum { d: 1 }], vec![per(c, 2)], ends(0, 16)));
    }
    // --- multiplicative periodic columns (degree with cycles) ------------------------------------------
    for (d, c, n) in [(1u32, 2usize, 8usize), (2, 4, 8), (2, 8, 8), (3, 2, 16), (1, 16, 16), (2, 2, 32)] {
        if level == 0 && (d, c, n) != (2, 4, 8) {
            continue;
        }
        v.push(shape(&format!("mulper{d}/c{c}/n{n}"), n, vec![Rule::Pow { d: 2, k: 7 }, Rule::MulPer { d, p: 0 }], vec![per(c, 3)], vec![ASpec::Single { col: 1, step: 0 }, ASpec::Single { col: 1, step: n - 1 }]));
    }
    // two periodic columns with different cycles in one AIR
    if level >= 1 {
        v.push(shape("mulper+mul/c2,c8", 16, vec![Rule::Pow { d: 2, k: 7 }, Rule::MulPer { d: 1, p: 0 }, Rule::Mul { p: 1 }], vec![per(2, 4), per(8, 5)], vec![ASpec::Single { col: 1, step: 0 }, ASpec::Single { col: 2, step: 3 }]));
    }
    // --- reset columns with periodic assertions -----------------------------------------------------------
    for (n, stride, zero_at, d) in [(8usize, 2usize, 0usize, 1u32), (8, 4, 3, 1), (8, 8, 7, 2), (16, 4, 1, 2), (16, 16, 5, 1), (32, 2, 1, 1), (32, 8, 0, 2)] {
        if level == 0 && (n, stride) != (8, 4) {
            continue;
        }
        let first = (zero_at + 1) % stride;
        v.push(shape(
            &format!("reset/n{n}/s{stride}/z{zero_at}/d{d}"),
            n,
            vec![Rule::Pow { d: 3, k: 2 }, Rule::Reset { d, p: 0, v: 42 }],
            vec![mask(stride, zero_at)],
            vec![ASpec::Periodic { col: 1, first, stride }, ASpec::Single { col: 0, step: 0 }],
        ));
    }
    // --- transition exemptions ---------------------------------------------------------------------------
    for (n, e) in [(8usize, 2usize), (8, 3), (8, 4), (8, 5), (16, 2), (16, 8), (16, 9), (32, 2), (32, 17)] {
        if level == 0 && (n, e) != (8, 2) && (n, e) != (8, 5) {
            continue;
        }
        let mut s = shape(&format!("exempt{e}/n{n}/deg2"), n, vec![Rule::Pow { d: 2, k: 1 }, Rule::Sum { d: 2 }], vec![], vec![ASpec::Single { col: 0, step: 0 }, ASpec::Single { col: 1, step: 0 }]);
        s.exemptions = e;
        v.push(s);
        if level >= 1 {
            let mut s = shape(&format!("exempt{e}/n{n}/deg3"), n, vec![Rule::Pow { d: 3, k: 1 }, Rule::Sum { d: 1 }], vec![], vec![ASpec::Single { col: 0, step: 0 }, ASpec::Single { col: 1, step: 0 }]);
            s.exemptions = e;
            v.push(s);
        }
    }
    // --- auxiliary segment -----------------------------------------------------------------------------------
    for (aw, ar, w) in [(1usize, 1usize, 2usize), (1, 2, 2), (2, 1, 2), (2, 2, 3), (2, 2, 1), (3, 1, 2), (3, 2, 1)] {
        if level == 0 && (aw, ar, w) != (2, 2, 3) {
            continue;
        }
        let cols: Vec<Rule> = (0..w).map(|j| if j == 0 { Rule::Pow { d: 2, k: 9 } } else { Rule::Sum { d: 1 + (j as u32 % 2) } }).collect();
        let mut s = shape(&format!("aux{aw}x{ar}/w{w}"), 8, cols, vec![], ends(0, 8));
        s.aux = Some((aw, ar));
        v.push(s);
    }
    if level >= 1 {
        let mut s = shape("aux2x2+reset+exempt2", 16, vec![Rule::Pow { d: 2, k: 9 }, Rule::Reset { d: 1, p: 0, v: 11 }], vec![mask(4, 2)], vec![ASpec::Periodic { col: 1, first: 3, stride: 4 }, ASpec::Single { col: 0, step: 0 }]);
        s.aux = Some((2, 2));
        s.exemptions = 2;
        v.push(s);
    }
    // --- sequence assertions -------------------------------------------------------------------------------------
    for (n, first, stride) in [(8usize, 0usize, 2usize), (8, 1, 2), (8, 3, 4), (8, 0, 8), (16, 1, 4), (32, 0, 2), (64, 1, 2), (128, 0, 2), (128, 1, 2), (256, 1, 4)] {
        if level == 0 && (n, first) != (8, 1) {
            continue;
        }
        if level < 2 && n > 128 {
            continue;
        }
        v.push(shape(&format!("seq/n{n}/f{first}/s{stride}"), n, vec![Rule::Pow { d: 2, k: 1 }, Rule::Sum { d: 1 }], vec![], vec![ASpec::Sequence { col: 1, first, stride }, ASpec::Single { col: 0, step: 0 }]));
    }
    // --- several assertions of all kinds on one trace (groups with equal and different divisors) --------------------
    v.push(shape(
        "mixed-assertions",
        16,
        vec![Rule::Pow { d: 2, k: 1 }, Rule::Sum { d: 1 }, Rule::Reset { d: 1, p: 0, v: 5 }],
        vec![mask(4, 0)],
        vec![
            ASpec::Single { col: 0, step: 0 },
            ASpec::Single { col: 0, step: 5 },
            ASpec::Single { col: 1, step: 5 },
            ASpec::Sequence { col: 1, first: 2, stride: 4 },
            ASpec::Periodic { col: 2, first: 1, stride: 4 },
            ASpec::Single { col: 2, step: 15 },
        ],
    ));
    // --- widths around partition boundaries ---------------------------------------------------------------------------
    let widths: &[usize] = if level == 0 { &[3, 9] } else if level == 1 { &[1, 3, 4, 5, 8, 9, 16, 17, 33] } else { &[1, 2, 3, 4, 5, 7, 8, 9, 12, 15, 16, 17, 24, 31, 32, 33, 64, 100] };
    for &w in widths {
        let cols: Vec<Rule> = (0..w).map(|j| if j % 3 == 0 { Rule::Pow { d: 2, k: 1 + j as u64 } } else { Rule::Sum { d: 1 + (j as u32 % 2) } }).collect();
        v.push(shape(&format!("wide{w}"), 8, cols, vec![], vec![ASpec::Single { col: 0, step: 0 }, ASpec::Single { col: w - 1, step: 7 }]));
    }
    // --- many composition columns: high degree at larger blowup ----------------------------------------------------------
    if level >= 1 {
        v.push(shape("deg8+mulper", 16, vec![Rule::Pow { d: 8, k: 1 }, Rule::MulPer { d: 7, p: 0 }], vec![per(4, 6)], ends(1, 16)));
        v.push(shape("deg5", 32, vec![Rule::Pow { d: 5, k: 1 }, Rule::Sum { d: 4 }], vec![], ends(1, 32)));
    }
    // --- metadata ----------------------------------------------------------------------------------------------------------
    {
        let mut s = shape("meta", 8, vec![Rule::Pow { d: 2, k: 1 }], vec![], ends(0, 8));
        s.meta = vec![1, 0, 255, 7];
        v.push(s);
    }
    // --- longer traces ----------------------------------------------------------------------------------------------------------
    let lengths: &[usize] = if level == 0 { &[64] } else if level == 1 { &[64, 256] } else { &[64, 256, 1024, 4096] };
    for &n in lengths {
        v.push(shape(&format!("long/n{n}"), n, vec![Rule::Pow { d: 2, k: 1 }, Rule::Mul { p: 0 }, Rule::Sum { d: 2 }], vec![per(4, 9)], vec![ASpec::Single { col: 0, step: 0 }, ASpec::Single { col: 2, step: n - 1 }]));
    }
    if level >= 2 {
        // second seeds for a few shapes
        let extra: Vec<Shape> = v.iter().take(30).map(|s| Shape { seed: 2, name: format!("{}#2", s.name), ..s.clone() }).collect();
        v.extend(extra);
    }
    v.into_iter().map(Arc::new).collect()
}

pub fn shape_by_name(name: &str) -> Arc<Shape> {
    catalogue(2).into_iter().chain(group_pair_shapes()).find(|s| s.name == name).unwrap_or_else(|| mck::report::machinery(&format!("unknown shape {name:?}")))
}

/// Every pair (single assertion at step s, sequence assertion with stride t and first step f) on two
/// columns of a 16-row trace: the two assertions belong to different boundary-constraint groups for
/// every (s, t, f), whatever the grouping key looks like.
pub fn group_pair_shapes() -> Vec<Arc<Shape>> {
    let mut v = vec![];
    for t in [2usize, 4, 8] {
        for f in 0..t {
            for s in 0..16usize {
                v.push(Arc::new(shape(
                    &format!("group-pair/single@{s}+seq@{f}/{t}"),
                    16,
                    vec![Rule::Pow { d: 2, k: 1 }, Rule::Sum { d: 1 }],
                    vec![],
                    vec![ASpec::Single { col: 0, step: s }, ASpec::Sequence { col: 1, first: f, stride: t }],
                )));
            }
        }
    }
    v
}
