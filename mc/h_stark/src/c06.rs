//! C06 — proof bytes are independent of threading and build features. The serial build writes
//! reference fingerprints; the `conc` build (winterfell's `concurrent` feature on top of the
//! controlled scheduler vrayon, engine E3) re-proves every instance for every thread count and
//! every explored task schedule (deviation-bounded: one, thorough two, regions run in an
//! alternative order) and every nonce choice; the `async` build re-proves through the async prover.
//! Oracle: context, commitments and OOD frame byte-identical everywhere; the whole proof
//! identical whenever the nonce is.

use std::collections::BTreeMap;
use std::sync::Arc;

use mck::{json, Args, Report, Value, Violation};
use winter_utils::Serializable;

use crate::cfg::*;
use crate::dispatch;
use crate::genair::*;

#[derive(Clone)]
pub struct Inst {
    pub key: String,
    pub shape: Arc<Shape>,
    pub cfg: Cfg,
    /// large instance: thread counts in submission order only (no per-region deviations)
    pub light: bool,
}

fn big_shape(n: usize, aux: bool, seed: u64) -> Arc<Shape> {
    Arc::new(Shape {
        name: format!("c06/n{n}/aux{}", aux as u8),
        n,
        // the last column multiplies by the long periodic column: a main constraint whose periodic
        // values differ between the parallel fragments of the constraint evaluation table
        cols: vec![Rule::Pow { d: 2, k: 1 }, Rule::Mul { p: 0 }, Rule::Reset { d: 1, p: 1, v: 9 }, Rule::MulPer { d: 1, p: 2 }],
        // the last column (cycle n/2, longer than any parallel fragment) is the one the auxiliary rule reads
        periodic: vec![Periodic { values: vec![3, 5, 7, 11] }, Periodic { values: vec![1, 1, 1, 0, 1, 1, 1, 1] }, Periodic { values: (0..n as u64 / 2).map(|i| i * i + 1).collect() }],
        aux: if aux { Some((2, 2)) } else { None },
        exemptions: if aux { 2 } else { 1 },
        asserts: vec![ASpec::Single { col: 0, step: 0 }, ASpec::Periodic { col: 2, first: 4, stride: 8 }, ASpec::Sequence { col: 1, first: 1, stride: n / 4 }],
        meta: vec![7, 0],
        seed,
    })
}

pub fn instances(thorough: bool) -> Vec<Inst> {
    let mut v = vec![];
    let mut add = |n: usize, aux: bool, f: Fid, h: Hid, b: usize, ext: u8, q: usize, g: u32, parts: (usize, usize)| {
        let mut c = Cfg::base(f, h);
        c.blowup = b;
        c.ext = ext;
        c.queries = q;
        c.grinding = g;
        c.folding = 4;
        c.rem = 31;
        c.parts = parts.0;
        c.rate = parts.1;
        let s = big_shape(n, aux, 1);
        // constraint evaluation in fragments starts at 8192 rows: those instances run the thread-count sweep only
        let light = n == 4096 && q == 8;
        v.push(Inst { key: format!("{}@{}", s.name, c.short()), shape: s, cfg: c, light });
    };
    // straddle the thresholds: FFT / segment 1024, Merkle 1024 leaves, batch_iter_mut 1024*T, transpose 1024
    add(1024, false, Fid::F64, Hid::Blake3_256, 2, 1, 16, 3, (1, 1));
    add(512, true, Fid::F64, Hid::Blake3_256, 8, 2, 12, 0, (2, 4));
    // auxiliary constraints evaluated in fragments (constraint evaluation domain 8192)
    add(4096, true, Fid::F64, Hid::Blake3_256, 2, 1, 8, 0, (1, 1));
    add(4096, false, Fid::F64, Hid::Blake3_256, 2, 1, 8, 0, (1, 1));
    if thorough {
        add(256, false, Fid::F64, Hid::Blake3_256, 4, 1, 8, 0, (1, 1)); // everything below the thresholds
        add(2048, true, Fid::F128, Hid::Sha3_256, 2, 2, 20, 2, (1, 1));
        add(4096, false, Fid::F64, Hid::Blake3_256, 2, 1, 24, 0, (4, 8));
        add(1024, true, Fid::F64, Hid::Rp64_256, 4, 3, 8, 0, (1, 1));
        add(1024, false, Fid::F62, Hid::Blake3_256, 8, 2, 8, 4, (1, 1));
        add(512, false, Fid::F128, Hid::Blake3_192, 2, 1, 8, 0, (1, 1));
        add(8192, false, Fid::F64, Hid::Blake3_256, 2, 1, 8, 0, (1, 1));
        add(128, true, Fid::F64, Hid::Blake3_256, 16, 2, 8, 0, (1, 1));
    }
    v
}

#[derive(Clone, PartialEq, Eq, Debug)]
pub struct Print {
    committed: String,
    nonce: u64,
    full_len: usize,
    full_h1: u64,
    full_h2: u64,
}

impl Print {
    fn to_json(&self) -> Value {
        json!({"committed": self.committed, "nonce": self.nonce, "len": self.full_len, "h1": self.full_h1.to_string(), "h2": self.full_h2.to_string()})
    }
    fn from_json(v: &Value) -> Print {
        Print {
            committed: v["committed"].as_str().unwrap_or("").to_string(),
            nonce: v["nonce"].as_u64().unwrap_or(0),
            full_len: v["len"].as_u64().unwrap_or(0) as usize,
            full_h1: v["h1"].as_str().unwrap_or("0").parse().unwrap_or(0),
            full_h2: v["h2"].as_str().unwrap_or("0").parse().unwrap_or(0),
        }
    }
}

fn print_of<B: BaseF, H: HF<B>>(i: &Inst) -> Result<Print, String> {
    let h = honest::<B>(&i.shape);
    let p = prove_trace::<B, H>(&i.shape, h.main.clone(), &h.inputs, &i.cfg, None).map_err(|f| f.describe())?;
    let mut c = p.context.to_bytes();
    c.extend(p.commitments.to_bytes());
    c.extend(p.ood_frame.to_bytes());
    let full = p.to_bytes();
    let h2 = full.iter().enumerate().fold(0u64, |a, (k, b)| a.wrapping_mul(1_000_003).wrapping_add((*b as u64 + 1) * (k as u64 + 7)));
    Ok(Print { committed: format!("{:016x}{:016x}:{}", mck::fnv(&c), c.iter().fold(0u64, |a, b| a.rotate_left(7) ^ (*b as u64 + 0x9E)), c.len()), nonce: p.pow_nonce, full_len: full.len(), full_h1: mck::fnv(&full), full_h2: h2 })
}

pub fn fingerprint(i: &Inst) -> Result<Print, String> {
    dispatch!(i.cfg, print_of, i)
}

fn compare(what: &str, i: &Inst, got: &Result<Print, String>, want: &Print, sched: &Value, out: &mut Vec<Violation>) {
    let replay = json!({"instance": i.key, "schedule": sched});
    match got {
        Err(e) => out.push(Violation { class: format!("prover_failed:{what}"), key: format!("{}/{sched}", i.key), detail: format!("{what}: prover failed under schedule {sched}: {e}"), replay }),
        Ok(g) => {
            if g.committed != want.committed {
                out.push(Violation { class: format!("committed_bytes_differ:{what}"), key: format!("{}/{sched}", i.key), detail: format!("{}: context / commitments / OOD frame differ from the serial build's under {what} schedule {sched}", i.key), replay });
            } else if g.nonce == want.nonce && (g.full_len, g.full_h1, g.full_h2) != (want.full_len, want.full_h1, want.full_h2) {
                out.push(Violation { class: format!("proof_bytes_differ:{what}"), key: format!("{}/{sched}", i.key), detail: format!("{}: same nonce {} but the proof bytes differ from the serial build's under {what} schedule {sched}", i.key, g.nonce), replay });
            }
        },
    }
}

// SCHEDULE EXPLORATION (conc build)
// ================================================================================================

#[cfg(feature = "conc")]
mod sched {
    use super::*;
    use rayon::{self as vr, Controller, Order, Region};

    pub struct RunOut {
        pub print: Result<Print, String>,
        pub log: Vec<Region>,
        pub task_runs: u64,
    }

    /// one execution under (T, deviations, nonce choice k)
    pub fn run(i: &Inst, threads: usize, devs: &[(usize, Order)], find_k: usize) -> RunOut {
        let d: Vec<(usize, Order)> = devs.to_vec();
        let mut c = Controller::new(threads, Box::new(move |r: &Region| d.iter().find(|(id, _)| *id == r.id).map(|(_, o)| o.clone()).unwrap_or(Order::Submission)));
        c.find_k = find_k;
        let (print, c) = vr::with_controller(c, || fingerprint(i));
        RunOut { print, log: c.log, task_runs: c.task_runs }
    }

    pub fn order_json(o: &Order) -> Value {
        json!(format!("{o:?}"))
    }

    pub fn parse_order(s: &str) -> Order {
        let nums: Vec<usize> = s.split(|c: char| !c.is_ascii_digit()).filter(|x| !x.is_empty()).filter_map(|x| x.parse().ok()).collect();
        if s.starts_with("Reverse") {
            Order::Reverse
        } else if s.starts_with("Rotate") {
            Order::Rotate(nums[0])
        } else if s.starts_with("Transpose") {
            Order::Transpose(nums[0])
        } else if s.starts_with("Perm") {
            Order::Perm(nums)
        } else {
            Order::Submission
        }
    }

    pub struct Stats {
        pub schedules: u64,
        pub nontrivial: u64,
        pub task_runs: u64,
        pub regions_default: Vec<(usize, usize, usize)>,
    }

    /// bound 0 for every T, bound 1 (and 2) for the listed Ts
    pub fn explore(i: &Inst, want: &Print, ts_all: &[usize], ts_dev: &[usize], level: u8, bound2: bool, viol: &mut Vec<Violation>) -> Stats {
        let mut st = Stats { schedules: 0, nontrivial: 0, task_runs: 0, regions_default: vec![] };
        for &t in ts_all {
            let base = run(i, t, &[], 0);
            st.schedules += 1;
            st.task_runs += base.task_runs;
            compare("conc", i, &base.print, want, &json!({"threads": t, "deviations": [], "find_k": 0}), viol);
            let multi: Vec<&Region> = base.log.iter().filter(|r| r.tasks >= 2).collect();
            st.regions_default.push((t, base.log.len(), multi.len()));
            // nonce choices: any valid nonce is legal; the committed prefix must not move
            for k in 1..=2usize {
                let r = run(i, t, &[], k);
                st.schedules += 1;
                st.nontrivial += 1;
                compare("conc", i, &r.print, want, &json!({"threads": t, "deviations": [], "find_k": k}), viol);
            }
            if !ts_dev.contains(&t) {
                continue;
            }
            // deviation 1: one region in an alternative order — sharded over harness threads
            let mut jobs: Vec<(usize, usize, Order)> = vec![];
            for r in &multi {
                for o in vr::alternatives(r.tasks, level) {
                    jobs.push((r.id, r.tasks, o));
                }
            }
            let outs = mck::par_map(jobs.len(), |j| {
                let (id, m, o) = &jobs[j];
                let r = run(i, t, &[(*id, o.clone())], 0);
                // replay discipline: the deviating region must be the same region as in the default run
                if r.log.get(*id).map(|x| x.tasks) != Some(*m) {
                    mck::report::machinery(&format!("E3 replay divergence: region {id} of {} has {:?} tasks, default run had {m}", i.key, r.log.get(*id).map(|x| x.tasks)));
                }
                let mut v = vec![];
                compare("conc", i, &r.print, want, &json!({"threads": t, "deviations": [[id, order_json(o)]], "find_k": 0}), &mut v);
                (v, r.task_runs)
            });
            for (v, tr) in outs {
                st.schedules += 1;
                st.nontrivial += 1;
                st.task_runs += tr;
                viol.extend(v);
            }
            if bound2 {
                // deviation 2: every pair of multi-task regions, reduced alternative set
                let ids: Vec<(usize, usize)> = multi.iter().map(|r| (r.id, r.tasks)).collect();
                let mut pairs: Vec<((usize, Order), (usize, Order))> = vec![];
                for a in 0..ids.len() {
                    for b in a + 1..ids.len() {
                        for oa in vr::alternatives(ids[a].1, 0).into_iter().take(1) {
                            for ob in vr::alternatives(ids[b].1, 0).into_iter().take(1) {
                                pairs.push(((ids[a].0, oa.clone()), (ids[b].0, ob)));
                            }
                        }
                    }
                }
                let outs = mck::par_map(pairs.len(), |j| {
                    let (a, b) = &pairs[j];
                    let r = run(i, t, &[a.clone(), b.clone()], 0);
                    let mut v = vec![];
                    compare("conc", i, &r.print, want, &json!({"threads": t, "deviations": [[a.0, order_json(&a.1)], [b.0, order_json(&b.1)]], "find_k": 0}), &mut v);
                    (v, r.task_runs)
                });
                for (v, tr) in outs {
                    st.schedules += 1;
                    st.nontrivial += 1;
                    st.task_runs += tr;
                    viol.extend(v);
                }
            }
        }
        st
    }

    /// trace tables filled through the parallel fragment iterator, every order
    pub fn tables(viol: &mut Vec<Violation>) -> (u64, u64) {
        use winterfell::iterators::*;
        use winterfell::{Trace, TraceTable};
        let (mut n_runs, mut nontrivial) = (0, 0);
        let row = |i: usize, w: usize| -> Vec<B64> { (0..w).map(|j| lit::<B64>((i as u64 + 1) * 1_000_003 + j as u64 * 7 + 1)).collect() };
        for w in [1usize, 3] {
            for lg in 3..=7u32 {
                let n = 1usize << lg;
                let cols: Vec<Vec<B64>> = (0..w).map(|j| (0..n).map(|i| row(i, w)[j]).collect()).collect();
                let want = TraceTable::init(cols);
                let mut flen = 2;
                while flen <= n {
                    let k = n / flen;
                    let mut orders = vec![Order::Submission];
                    orders.extend(vr::alternatives(k, 1));
                    for o in orders {
                        for t in [1usize, 4] {
                            let oo = o.clone();
                            let c = Controller::new(t, Box::new(move |_| oo.clone()));
                            let (tab, _) = vr::with_controller(c, || {
                                let mut tab = TraceTable::<B64>::new(w, n);
                                tab.fragments(flen).for_each(|mut fr| {
                                    let off = fr.offset();
                                    fr.fill(|s| s.copy_from_slice(&row(off, w)), |i, s| s.copy_from_slice(&row(off + i + 1, w)));
                                });
                                tab
                            });
                            n_runs += 1;
                            if k > 1 && o != Order::Submission {
                                nontrivial += 1;
                            }
                            if (0..w).any(|c| tab.get_column(c) != want.get_column(c)) || tab.length() != n {
                                viol.push(Violation { class: "table:parallel_fragments_differ".into(), key: format!("w{w}/n{n}/f{flen}/{o:?}"), detail: format!("{w}x{n} table filled through the parallel fragment iterator (fragment length {flen}, order {o:?}, {t} threads) differs from the sequentially built one"), replay: json!({"tables": true}) });
                            }
                        }
                    }
                    flen *= 2;
                }
            }
        }
        (n_runs, nontrivial)
    }
}

pub fn run(args: &Args) {
    let mut report = Report::new(args, "model_checking");
    let thorough = args.tier == mck::Tier::Thorough;
    let insts = instances(thorough);
    let variant = args.variant.trim_end_matches(".replay").to_string();
    // the reference file written by the serial build
    let ref_path = args.rest.iter().position(|a| a == "--ref").and_then(|k| args.rest.get(k + 1)).cloned();
    let load_ref = || -> BTreeMap<String, Print> {
        let p = ref_path.clone().unwrap_or_else(|| mck::report::machinery("C06: this variant needs --ref <result file of the serial variant>"));
        let v: Value = mck::from_str(&std::fs::read_to_string(&p).unwrap_or_else(|e| mck::report::machinery(&format!("C06: cannot read {p}: {e}")))).unwrap_or_else(|_| mck::report::machinery("C06: bad reference file"));
        v["extra"]["reference"].as_object().map(|m| m.iter().map(|(k, x)| (k.clone(), Print::from_json(x))).collect()).unwrap_or_default()
    };

    if variant == "release" || variant == "serial" {
        // serial build: produce the reference (twice: the prover itself must be deterministic)
        let outs = mck::par_map(insts.len(), |k| (fingerprint(&insts[k]), fingerprint(&insts[k])));
        let mut reference = mck::Map::new();
        let mut viol = vec![];
        for (i, (a, b)) in insts.iter().zip(outs) {
            match (a, b) {
                (Ok(a), Ok(b)) => {
                    if a != b {
                        viol.push(Violation { class: "serial_prover_nondeterministic".into(), key: i.key.clone(), detail: format!("{}: two serial runs give different proofs", i.key), replay: json!({"instance": i.key}) });
                    }
                    reference.insert(i.key.clone(), a.to_json());
                },
                (Err(e), _) | (_, Err(e)) => mck::report::machinery(&format!("C06: serial prover failed on {}: {e}", i.key)),
            }
        }
        report.part("serial build: reference proofs (each proved twice)", 2 * insts.len() as u64, 0, json!({"instances": insts.iter().map(|i| i.key.clone()).collect::<Vec<_>>()}));
        report.violations(viol);
        report.extra.insert("reference".into(), Value::Object(reference));
        report.states = Some(insts.len() as u64);
        report.transitions = Some(0);
    } else if variant == "async" {
        let reference = load_ref();
        let mut viol = vec![];
        for i in &insts {
            let Some(want) = reference.get(&i.key) else { mck::report::machinery(&format!("C06: no reference for {}", i.key)) };
            compare("async", i, &fingerprint(i), want, &json!("async prover"), &mut viol);
        }
        report.part("async build: every instance through the async prover (no-op-waker executor)", insts.len() as u64, insts.len() as u64, json!({"async_feature": cfg!(feature = "async")}));
        if !cfg!(feature = "async") {
            mck::report::machinery("C06: the async variant was built without the async feature");
        }
        report.violations(viol);
        report.states = Some(insts.len() as u64);
        report.transitions = Some(0);
    } else {
        #[cfg(not(feature = "conc"))]
        mck::report::machinery("C06: the conc variant was built without the conc feature");
        #[cfg(feature = "conc")]
        {
            let reference = load_ref();
            let mut viol = vec![];
            if let Some(v) = args.replay_value() {
                if v.get("tables").is_some() {
                    sched::tables(&mut viol);
                } else {
                    let key = v["instance"].as_str().unwrap_or("");
                    let i = instances(true).into_iter().find(|i| i.key == key).unwrap_or_else(|| mck::report::machinery("C06 replay: unknown instance"));
                    let s = &v["schedule"];
                    let devs: Vec<(usize, rayon::Order)> = s["deviations"].as_array().map(|a| a.iter().map(|d| (d[0].as_u64().unwrap_or(0) as usize, sched::parse_order(d[1].as_str().unwrap_or("")))).collect()).unwrap_or_default();
                    let t = s["threads"].as_u64().unwrap_or(1) as usize;
                    let k = s["find_k"].as_u64().unwrap_or(0) as usize;
                    let (r1, r2) = (sched::run(&i, t, &devs, k), sched::run(&i, t, &devs, k));
                    if r1.print != r2.print {
                        mck::report::machinery("C06 replay: the same schedule gave two different results (uncontrolled nondeterminism)");
                    }
                    if let Some(want) = reference.get(&i.key) {
                        compare("conc", &i, &r1.print, want, s, &mut viol);
                    }
                }
                report.part("replay", 1, 1, json!({}));
                report.violations(viol);
                report.finish(args)
            }
            let ts_all: Vec<usize> = vec![1, 2, 3, 4, 5, 8, 16];
            let ts_dev: Vec<usize> = if thorough { vec![2, 3, 4, 8, 16] } else { vec![2, 4] };
            let (mut schedules, mut nontrivial, mut task_runs) = (0u64, 0u64, 0u64);
            let mut notes = vec![];
            for i in &insts {
                let Some(want) = reference.get(&i.key) else { mck::report::machinery(&format!("C06: no reference for {}", i.key)) };
                // determinism of the controlled run itself: the same schedule twice
                let (a, b) = (sched::run(i, 4, &[], 0), sched::run(i, 4, &[], 0));
                if a.print != b.print || a.log != b.log {
                    mck::report::machinery(&format!("C06: two runs of the default schedule of {} differ (a source of nondeterminism is not owned)", i.key));
                }
                // large instances: full alternative sets only for the smaller ones
                let level = if thorough && i.shape.n <= 1024 { 1 } else { 0 };
                let (ta, td): (Vec<usize>, Vec<usize>) = if i.light { (vec![1, 2, 3, 16], vec![]) } else { (ts_all.clone(), ts_dev.clone()) };
                let st = sched::explore(i, want, &ta, &td, level, thorough && i.shape.n <= 512, &mut viol);
                schedules += st.schedules;
                nontrivial += st.nontrivial;
                task_runs += st.task_runs;
                notes.push(json!({"instance": i.key, "schedules": st.schedules, "regions_(threads,total,with>=2_tasks)": st.regions_default}));
            }
            report.part("conc build under the controlled scheduler: T in {1,2,3,4,5,8,16} x default order; nonce choices k = 1, 2; every multi-task region in every alternative order (deviation 1; thorough: pairs)", schedules, nontrivial, json!(notes));
            let (tn, tnt) = sched::tables(&mut viol);
            report.part("trace tables through the parallel fragment iterator: every fragment length x every alternative order x T in {1,4}", tn, tnt, json!({}));
            report.violations(viol);
            report.states = Some(schedules + tn);
            report.transitions = Some(task_runs);
            report.traces_validated = Some(schedules);
        }
    }
    report.sample(json!({"instance": "c06/n1024/aux0@F64/Blake3_256/q16/b2/g3", "schedule": {"threads": 4, "deviations": [[17, "Reverse"]], "find_k": 0}, "oracle": "context + commitments + OOD frame equal to the serial build's; full proof equal when the nonce is"}));
    report.exhaustive = true;
    report.rule = "states = (instance, thread count, schedule) executions of the real prover under the controlled scheduler; non-trivial = schedules that differ from the submission order in a region with >= 2 tasks, or pick another valid nonce".into();
    report.bounds = json!({"variant": variant, "thread_counts": [1, 2, 3, 4, 5, 8, 16], "deviation_bound": if thorough { 2 } else { 1 }, "instances": insts.len()});
    report.assumptions = vec![
        "tasks are atomic: winterfell's parallel tasks contain no synchronisation, so task order and thread count are the only scheduling freedom; a data race inside two tasks whose both complete orders give the serial result is invisible".into(),
        "with_min_len is ignored (every element is its own task): a finer granularity than rayon's, so more orders, never fewer".into(),
    ];
    report.finish(args)
}
