//! C28 — trace / composition LDEs and row commitments match their definitions. Exhaustive over
//! column counts around every segment width, polynomial sizes, blowups, offsets and base /
//! extension columns: `RowMatrix::evaluate_polys[_over]`, `ColMatrix::evaluate_columns_over` and
//! `interpolate_columns` against naive evaluation (R2); `commit_to_rows` against the R5 root over
//! the per-row digests of the partition rule the verifier applies, re-implemented from its
//! documentation. The conc build repeats the sizes across the parallel thresholds under the
//! controlled scheduler (E3).

use mck::{json, Args, Report, Violation};
use refm::merkle as r5;
use winterfell::crypto::hashers::{Blake3_256, Rp64_256};
use winterfell::crypto::{ElementHasher, Hasher, MerkleTree};
use winterfell::math::fields::{CubeExtension, QuadExtension};
use winterfell::math::{fft, FieldElement, StarkField};
use winterfell::matrix::{ColMatrix, RowMatrix};
use winterfell::{PartitionOptions, StarkDomain};

use crate::cfg::*;

struct S {
    evals: u64,
    nontrivial: u64,
    viol: Vec<Violation>,
}

impl S {
    fn fail(&mut self, class: &str, key: String, detail: String) {
        if self.viol.iter().filter(|v| v.class == class).count() < 4 {
            self.viol.push(Violation { class: class.to_string(), key: key.clone(), detail, replay: json!({"case": key}) });
        }
    }
}

fn poly<E: FieldElement>(n: usize, c: usize) -> Vec<E> {
    // index-labelled coefficients: any transposition / reordering shows
    (0..n).map(|i| E::from(((c as u32 + 1) * 1_000_003).wrapping_add(i as u32 * 97 + 5)) + E::from(i as u32 + 3).square() * E::from(65_521u32)).collect()
}

fn horner<E: FieldElement>(p: &[E], x: E::BaseField) -> E {
    let x = E::from(x);
    p.iter().rev().fold(E::ZERO, |a, c| a * x + *c)
}

fn lde_points<B: StarkField>(n: usize, blowup: usize, offset: B) -> Vec<B> {
    let g = B::get_root_of_unity((n * blowup).trailing_zeros());
    let mut x = offset;
    (0..n * blowup)
        .map(|_| {
            let r = x;
            x *= g;
            r
        })
        .collect()
}

fn lde_case<E: FieldElement, const N: usize>(ename: &str, cols: usize, n: usize, blowup: usize, tag: &str, s: &mut S)
where
    E::BaseField: StarkField,
{
    let polys: Vec<Vec<E>> = (0..cols).map(|c| poly::<E>(n, c)).collect();
    let cm = ColMatrix::new(polys.clone());
    let key = format!("{ename}/N={N}/cols={cols}/n={n}/blowup={blowup}{tag}");
    s.evals += 1;
    if cols % N != 0 || cols > N {
        s.nontrivial += 1; // partial or several segments
    }
    for (what, offset) in [("evaluate_polys", <E::BaseField as StarkField>::GENERATOR), ("evaluate_polys_over", E::BaseField::from(7u8))] {
        let xs = lde_points::<E::BaseField>(n, blowup, offset);
        let rm = match mck::catch(|| {
            if what == "evaluate_polys" {
                RowMatrix::<E>::evaluate_polys::<N>(&cm, blowup)
            } else {
                let dom = StarkDomain::from_twiddles(fft::get_twiddles::<E::BaseField>(n), blowup, offset);
                RowMatrix::<E>::evaluate_polys_over::<N>(&cm, &dom)
            }
        }) {
            Ok(r) => r,
            Err(p) => {
                s.fail(&format!("panic:{what}:{}", p.location), key.clone(), format!("{what} panicked at {} ({}) for {key}", p.location, p.message));
                continue;
            },
        };
        if rm.num_rows() != n * blowup || rm.num_cols() != cols {
            s.fail(&format!("wrong:{what}:shape"), key.clone(), format!("{what}: {} x {} matrix for {key}", rm.num_rows(), rm.num_cols()));
            continue;
        }
        // rows: all of them for small cases, a spread beyond
        let rows: Vec<usize> = if n * blowup <= 256 { (0..n * blowup).collect() } else { (0..n * blowup).step_by((n * blowup) / 64).chain([1, n * blowup - 1]).collect() };
        for r in rows {
            let want: Vec<E> = polys.iter().map(|p| horner(p, xs[r])).collect();
            if rm.row(r) != &want[..] {
                let c = (0..cols).find(|c| rm.row(r)[*c] != want[*c]);
                s.fail(&format!("wrong:{what}:row"), key.clone(), format!("{what}: row {r} (column {c:?}) differs from the column polynomials evaluated at offset * g^{r} for {key}"));
                break;
            }
        }
        if what == "evaluate_polys_over" {
            // the column-major twin
            let dom = StarkDomain::from_twiddles(fft::get_twiddles::<E::BaseField>(n), blowup, offset);
            match mck::catch(|| cm.evaluate_columns_over(&dom)) {
                Ok(ev) => {
                    let bad = (0..cols).any(|c| (0..n * blowup).step_by(((n * blowup) / 32).max(1)).any(|r| ev.get(c, r) != horner(&polys[c], xs[r])));
                    if bad || ev.num_rows() != n * blowup || ev.num_cols() != cols {
                        s.fail("wrong:evaluate_columns_over", key.clone(), format!("ColMatrix::evaluate_columns_over differs from naive evaluation for {key}"));
                    }
                },
                Err(p) => s.fail(&format!("panic:evaluate_columns_over:{}", p.location), key.clone(), p.message),
            }
        }
    }
    // interpolation inverts evaluation over the trace domain
    let g = <E::BaseField as StarkField>::get_root_of_unity(n.trailing_zeros());
    let mut x = <E::BaseField as FieldElement>::ONE;
    let trace_xs: Vec<E::BaseField> = (0..n)
        .map(|_| {
            let r = x;
            x *= g;
            r
        })
        .collect();
    let values: Vec<Vec<E>> = polys.iter().map(|p| trace_xs.iter().map(|x| horner(p, *x)).collect()).collect();
    match mck::catch(|| ColMatrix::new(values.clone()).interpolate_columns()) {
        Ok(ip) => {
            if (0..cols).any(|c| ip.get_column(c) != &polys[c][..]) {
                s.fail("wrong:interpolate_columns", key.clone(), format!("interpolate_columns does not return the polynomials that reproduce the trace for {key}"));
            }
        },
        Err(p) => s.fail(&format!("panic:interpolate_columns:{}", p.location), key, p.message),
    }
}

/// the documented partition rule
fn row_digest<H: ElementHasher, E: FieldElement<BaseField = H::BaseField>>(row: &[E], parts: usize, rate: usize) -> H::Digest {
    let cols = row.len();
    let size = if parts == 1 { cols } else { cols.div_ceil(parts).max(rate / E::EXTENSION_DEGREE) };
    if size == cols {
        H::hash_elements(row)
    } else {
        let ds: Vec<H::Digest> = row.chunks(size).map(|c| H::hash_elements(c)).collect();
        H::merge_many(&ds)
    }
}

fn commit_case<H: ElementHasher + Sync, E: FieldElement<BaseField = H::BaseField>>(name: &str, cols: usize, rows_log: u32, parts: usize, rate: usize, tag: &str, s: &mut S)
where
    H::BaseField: StarkField,
{
    let n = 1usize << rows_log;
    let polys: Vec<Vec<E>> = (0..cols).map(|c| poly::<E>(n / 2, c)).collect();
    let key = format!("{name}/cols={cols}/rows={n}/partitions={parts}x{rate}{tag}");
    let rm = match mck::catch(|| RowMatrix::<E>::evaluate_polys::<8>(&ColMatrix::new(polys), 2)) {
        Ok(r) => r,
        Err(p) => return s.fail(&format!("panic:evaluate_polys:{}", p.location), key.clone(), format!("evaluate_polys (input of commit_to_rows) panicked at {} ({}) for {key}", p.location, p.message)),
    };
    s.evals += 1;
    if parts > 1 {
        s.nontrivial += 1;
    }
    let po = PartitionOptions::new(parts, rate);
    let tree: MerkleTree<H> = match mck::catch(|| rm.commit_to_rows::<H, MerkleTree<H>>(po)) {
        Ok(t) => t,
        Err(p) => return s.fail(&format!("panic:commit_to_rows:{}", p.location), key.clone(), format!("commit_to_rows panicked at {} ({}) for {key}", p.location, p.message)),
    };
    let leaves: Vec<H::Digest> = (0..n).map(|r| row_digest::<H, E>(rm.row(r), parts, rate)).collect();
    let want = r5::root(&leaves, &|a: &H::Digest, b: &H::Digest| H::merge(&[*a, *b]));
    if *tree.root() != want {
        s.fail("wrong:commit_to_rows", key.clone(), format!("row commitment differs from the Merkle root over the per-row digests of the documented partition rule for {key}"));
    } else if tree.leaves() != &leaves[..] {
        s.fail("wrong:commit_to_rows:leaves", key, "row digests differ".into());
    }
}

macro_rules! for_widths {
    ($f:ident, $e:ty, $name:expr, $cols:expr, $n:expr, $b:expr, $tag:expr, $s:expr, $nw:expr) => {
        match $nw {
            1 => $f::<$e, 1>($name, $cols, $n, $b, $tag, $s),
            2 => $f::<$e, 2>($name, $cols, $n, $b, $tag, $s),
            4 => $f::<$e, 4>($name, $cols, $n, $b, $tag, $s),
            _ => $f::<$e, 8>($name, $cols, $n, $b, $tag, $s),
        }
    };
}

fn lde_sweep(thorough: bool) -> S {
    let mut jobs: Vec<(usize, usize, usize, usize, usize)> = vec![]; // (field kind, N, cols, n, blowup)
    for fk in 0..4 {
        for nw in [1usize, 2, 4, 8] {
            for cols in 1..=2 * nw + 1 {
                for n in [8usize, 16, 64] {
                    for b in [2usize, 4, 8, 16] {
                        if fk >= 2 && (n > 16 && b > 4) && !thorough {
                            continue;
                        }
                        jobs.push((fk, nw, cols, n, b));
                    }
                }
                let big: &[(usize, usize)] = if thorough { &[(128, 2), (256, 8), (512, 2), (512, 16), (1024, 2)] } else { &[(128, 2), (512, 2)] };
                for &(n, b) in big {
                    if fk <= 1 || thorough {
                        jobs.push((fk, nw, cols, n, b));
                    }
                }
            }
        }
    }
    let outs = mck::par_map(jobs.len(), |j| {
        let (fk, nw, cols, n, b) = jobs[j];
        let mut s = S { evals: 0, nontrivial: 0, viol: vec![] };
        match fk {
            0 => for_widths!(lde_case, B64, "f64", cols, n, b, "", &mut s, nw),
            1 => for_widths!(lde_case, QuadExtension<B64>, "f64^2", cols, n, b, "", &mut s, nw),
            2 => for_widths!(lde_case, CubeExtension<B64>, "f64^3", cols, n, b, "", &mut s, nw),
            _ => for_widths!(lde_case, B128, "f128", cols, n, b, "", &mut s, nw),
        }
        s
    });
    let mut t = S { evals: 0, nontrivial: 0, viol: vec![] };
    for o in outs {
        t.evals += o.evals;
        t.nontrivial += o.nontrivial;
        t.viol.extend(o.viol);
    }
    t
}

fn commit_sweep(thorough: bool) -> S {
    let rates: Vec<usize> = vec![1, 2, 4, 7, 8, 12, 255, 256];
    let mut jobs: Vec<(usize, usize, usize, usize)> = vec![]; // (kind, cols, parts, rate)
    for kind in 0..4 {
        for cols in 1..=20usize {
            for parts in 1..=16usize {
                for &rate in &rates {
                    if kind == 3 && !(thorough || (parts <= 4 && cols <= 9)) {
                        continue; // Rescue hashing is ~50x slower
                    }
                    jobs.push((kind, cols, parts, rate));
                }
            }
        }
    }
    let outs = mck::par_map(jobs.len(), |j| {
        let (kind, cols, parts, rate) = jobs[j];
        let mut s = S { evals: 0, nontrivial: 0, viol: vec![] };
        match kind {
            0 => commit_case::<Blake3_256<B64>, B64>("Blake3_256/f64", cols, 4, parts, rate, "", &mut s),
            1 => commit_case::<Blake3_256<B64>, QuadExtension<B64>>("Blake3_256/f64^2", cols, 4, parts, rate, "", &mut s),
            2 => commit_case::<Blake3_256<B64>, CubeExtension<B64>>("Blake3_256/f64^3", cols, 4, parts, rate, "", &mut s),
            _ => commit_case::<Rp64_256, QuadExtension<B64>>("Rp64_256/f64^2", cols, 3, parts, rate, "", &mut s),
        }
        s
    });
    let mut t = S { evals: 0, nontrivial: 0, viol: vec![] };
    for o in outs {
        t.evals += o.evals;
        t.nontrivial += o.nontrivial;
        t.viol.extend(o.viol);
    }
    t
}

#[cfg(feature = "conc")]
fn run_conc(args: &Args) -> ! {
    let mut report = Report::new(args, "exploration");
    let thorough = args.tier == mck::Tier::Thorough;
    let ts_all = [1usize, 2, 3, 4, 5, 8, 16];
    let ts_dev: Vec<usize> = if thorough { vec![2, 4, 8] } else { vec![2, 4] };
    // (cols, n, blowup): LDE domains on both sides of 1024 and commitments beyond 128 * T rows
    let cases: Vec<(usize, usize, usize)> = if thorough { vec![(3, 256, 2), (3, 256, 4), (9, 512, 2), (5, 1024, 2), (17, 1024, 4), (3, 2048, 2)] } else { vec![(3, 256, 4), (9, 512, 2), (5, 1024, 2)] };
    let outs = mck::par_map(cases.len() * 3, |j| {
        let (cols, n, b) = cases[j / 3];
        let mut s = S { evals: 0, nontrivial: 0, viol: vec![] };
        let st = rayon::explore(&ts_all, &ts_dev, 0, |tag| {
            let tag = format!(" [{tag}]");
            if j % 3 == 2 {
                // cubic columns: segments start in the middle of an extension element (first case only:
                // 3 cubic columns = 9 base columns over segment width 8, LDE domain 1024)
                if j / 3 == 0 {
                    lde_case::<CubeExtension<B64>, 8>("f64^3", cols, n, b, &tag, &mut s);
                }
            } else if j % 3 == 0 {
                lde_case::<B64, 8>("f64", cols, n, b, &tag, &mut s);
                commit_case::<Blake3_256<B64>, B64>("Blake3_256/f64", cols, (n * b).trailing_zeros(), 1, 1, &tag, &mut s);
            } else {
                lde_case::<QuadExtension<B64>, 8>("f64^2", cols, n, b, &tag, &mut s);
                commit_case::<Blake3_256<B64>, QuadExtension<B64>>("Blake3_256/f64^2", cols, (n * b).trailing_zeros(), 4, 4, &tag, &mut s);
            }
        });
        (s, st)
    });
    // short and wide: few LDE rows, many segments, many threads (the matrix is large enough for the
    // parallel transposition although it has fewer rows than the number of batches the thread count asks for)
    let wide: Vec<(usize, usize, usize)> = vec![(200, 8, 2), (100, 16, 2), (255, 8, 4)];
    let wouts = mck::par_map(wide.len(), |j| {
        let (cols, n, b) = wide[j];
        let mut s = S { evals: 0, nontrivial: 0, viol: vec![] };
        let st = rayon::explore(&[1, 2, 4, 8, 16, 32, 64], &[], 0, |tag| {
            let tag = format!(" [{tag}]");
            lde_case::<CubeExtension<B64>, 8>("f64^3", cols, n, b, &tag, &mut s);
            lde_case::<B64, 8>("f64", cols, n, b, &tag, &mut s);
        });
        (s, st)
    });
    let (mut evals, mut sched, mut nontrivial, mut tasks) = (0, 0, 0, 0);
    for (s, st) in wouts {
        evals += s.evals;
        sched += st.schedules;
        nontrivial += st.nontrivial;
        tasks += st.task_runs;
        report.violations(s.viol);
    }
    let mut regions = vec![];
    for (j, (s, st)) in outs.into_iter().enumerate() {
        evals += s.evals;
        sched += st.schedules;
        nontrivial += st.nontrivial;
        tasks += st.task_runs;
        if j % 3 == 0 {
            regions.push(json!({"case_(cols,n,blowup)": cases[j / 3], "regions_(threads,total,multi)": st.regions}));
        }
        report.violations(s.viol);
    }
    report.part("conc build under the controlled scheduler: evaluate_polys[_over], evaluate_columns_over, interpolate_columns, commit_to_rows across the parallel thresholds, T in {1,2,3,4,5,8,16}, every region reversed and rotated", evals, nontrivial,
        json!({"schedules": sched, "task_executions": tasks, "regions": regions}));
    report.exhaustive = true;
    report.bounds = json!({"cases": cases, "thread_counts": ts_all, "deviation_bound": 1, "short_and_wide_cases_(cols,n,blowup)": wide, "short_and_wide_thread_counts": [1, 2, 4, 8, 16, 32, 64]});
    report.rule = "one case per (function, shape, schedule)".into();
    report.assumptions = vec!["tasks are atomic (no scheduling point inside a task)".into()];
    report.finish(args)
}

pub fn run(args: &Args) {
    #[cfg(feature = "conc")]
    if args.variant.starts_with("conc") {
        run_conc(args);
    }
    let mut report = Report::new(args, "exploration");
    let thorough = args.tier == mck::Tier::Thorough;
    let a = lde_sweep(thorough);
    report.part("LDE: segment widths N in {1,2,4,8} x column counts 1..2N+1 x sizes 8..512 (1024) x blowups 2..16 x f64 / f64^2 / f64^3 / f128: evaluate_polys, evaluate_polys_over (offset 7), evaluate_columns_over, interpolate_columns vs naive evaluation", a.evals, a.nontrivial, json!({}));
    report.violations(a.viol);
    let b = commit_sweep(thorough);
    report.part("row commitments: widths 1..20 x partitions 1..16 x hash rates {1,2,4,7,8,12,255,256} x base / quadratic / cubic columns (Blake3_256; Rp64_256 on a sub-grid) vs R5 root over the documented per-row partition digests", b.evals, b.nontrivial, json!({}));
    report.violations(b.viol);
    report.sample(json!({"function": "evaluate_polys::<4>", "columns": 5, "n": 16, "blowup": 8, "oracle": "row r = [p_c(GENERATOR * g^r)] by Horner for every r"}));
    report.exhaustive = true;
    report.rule = "one case per (element type, segment width, column count, size, blowup) resp. (hasher, width, partition setting); non-trivial = column counts that leave a partial segment or need several, resp. more than one partition".into();
    report.bounds = json!({"segment_widths": [1, 2, 4, 8], "columns": "1..=2N+1", "sizes": if thorough { "8..1024" } else { "8..512" }, "blowups": [2, 4, 8, 16], "variant": args.variant});
    report.assumptions = vec!["H::hash_elements / merge_many / merge are the primitives C15/C16 check; the partition rule is transcribed from the PartitionOptions documentation".into(), "rows of large matrices are compared on a spread of 64 rows plus the edges".into()];
    report.finish(args)
}

#[allow(dead_code)]
fn _h<H: Hasher>() {}
