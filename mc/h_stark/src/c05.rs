//! C05 — deserialising and verifying untrusted proofs never crashes or hangs. The C04 mutant
//! corpus, verified under all three acceptance modes against the right and a wrong public input,
//! plus every component decoder on all short byte strings, every prefix and every R8 edit of its
//! honest encoding — all in isolated workers (address-space cap, watchdog). Oracle: a value or an
//! error; never a panic, an abort, a signal or a timeout.

use std::collections::BTreeMap;

use mck::pool::{self, Outcome, PoolCfg};
use mck::{json, Args, Report, Violation};
use refm::proofcodec as r8;

use crate::mutants::*;

#[derive(Default)]
struct Acc {
    total: u64,
    clean: u64,
    unconfirmed: u64,
    viol: Vec<(usize, Violation)>,
}

/// (class, detail) of everything in a reply that is not a value or an error
fn offences(o: &Outcome) -> Vec<(String, String)> {
    match o {
        Outcome::Died { signal, code } => vec![(format!("abort:signal={signal:?}:code={code:?}"), "the worker process died (allocation failure / stack overflow / abort)".into())],
        Outcome::Timeout => vec![("timeout".into(), "no answer within the watchdog (10 s)".into())],
        Outcome::Reply(_) => {
            let Some(r) = parse_reply(o) else { return vec![("machinery:unparsable-reply".into(), "worker reply is not JSON".into())] };
            let mut out = vec![];
            let d = r["d"].as_str().unwrap_or("");
            if let Some(rest) = d.strip_prefix("panic:") {
                let loc = rest.split('|').next().unwrap_or("?");
                out.push((format!("panic:decode:{loc}"), format!("Proof::from_bytes panicked: {rest}")));
            }
            if let Some(a) = r["v"].as_array() {
                let names = ["OptionSet/right", "MinConjectured/right", "MinProven/right", "OptionSet/wrong", "MinConjectured/wrong", "MinProven/wrong"];
                for (x, n) in a.iter().zip(names) {
                    if let Some(rest) = x.as_str().and_then(|s| s.strip_prefix("P:")) {
                        // class = file + leading words of the message (line numbers shift with unrelated edits)
                        let mut it = rest.split('|');
                        let loc = it.next().unwrap_or("?");
                        let file = loc.rsplit_once(':').map(|x| x.0).unwrap_or(loc);
                        let words: Vec<&str> = it.next().unwrap_or("").split(|c: char| !c.is_alphanumeric()).filter(|w| !w.is_empty() && !w.chars().all(|c| c.is_ascii_digit())).take(4).collect();
                        let c = format!("panic:verify:{file}:{}", words.join("_"));
                        if !out.iter().any(|(k, _)| *k == c) {
                            out.push((c, format!("verify ({n}) panicked: {rest}")));
                        }
                    }
                }
            }
            out
        },
    }
}

pub fn run(args: &Args) {
    let mut report = Report::new(args, "fault_enumeration");
    let thorough = args.tier == mck::Tier::Thorough;
    let cfg = pool_cfg();
    let ccfg = PoolCfg::this("C05", "components");
    pool::self_test(&ccfg, &[], |r| r == [0xAA]);
    if let Some(v) = args.replay_value() {
        let (pc, payload) = if let Some(k) = v.get("component").and_then(|k| k.as_u64()) {
            let mut p = vec![k as u8];
            p.extend(mck::unhex(v["bytes"].as_str().unwrap_or("")));
            (&ccfg, p)
        } else {
            let mut p = vec![v["corpus"].as_u64().unwrap_or(0) as u8];
            p.extend(crate::mutants::replay_bytes(&v));
            (&cfg, p)
        };
        let (o1, o2) = (pool::run_single(pc, &payload), pool::run_single(pc, &payload));
        if std::mem::discriminant(&o1) != std::mem::discriminant(&o2) {
            mck::report::machinery("C05 replay: two executions of the same case disagree");
        }
        for (class, detail) in offences(&o1) {
            report.violation(Violation { class, key: "replay".into(), detail, replay: v.clone() });
        }
        report.part("replay", 1, 1, json!({}));
        report.finish(args)
    }

    // ---- part 1: whole proofs ---------------------------------------------------------------------
    let corp = corpus();
    // the build with overflow checks and debug assertions runs a reduced corpus in the quick tier
    let use_ids: Vec<u8> = if thorough { (0..corp.len() as u8).collect() } else if args.variant.starts_with("dbgrel") { vec![0, 2] } else { vec![0, 1, 2, 4, 7, 8] };
    let mut viol: Vec<(usize, Violation)> = vec![];
    let (mut total, mut clean, mut unconf) = (0, 0, 0);
    let mut index_base = 0usize;
    // one corpus proof at a time (the thorough mutant sets of all proofs together do not fit in memory)
    for e in corp.iter().filter(|e| use_ids.contains(&e.id)) {
        let bytes = honest_bytes(e);
        let tree = r8_tree(e, &bytes);
        // pairs of edits (thorough) only in the release build: the checked build is 2-3 times slower
        let all: Vec<Mutant> = mutants_of(e, &bytes, &tree, thorough && !args.variant.starts_with("dbgrel"));
    let accs: Vec<Acc> = pool::run(
        &cfg,
        all.len(),
        |i| {
            let mut p = vec![all[i].corpus];
            p.extend(&all[i].bytes);
            p
        },
        |acc: &mut Acc, i, payload, outcome| {
            acc.total += 1;
            let off = offences(&outcome);
            if off.is_empty() {
                acc.clean += 1;
                return;
            }
            if !pool::confirmed(&cfg, payload, &outcome) {
                acc.unconfirmed += 1;
                return;
            }
            let m = &all[i];
            for (class, detail) in off {
                acc.viol.push((i, Violation { class, key: format!("corpus{}/{}", m.corpus, m.desc), detail: format!("corpus proof {}, edit '{}': {detail}", m.corpus, m.desc), replay: json!({"corpus": m.corpus, "mutant": mck::hex(&m.bytes), "edit": m.desc}) }));
            }
        },
    );
    for a in accs {
        total += a.total;
        clean += a.clean;
        unconf += a.unconfirmed;
        viol.extend(a.viol.into_iter().map(|(i, v)| (index_base + i, v)));
    }
        index_base += all.len();
    }
    viol.sort_by_key(|(i, _)| *i);
    report.part("mutated proofs: Proof::from_bytes + verify under OptionSet / MinConjecturedSecurity / MinProvenSecurity x right / wrong public inputs", total, total, json!({"clean": clean, "offences_not_repeated_in_a_fresh_worker": unconf, "corpus_proofs": use_ids.len()}));
    for (_, v) in viol {
        report.violation(v);
    }

    // ---- part 2: component decoders -------------------------------------------------------------------
    let all_comps = crate::components::cases(thorough);
    // strings of at most 3 bytes cannot announce more than 2^21 items, so the decoders cannot be made
    // to allocate much: they run in-process under catch_unwind; everything else goes to the workers
    let (short, comps): (Vec<_>, Vec<_>) = all_comps.into_iter().partition(|c| c.bytes.len() <= 3);
    {
        let pr = crate::components::reference().1;
        let outs = mck::par_map(64, |sh| {
            let mut v = vec![];
            let mut n = 0u64;
            let mut i = sh;
            while i < short.len() {
                let c = &short[i];
                n += 1;
                if let Err(p) = mck::catch(|| crate::components::decode_kind(c.kind, &c.bytes, &pr)) {
                    v.push(Violation {
                        class: format!("panic:component:{}:{}", crate::components::NAMES[c.kind as usize], p.location),
                        key: format!("{}/{}", crate::components::NAMES[c.kind as usize], c.desc),
                        detail: format!("decoder {} on {}: panicked at {} ({})", crate::components::NAMES[c.kind as usize], c.desc, p.location, p.message),
                        replay: json!({"component": c.kind, "bytes": mck::hex(&c.bytes), "what": c.desc}),
                    });
                }
                i += 64;
            }
            (n, v)
        });
        let mut n = 0;
        for (k, v) in outs {
            n += k;
            report.violations(v);
        }
        report.part("component decoders on ALL byte strings of length <= 2 (thorough: + 3-byte strings over a boundary alphabet), in-process", n, n, json!({"decoders": crate::components::NAMES.len()}));
    }
    let caccs: Vec<Acc> = pool::run(
        &ccfg,
        comps.len(),
        |i| {
            let mut p = vec![comps[i].kind];
            p.extend(&comps[i].bytes);
            p
        },
        |acc: &mut Acc, i, payload, outcome| {
            acc.total += 1;
            let mut off: Vec<(String, String)> = match &outcome {
                Outcome::Reply(r) if r.first() == Some(&2) => {
                    let t = String::from_utf8_lossy(&r[1..]).to_string();
                    vec![(format!("panic:component:{}:{}", crate::components::NAMES[comps[i].kind as usize], t.split('|').next().unwrap_or("?")), format!("panicked: {t}"))]
                },
                Outcome::Reply(_) => vec![],
                other => offences(other),
            };
            if off.is_empty() {
                acc.clean += 1;
                return;
            }
            if !pool::confirmed(&ccfg, payload, &outcome) {
                acc.unconfirmed += 1;
                return;
            }
            let c = &comps[i];
            for (class, detail) in off.drain(..) {
                let class = if class.starts_with("abort") || class == "timeout" { format!("{class}:component:{}", crate::components::NAMES[c.kind as usize]) } else { class };
                acc.viol.push((i, Violation { class, key: format!("{}/{}", crate::components::NAMES[c.kind as usize], c.desc), detail: format!("decoder {} on {} ({} bytes: {}): {detail}", crate::components::NAMES[c.kind as usize], c.desc, c.bytes.len(), mck::hex(&c.bytes[..c.bytes.len().min(24)])), replay: json!({"component": c.kind, "bytes": mck::hex(&c.bytes), "what": c.desc}) }));
            }
        },
    );
    let mut viol: Vec<(usize, Violation)> = vec![];
    let (mut total, mut clean, mut unconf) = (0, 0, 0);
    let mut per: BTreeMap<&str, u64> = BTreeMap::new();
    for c in &comps {
        *per.entry(crate::components::NAMES[c.kind as usize]).or_default() += 1;
    }
    for a in caccs {
        total += a.total;
        clean += a.clean;
        unconf += a.unconfirmed;
        viol.extend(a.viol);
    }
    viol.sort_by_key(|(i, _)| *i);
    report.part("component decoders on every prefix and every R8 / byte-level edit of honest encodings and on over-long counts, in isolated workers", total, total, json!({"clean": clean, "offences_not_repeated_in_a_fresh_worker": unconf, "cases_per_decoder": per}));
    for (_, v) in viol {
        report.violation(v);
    }
    let _ = r8::BOUNDARY;
    report.sample(json!({"edit": "proof.context.trace_info.log2_length = 64", "oracle": "Proof::from_bytes / verify return a value or an error in every acceptance mode"}));
    report.exhaustive = true;
    report.rule = "one case per distinct (decoder or corpus proof, byte string); every case is non-trivial (bytes that differ from the honest encoding)".into();
    report.bounds = json!({"corpus_proofs": use_ids.len(), "worker_address_space_kib": cfg.mem_kib, "per_case_timeout_s": cfg.timeout.as_secs()});
    report.assumptions = vec![
        "only panics, aborts and hangs count; which error is returned is not judged".into(),
        "an offence is reported only if it repeats in a fresh worker".into(),
        "arbitrary byte strings are: all strings of length <= 2 per decoder plus all single faults (thorough: pairs) of honest encodings".into(),
    ];
    report.finish(args)
}
