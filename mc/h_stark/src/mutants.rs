//! Shared machinery of C04 / C05: the corpus of small honest proofs, the E4 mutant enumeration
//! (byte level and, through the R8 tree, field level and structural), the isolated worker that
//! decodes + verifies one mutant under every acceptance mode, and the semantic fingerprint used
//! to decide "parsed contents equal".

use std::sync::Arc;

use mck::e4::{byte_faults, ByteFaultOpts};
use mck::pool::{self, Outcome, PoolCfg};
use mck::{json, Value};
use refm::proofcodec as r8;
use winter_air::proof::Proof;
use winterfell::crypto::MerkleTree;
use winterfell::math::fields::{CubeExtension, QuadExtension};
use winterfell::math::FieldElement;
use winterfell::{AcceptableOptions, Air};

use crate::cfg::*;
use crate::dispatch;
use crate::genair::*;

// CORPUS
// ================================================================================================

#[derive(Clone)]
pub struct Entry {
    pub id: u8,
    pub shape: Arc<Shape>,
    pub cfg: Cfg,
}

pub fn corpus() -> Vec<Entry> {
    let mk = |id: u8, shape: &str, f: Fid, h: Hid, q: usize, b: usize, ext: u8, fold: usize, rem: usize, parts: usize, rate: usize| {
        let mut c = Cfg::base(f, h);
        c.queries = q;
        c.blowup = b;
        c.ext = ext;
        c.folding = fold;
        c.rem = rem;
        c.parts = parts;
        c.rate = rate;
        Entry { id, shape: shape_by_name(shape), cfg: c }
    };
    // query counts are chosen so that two different nonces / seeds give the same position set with
    // probability <= 2^-40 (lde_size^queries >= 2^40): acceptance of a mutant is then never luck
    vec![
        mk(0, "pow2+sum1", Fid::F64, Hid::Blake3_256, 10, 2, 1, 2, 0, 1, 1),
        mk(1, "aux2x2/w3", Fid::F64, Hid::Blake3_256, 8, 4, 2, 4, 3, 1, 1),
        mk(2, "mixed-assertions", Fid::F128, Hid::Sha3_256, 6, 8, 1, 4, 7, 2, 2),
        mk(3, "mulper2/c4/n8", Fid::F64, Hid::Rp64_256, 8, 4, 3, 2, 1, 1, 1),
        mk(4, "pow2+sum1", Fid::F62, Hid::Rp62_248, 10, 2, 2, 2, 0, 1, 1),
        mk(5, "reset/n8/s4/z3/d1", Fid::F128, Hid::Blake3_192, 8, 4, 2, 8, 1, 1, 1),
        mk(6, "wide9", Fid::F64, Hid::Blake3_256, 10, 2, 1, 2, 0, 4, 4),
        mk(7, "exempt2/n8/deg2", Fid::F64, Hid::RpJive64_256, 10, 2, 1, 2, 3, 1, 1),
        // an AIR whose minimum blowup (4) is above the smallest encodable one
        mk(8, "pow5", Fid::F64, Hid::Blake3_256, 8, 4, 1, 4, 1, 1, 1),
    ]
    .into_iter()
    .map(|e| {
        // every corpus entry must be a valid lattice point (otherwise the honest proof cannot be built)
        if let Err(why) = e.cfg.valid_for(&e.shape) {
            mck::report::machinery(&format!("corpus entry {} is outside the validity predicate: {why}", e.id));
        }
        e
    })
    .collect()
}

pub fn layout(cfg: &Cfg) -> r8::Layout {
    r8::Layout {
        digest_bytes: match cfg.hasher {
            Hid::Blake3_192 => 24,
            Hid::Rp62_248 => 31,
            _ => 32,
        },
        base_bytes: if cfg.field == Fid::F128 { 16 } else { 8 },
    }
}

fn honest_bytes_g<B: BaseF, H: HF<B>>(e: &Entry) -> Vec<u8> {
    let h = honest::<B>(&e.shape);
    match prove_trace::<B, H>(&e.shape, h.main.clone(), &h.inputs, &e.cfg, None) {
        Ok(p) => p.to_bytes(),
        Err(f) => mck::report::machinery(&format!("corpus proof {} failed: {}", e.id, f.describe())),
    }
}

pub fn honest_bytes(e: &Entry) -> Vec<u8> {
    dispatch!(e.cfg, honest_bytes_g, e)
}

// SEMANTIC FINGERPRINT ("parsed contents")
// ================================================================================================

fn fp_e<B: BaseF, H: HF<B>, E: FieldElement<BaseField = B>>(p: &Proof, num_quotients: usize) -> Result<String, String> {
    let ti = p.trace_info().clone();
    let opts = p.options().clone();
    let lde = p.lde_domain_size();
    let fri_opts = opts.to_fri_options();
    let layers = fri_opts.num_fri_layers(lde);
    let n = p.num_unique_queries as usize;
    // the context, field by field (so that a difference names the field)
    let po = opts.partition_options();
    let mut s = format!(
        "ctx.trace_info={:?}\nctx.modulus={:?}\nctx.num_constraints={}\nctx.options={:?}\nctx.partition_options={:?}\nnuq={}\nnonce={}\n",
        ti,
        p.context.field_modulus_bytes(),
        p.context.num_constraints(),
        (opts.num_queries(), opts.blowup_factor(), opts.grinding_factor(), opts.field_extension(), fri_opts.folding_factor(), fri_opts.remainder_max_degree(), opts.constraint_batching_method(), opts.deep_poly_batching_method()),
        po,
        p.num_unique_queries,
        p.pow_nonce
    );
    let (tr, cr, fr) = p.commitments.clone().parse::<H>(ti.num_segments(), layers).map_err(|e| format!("commitments: {e}"))?;
    s += &format!("roots={tr:?}|{cr:?}|{fr:?}\n");
    let (mp, t) = p.trace_queries[0].clone().parse::<B, H, MerkleTree<H>>(lde, n, ti.main_trace_width()).map_err(|e| format!("main queries: {e}"))?;
    s += &format!("mainq={:?}|{:?}|{}\n", mp.nodes, mp.depth, t.rows().map(|r| format!("{r:?}")).collect::<Vec<_>>().join(";"));
    if ti.is_multi_segment() {
        let (mp, t) = p.trace_queries[1].clone().parse::<E, H, MerkleTree<H>>(lde, n, ti.aux_segment_width()).map_err(|e| format!("aux queries: {e}"))?;
        s += &format!("auxq={:?}|{:?}|{}\n", mp.nodes, mp.depth, t.rows().map(|r| format!("{r:?}")).collect::<Vec<_>>().join(";"));
    }
    let (mp, t) = p.constraint_queries.clone().parse::<E, H, MerkleTree<H>>(lde, n, num_quotients).map_err(|e| format!("constraint queries: {e}"))?;
    s += &format!("consq={:?}|{:?}|{}\n", mp.nodes, mp.depth, t.rows().map(|r| format!("{r:?}")).collect::<Vec<_>>().join(";"));
    let (to, qo) = p.ood_frame.clone().parse::<E>(ti.main_trace_width(), ti.aux_segment_width(), num_quotients).map_err(|e| format!("ood: {e}"))?;
    s += &format!("ood={:?}|{:?}|{:?}|{:?}\n", to.current_row(), to.next_row(), qo.current_row(), qo.next_row());
    let rem: Vec<E> = p.fri_proof.parse_remainder().map_err(|e| format!("fri remainder: {e}"))?;
    // the FRI partition count is not among the parsed contents the property lists
    let (lq, lp) = p.fri_proof.clone().parse_layers::<E, H, MerkleTree<H>>(lde, fri_opts.folding_factor()).map_err(|e| format!("fri layers: {e}"))?;
    s += &format!("fri={lq:?}|{:?}|{rem:?}\n", lp.iter().map(|b| (b.nodes.clone(), b.depth)).collect::<Vec<_>>());
    Ok(s)
}

pub fn fingerprint<B: BaseF, H: HF<B>>(p: &Proof, inputs: &GenInputs<B>) -> Result<String, String> {
    let air = mck::catch(|| GenAir::<B>::new(p.trace_info().clone(), inputs.clone(), p.options().clone())).map_err(|e| format!("air: {}", e.message))?;
    let nq = air.context().num_constraint_composition_columns();
    let r = mck::catch(|| match p.options().field_extension() {
        winterfell::FieldExtension::None => fp_e::<B, H, B>(p, nq),
        winterfell::FieldExtension::Quadratic => fp_e::<B, H, QuadExtension<B>>(p, nq),
        winterfell::FieldExtension::Cubic => fp_e::<B, H, CubeExtension<B>>(p, nq),
    });
    match r {
        Ok(x) => x,
        Err(p) => Err(format!("panic while parsing: {} {}", p.location, p.message)),
    }
}

// WORKER
// ================================================================================================
// payload: [corpus id][mutant bytes]; reply: JSON
//   {"d": "ok" | "err:<text>" | "panic:<loc>|<msg>", "v": [six verdicts], "same": bool|null, "diff": text}
// verdicts, in order: (OptionSet own, right inputs), (MinConjectured(own level), right), (MinProven(0), right),
//                     the same three with wrong inputs. "A" accepted, "E:<kind>" error, "P:<loc>|<msg>" panic.

fn worker_g<B: BaseF, H: HF<B>>(e: &Entry, orig: &[u8], mutant: &[u8]) -> Value {
    let h = honest::<B>(&e.shape);
    let orig_proof = Proof::from_bytes(orig).expect("corpus proof decodes");
    let level = orig_proof.conjectured_security::<H>().bits();
    let m = match decode(mutant) {
        Ok(p) => p,
        Err(Fail::Err(t)) => return json!({"d": format!("err:{}", t.chars().take(80).collect::<String>())}),
        Err(Fail::Panic(p)) => return json!({"d": format!("panic:{}|{}", p.location, p.message), "lib": p.in_library}),
    };
    let mut wrong = h.inputs.clone();
    wrong.values[0][0] += B::ONE;
    let modes = [AcceptableOptions::OptionSet(vec![e.cfg.options()]), AcceptableOptions::MinConjecturedSecurity(level), AcceptableOptions::MinProvenSecurity(0)];
    let mut v = vec![];
    let mut accepted_right = false;
    for (k, inputs) in [&h.inputs, &wrong].into_iter().enumerate() {
        for mode in &modes {
            v.push(match verify_proof::<B, H>(m.clone(), inputs, mode) {
                Ok(()) => {
                    if k == 0 {
                        accepted_right = true;
                    }
                    "A".to_string()
                },
                Err(Fail::Err(t)) => format!("E:{}", t.chars().take(60).collect::<String>()),
                Err(Fail::Panic(p)) => format!("P:{}|{}|{}", p.location, p.message, p.in_library),
            });
        }
    }
    let mut out = json!({"d": "ok", "v": v});
    if accepted_right {
        if m == orig_proof {
            out["same"] = json!(true);
        } else {
            let a = fingerprint::<B, H>(&orig_proof, &h.inputs);
            let b = fingerprint::<B, H>(&m, &h.inputs);
            match (a, b) {
                (Ok(a), Ok(b)) if a == b => out["same"] = json!(true),
                (Ok(a), Ok(b)) => {
                    out["same"] = json!(false);
                    let la: Vec<&str> = a.lines().collect();
                    let lb: Vec<&str> = b.lines().collect();
                    let which: Vec<String> = la.iter().zip(lb.iter()).filter(|(x, y)| x != y).map(|(x, _)| x.split('=').next().unwrap_or("").to_string()).collect();
                    out["diff"] = json!(which.join(","));
                },
                (a, b) => {
                    out["same"] = json!(false);
                    out["diff"] = json!(format!("unparsable: {:?} / {:?}", a.err(), b.err()));
                },
            }
        }
    }
    out
}

pub fn worker_proofs() -> ! {
    let c = corpus();
    // honest proofs are produced lazily, once per corpus entry per worker
    let mut cache: Vec<Option<Vec<u8>>> = vec![None; c.len()];
    pool::serve(move |case| {
        if case.is_empty() {
            return vec![0xAA];
        }
        let id = case[0] as usize;
        if id >= c.len() {
            return b"{\"d\":\"bad corpus id\"}".to_vec();
        }
        if cache[id].is_none() {
            cache[id] = Some(honest_bytes(&c[id]));
        }
        let orig = cache[id].clone().unwrap();
        let e = &c[id];
        let v = dispatch!(e.cfg, worker_g, e, &orig, &case[1..]);
        v.to_string().into_bytes()
    })
}

// MUTANT ENUMERATION
// ================================================================================================

pub struct Mutant {
    pub corpus: u8,
    pub bytes: Vec<u8>,
    pub desc: String,
    pub group: &'static str,
}

/// R8 conformance for one honest proof; returns the tree. Any mismatch is a machinery error.
pub fn r8_tree(e: &Entry, bytes: &[u8]) -> r8::Node {
    let l = layout(&e.cfg);
    let (tree, used) = r8::parse(bytes, l).unwrap_or_else(|err| mck::report::machinery(&format!("R8 cannot parse honest proof {}: {}", e.id, err.0)));
    if used != bytes.len() || r8::to_bytes(&tree) != bytes {
        mck::report::machinery(&format!("R8 print(parse(b)) != b for corpus proof {}", e.id));
    }
    // field-by-field against the implementation's decoder
    let p = Proof::from_bytes(bytes).expect("honest proof decodes");
    let val = |suffix: &str| -> u64 {
        match r8::get(&tree, &r8::find(&tree, suffix).unwrap_or_else(|| mck::report::machinery(&format!("R8: no field {suffix}")))) {
            r8::Node::Int { value, .. } | r8::Node::Vint { value, .. } => *value,
            _ => mck::report::machinery("R8: not a number"),
        }
    };
    let sub = |suffix: &str| -> Vec<u8> { r8::to_bytes(r8::get(&tree, &r8::find(&tree, suffix).unwrap())) };
    let ti = p.trace_info();
    let o = p.options();
    let checks: Vec<(&str, u64, u64)> = vec![
        ("main_width", val("trace_info.main_width"), ti.main_trace_width() as u64),
        ("aux_width", val("trace_info.aux_width"), ti.aux_segment_width() as u64),
        ("aux_rands", val("trace_info.aux_rands"), ti.get_num_aux_segment_rand_elements() as u64),
        ("length", 1 << val("trace_info.log2_length"), ti.length() as u64),
        ("queries", val("options.num_queries"), o.num_queries() as u64),
        ("blowup", val("options.blowup"), o.blowup_factor() as u64),
        ("grinding", val("options.grinding"), o.grinding_factor() as u64),
        ("folding", val("options.folding"), o.to_fri_options().folding_factor() as u64),
        ("remainder", val("options.remainder_max_degree"), o.to_fri_options().remainder_max_degree() as u64),
        ("num_constraints", val("context.num_constraints"), p.context.num_constraints() as u64),
        ("nuq", val("proof.num_unique_queries"), p.num_unique_queries as u64),
        ("nonce", val("proof.pow_nonce"), p.pow_nonce),
    ];
    for (n, a, b) in checks {
        if a != b {
            mck::report::machinery(&format!("R8 field {n} = {a}, implementation decodes {b} (corpus {})", e.id));
        }
    }
    use winter_utils::Serializable;
    let comps: Vec<(&str, Vec<u8>, Vec<u8>)> = vec![
        ("commitments", sub("proof.commitments"), p.commitments.to_bytes()),
        ("main queries", sub("proof.trace_queries[main]"), p.trace_queries[0].to_bytes()),
        ("constraint queries", sub("proof.constraint_queries"), p.constraint_queries.to_bytes()),
        ("ood frame", sub("proof.ood_frame"), p.ood_frame.to_bytes()),
        ("fri proof", sub("proof.fri_proof"), p.fri_proof.to_bytes()),
    ];
    for (n, a, b) in comps {
        if a != b {
            mck::report::machinery(&format!("R8 segment '{n}' differs from the implementation's re-encoding (corpus {})", e.id));
        }
    }
    if r8::paths(&tree).iter().any(|(_, n)| n.ends_with("unparsed")) {
        mck::report::machinery(&format!("R8 could not parse a nested batch Merkle proof of corpus proof {}", e.id));
    }
    tree
}

pub fn mutants_of(e: &Entry, bytes: &[u8], tree: &r8::Node, pairs: bool) -> Vec<Mutant> {
    let mut out = vec![];
    let mut seen = std::collections::BTreeSet::new();
    seen.insert(mck::fnv(bytes));
    let mut push = |out: &mut Vec<Mutant>, b: Vec<u8>, desc: String, group: &'static str| {
        if seen.insert(mck::fnv(&b) ^ (b.len() as u64).wrapping_mul(0x9E3779B97F4A7C15)) {
            out.push(Mutant { corpus: e.id, bytes: b, desc, group });
        }
    };
    for f in byte_faults(bytes, ByteFaultOpts::ALL) {
        push(&mut out, f.apply(bytes), f.short(), "byte-level");
    }
    // trailing bytes (not part of the proof)
    for extra in [1usize, 8] {
        let mut b = bytes.to_vec();
        b.extend(vec![0u8; extra]);
        push(&mut out, b, format!("{extra} trailing byte(s)"), "byte-level");
    }
    let single = r8::edits(tree);
    for (d, b) in &single {
        push(&mut out, b.clone(), d.clone(), "field/structure (R8)");
    }
    // consistent resizings: several coordinated edits that keep every length / count relation the
    // parsers check, so that only a missing *semantic* check can notice them
    for (d, b) in resizings(e, tree) {
        push(&mut out, b, d, "consistent resizing (R8)");
    }
    if pairs {
        // pairs of edits inside the header group (context + unique-query count): apply the edits
        // of a once-edited tree whose first edit was in the header
        let header: Vec<&(String, Vec<u8>)> = single.iter().filter(|(d, _)| d.starts_with("proof.context") || d.starts_with("proof.num_unique_queries")).collect();
        let l = layout(&e.cfg);
        for (d1, b1) in header.iter().step_by(3) {
            if let Ok((t1, used)) = r8::parse(b1, l) {
                if used != b1.len() {
                    continue;
                }
                for (d2, b2) in r8::edits(&t1) {
                    if d2.starts_with("proof.context") || d2.starts_with("proof.num_unique_queries") || d2.contains("length prefix") || d2.contains("count prefix") {
                        push(&mut out, b2, format!("{d1} ; {d2}"), "pairs (R8)");
                    }
                }
            }
        }
    }
    out
}

pub fn pool_cfg() -> PoolCfg {
    let cfg = PoolCfg::this("C05", "proofs");
    pool::self_test(&cfg, &[], |r| r == [0xAA]);
    cfg
}

pub fn parse_reply(o: &Outcome) -> Option<Value> {
    match o {
        Outcome::Reply(r) => mck::from_str::<Value>(std::str::from_utf8(r).ok()?).ok(),
        _ => None,
    }
}

/// the mutant of a replay record: its bytes, or (for hand-written regression files) the edit
/// description, looked up in the deterministic mutant enumeration of that corpus proof
pub fn replay_bytes(v: &Value) -> Vec<u8> {
    if let Some(h) = v.get("mutant").and_then(|m| m.as_str()) {
        return mck::unhex(h);
    }
    let id = v["corpus"].as_u64().unwrap_or(0) as usize;
    let want = v["edit"].as_str().unwrap_or("");
    let e = corpus().into_iter().nth(id).unwrap_or_else(|| mck::report::machinery("replay: bad corpus id"));
    let bytes = honest_bytes(&e);
    let tree = r8_tree(&e, &bytes);
    if let Some(m) = mutants_of(&e, &bytes, &tree, false).into_iter().find(|m| m.desc == want || (want.ends_with('*') && m.desc.starts_with(want.trim_end_matches('*')))) {
        return m.bytes;
    }
    // the enumeration drops duplicates (an R8 edit may equal a byte-level fault): look the edit up directly
    r8::edits(&tree).into_iter().find(|(d, _)| d == want || (want.ends_with('*') && d.starts_with(want.trim_end_matches('*')))).map(|(_, b)| b).unwrap_or_else(|| mck::report::machinery(&format!("replay: no mutant '{want}' of corpus proof {id}")))
}

/// Coordinated structural edits of a proof tree (each keeps the proof well-formed for the parsers):
/// one more / one fewer unique query with a row added to / removed from every query table; an
/// extra FRI layer shaped for the next domain; a remainder padded with zero high coefficients.
pub fn resizings(e: &Entry, tree: &r8::Node) -> Vec<(String, Vec<u8>)> {
    let mut out = vec![];
    let val = |t: &r8::Node, suffix: &str| -> u64 {
        match r8::get(t, &r8::find(t, suffix).unwrap()) {
            r8::Node::Int { value, .. } => *value,
            _ => 0,
        }
    };
    let nuq = val(tree, "proof.num_unique_queries") as usize;
    let tables: Vec<Vec<usize>> = r8::paths(tree).into_iter().filter(|(_, n)| (n.contains("trace_queries") || n.contains("constraint_queries")) && n.ends_with("values.elements")).map(|(p, _)| p).collect();
    let set_nuq = |t: &mut r8::Node, v: u64| {
        let p = r8::find(t, "proof.num_unique_queries").unwrap();
        if let r8::Node::Int { value, .. } = r8::get_mut(t, &p) {
            *value = v;
        }
    };
    if nuq >= 1 && nuq < 255 {
        for (which, what) in [(0usize, "first"), (nuq - 1, "last")] {
            let mut t = tree.clone();
            set_nuq(&mut t, nuq as u64 + 1);
            for p in &tables {
                if let r8::Node::Raw { bytes, .. } = r8::get_mut(&mut t, p) {
                    let row = bytes.len() / nuq;
                    let copy = bytes[which * row..(which + 1) * row].to_vec();
                    bytes.extend(copy);
                }
            }
            out.push((format!("unique-query count + 1 and a copy of the {what} row appended to every query table"), r8::to_bytes(&t)));
        }
    }
    if nuq >= 2 {
        let mut t = tree.clone();
        set_nuq(&mut t, nuq as u64 - 1);
        for p in &tables {
            if let r8::Node::Raw { bytes, .. } = r8::get_mut(&mut t, p) {
                let row = bytes.len() / nuq;
                bytes.truncate((nuq - 1) * row);
            }
        }
        out.push(("unique-query count - 1 and the last row dropped from every query table".into(), r8::to_bytes(&t)));
    }
    // extra FRI layer: a copy of the last one with the opening depth lowered by log2(folding)
    if let Some(lp) = r8::find(tree, "fri_proof.layers") {
        let n_layers = r8::children(r8::get(tree, &lp)).len();
        if n_layers >= 1 {
            for keep_one_coset in [false, true] {
                let mut t = tree.clone();
                let mut extra = r8::children(r8::get(&t, &lp))[n_layers - 1].clone();
                if let Some(dp) = r8::find(&extra, "batch_merkle_proof.depth") {
                    if let r8::Node::Int { value, .. } = r8::get_mut(&mut extra, &dp) {
                        *value = value.saturating_sub(e.cfg.folding.trailing_zeros() as u64);
                    }
                }
                if keep_one_coset {
                    if let Some(vp) = r8::find(&extra, "values.elements") {
                        if let r8::Node::Raw { bytes, unit, .. } = r8::get_mut(&mut extra, &vp) {
                            let coset = *unit * e.cfg.folding;
                            if bytes.len() > coset {
                                bytes.truncate(coset);
                            }
                        }
                    }
                }
                if let r8::Node::Count { items, .. } = r8::get_mut(&mut t, &lp) {
                    items.push(extra);
                }
                out.push((format!("one more FRI layer: a copy of the last layer shaped for the next domain{}", if keep_one_coset { " (one coset kept)" } else { "" }), r8::to_bytes(&t)));
            }
        }
    }
    out.extend(bmp_pairs(tree));
    // remainder with zero high-degree coefficients in front (same polynomial, other bytes)
    if let Some(rp) = r8::find(tree, "fri_proof.remainder.coefficients") {
        let mut t = tree.clone();
        if let r8::Node::Raw { bytes, .. } = r8::get_mut(&mut t, &rp) {
            let mut nb = vec![0u8; bytes.len()];
            nb.extend(bytes.iter());
            *bytes = nb;
        }
        out.push(("remainder doubled in length with zero high-degree coefficients".into(), r8::to_bytes(&t)));
    }
    out
}

/// Every batch Merkle proof of a tree (or the tree itself, if it is one): depth x announced
/// node-vector count, both untrusted and read back to back (seed C05b: a count bounded by 2^depth
/// and then pre-allocated).
pub fn bmp_pairs(tree: &r8::Node) -> Vec<(String, Vec<u8>)> {
    let mut out = vec![];
    for (path, name) in r8::paths(tree) {
        if !name.ends_with("batch_merkle_proof") {
            continue;
        }
        for depth in [20u64, 36, 40, 62, 63] {
            for count in [1u64 << 20, 1 << 35, 1 << 38, 1 << 56, 1 << 60, (1 << 62) + 1] {
                let mut t = tree.clone();
                let node = r8::get_mut(&mut t, &path);
                if let Some(dp) = r8::find(node, "batch_merkle_proof.depth") {
                    if let r8::Node::Int { value, .. } = r8::get_mut(node, &dp) {
                        *value = depth;
                    }
                }
                if let Some(cp) = r8::find(node, "batch_merkle_proof.node_vectors") {
                    if let r8::Node::Count { lie, .. } = r8::get_mut(node, &cp) {
                        *lie = Some(count);
                    }
                }
                out.push((format!("{name}: depth = {depth} and node-vector count prefix = {count}"), r8::to_bytes(&t)));
            }
        }
    }
    out
}
