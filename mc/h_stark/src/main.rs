//! h_stark — harness for the prover/verifier pipeline: C01–C07, C22 (order independence), C28, C29.

mod admit;
mod block_on;
mod c01;
mod c02;
mod c03;
mod c04;
mod c05;
mod c06;
mod c07;
mod c28;
mod components;
mod mutants;
mod c29;
mod cfg;
#[cfg(feature = "ex")]
mod examples_run;
mod genair;

fn main() {
    mck::install_panic_hook();
    let args = mck::Args::parse();
    match args.worker.as_deref() {
        Some("proofs") => mutants::worker_proofs(),
        Some("components") => components::worker(),
        Some(k) => mck::report::machinery(&format!("unknown worker kind {k:?}")),
        None => {},
    }
    match args.prop.as_str() {
        "C01" => c01::run(&args),
        "C02" => c02::run(&args),
        "C03" => c03::run(&args),
        "C04" => c04::run(&args),
        "C05" => c05::run(&args),
        "C06" => c06::run(&args),
        "C07" => c07::run(&args),
        "C28" => c28::run(&args),
        "C29" => c29::run(&args),
        p => mck::report::machinery(&format!("h_stark does not serve property {p:?}")),
    }
}
