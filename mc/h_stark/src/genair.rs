//! R9 — `GenAir`: a data-driven AIR family whose shape travels in the public inputs, its trace
//! generator, prover, and an independent constraint checker that evaluates the same shape on raw
//! trace values with plain field arithmetic (no `Air`, no `Trace::validate`, no divisors).

use std::marker::PhantomData;
use std::sync::Arc;

use winter_air::proof::Proof;
use winterfell::crypto::{DefaultRandomCoin, ElementHasher, MerkleTree};
use winterfell::math::{ExtensibleField, FieldElement, StarkField, ToElements};
use winterfell::matrix::ColMatrix;
use winterfell::{
    Air, AirContext, Assertion, AuxRandElements, CompositionPoly, CompositionPolyTrace, ConstraintCompositionCoefficients,
    DefaultConstraintCommitment, DefaultConstraintEvaluator, DefaultTraceLde, EvaluationFrame, PartitionOptions, ProofOptions,
    Prover, ProverError, StarkDomain, Trace, TraceInfo, TracePolyTable, TransitionConstraintDegree,
};
#[allow(unused_imports)]
use winter_maybe_async::{maybe_async, maybe_await};

pub trait BaseF: StarkField + ExtensibleField<2> + ExtensibleField<3> + 'static {}
impl<T: StarkField + ExtensibleField<2> + ExtensibleField<3> + 'static> BaseF for T {}

// SHAPE
// ================================================================================================

#[derive(Clone, Debug, PartialEq, Eq)]
pub enum Rule {
    /// next = cur^d + k
    Pow { d: u32, k: u64 },
    /// next = cur^d + periodic[p]
    PowPer { d: u32, p: usize },
    /// next = cur * left + periodic[p]
    Mul { p: usize },
    /// next = cur + left^d
    Sum { d: u32 },
    /// next = periodic[p] * cur^d + left
    MulPer { d: u32, p: usize },
    /// next = m * (cur^d + left) + (1 - m) * v, m = periodic[p] is a 0/1 mask with one zero per cycle
    Reset { d: u32, p: usize, v: u64 },
}

#[derive(Clone, Debug, PartialEq, Eq)]
pub struct Periodic {
    pub values: Vec<u64>,
}

#[derive(Clone, Debug, PartialEq, Eq)]
pub enum ASpec {
    Single { col: usize, step: usize },
    Periodic { col: usize, first: usize, stride: usize },
    Sequence { col: usize, first: usize, stride: usize },
}

impl ASpec {
    pub fn col(&self) -> usize {
        match self {
            ASpec::Single { col, .. } | ASpec::Periodic { col, .. } | ASpec::Sequence { col, .. } => *col,
        }
    }
    /// the steps this assertion constrains on a trace of length n (by definition)
    pub fn steps(&self, n: usize) -> Vec<usize> {
        match *self {
            ASpec::Single { step, .. } => vec![step],
            ASpec::Periodic { first, stride, .. } | ASpec::Sequence { first, stride, .. } => (first..n).step_by(stride).collect(),
        }
    }
}

#[derive(Clone, Debug, PartialEq, Eq)]
pub struct Shape {
    pub name: String,
    pub n: usize,
    pub cols: Vec<Rule>,
    pub periodic: Vec<Periodic>,
    /// (aux width in {1,2,3}, number of random elements in {1,2}); a third auxiliary column has a
    /// degree-4 rule, so that an auxiliary constraint can dominate every main-segment degree
    pub aux: Option<(usize, usize)>,
    pub exemptions: usize,
    pub asserts: Vec<ASpec>,
    pub meta: Vec<u8>,
    pub seed: u64,
}

impl Shape {
    pub fn width(&self) -> usize {
        self.cols.len()
    }
    pub fn left(&self, j: usize) -> usize {
        (j + self.width() - 1) % self.width()
    }
    pub fn trace_info(&self) -> TraceInfo {
        match self.aux {
            None => TraceInfo::with_meta(self.width(), self.n, self.meta.clone()),
            Some((w, r)) => TraceInfo::new_multi_segment(self.width(), w, r, self.n, self.meta.clone()),
        }
    }
    /// declared degree of the constraint of column j: (base degree, cycles)
    pub fn declared(&self, j: usize) -> (usize, Vec<usize>) {
        match &self.cols[j] {
            Rule::Pow { d, .. } | Rule::PowPer { d, .. } | Rule::Sum { d } => (*d as usize, vec![]),
            Rule::Mul { .. } => (2, vec![]),
            Rule::MulPer { d, p } | Rule::Reset { d, p, .. } => (*d as usize, vec![self.periodic[*p].values.len()]),
        }
    }
    pub fn aux_declared(&self) -> Vec<(usize, Vec<usize>)> {
        match self.aux {
            None => vec![],
            Some((w, _)) => (0..w).map(|c| (if c < 2 { 2 } else { 4 }, vec![])).collect(),
        }
    }
    /// documented minimum blowup: max over constraints of max(2, next_pow2(base + #cycles - 1))
    pub fn min_blowup(&self) -> usize {
        let mut b = 2;
        for (d, c) in (0..self.width()).map(|j| self.declared(j)).chain(self.aux_declared()) {
            b = b.max((d + c.len() - 1).next_power_of_two().max(2));
        }
        b
    }
    /// evaluation degree of a declaration on a trace of length n (documented formula)
    pub fn eval_degree(&self, d: usize, cycles: &[usize]) -> usize {
        d * (self.n - 1) + cycles.iter().map(|c| (self.n / c) * (c - 1)).sum::<usize>()
    }
    /// the documented limits on the number of transition exemptions
    pub fn exemptions_admissible(&self) -> bool {
        let n = self.n;
        if self.exemptions == 0 || self.exemptions > n / 2 + 1 {
            return false;
        }
        let ce = n * self.min_blowup();
        (0..self.width()).map(|j| self.declared(j)).chain(self.aux_declared()).all(|(d, c)| self.exemptions <= ce - 1 + n - self.eval_degree(d, &c))
    }
    /// stable encoding of the shape as integers (goes into the public-input elements)
    pub fn encode(&self) -> Vec<u64> {
        let mut v = vec![self.n as u64, self.cols.len() as u64, self.exemptions as u64, self.seed];
        for r in &self.cols {
            match r {
                Rule::Pow { d, k } => v.extend([1, *d as u64, *k]),
                Rule::PowPer { d, p } => v.extend([2, *d as u64, *p as u64]),
                Rule::Mul { p } => v.extend([3, *p as u64]),
                Rule::Sum { d } => v.extend([4, *d as u64]),
                Rule::MulPer { d, p } => v.extend([5, *d as u64, *p as u64]),
                Rule::Reset { d, p, v: val } => v.extend([6, *d as u64, *p as u64, *val]),
            }
        }
        for p in &self.periodic {
            v.push(p.values.len() as u64);
            v.extend(p.values.iter().copied());
        }
        match self.aux {
            None => v.push(0),
            Some((w, r)) => v.extend([1, w as u64, r as u64]),
        }
        for a in &self.asserts {
            match *a {
                ASpec::Single { col, step } => v.extend([1, col as u64, step as u64]),
                ASpec::Periodic { col, first, stride } => v.extend([2, col as u64, first as u64, stride as u64]),
                ASpec::Sequence { col, first, stride } => v.extend([3, col as u64, first as u64, stride as u64]),
            }
        }
        v
    }
}

// PUBLIC INPUTS
// ================================================================================================

#[derive(Clone, Debug)]
pub struct GenInputs<B: BaseF> {
    pub shape: Arc<Shape>,
    /// asserted values, one vector per assertion of the shape (1 value for single/periodic)
    pub values: Vec<Vec<B>>,
}

impl<B: BaseF> ToElements<B> for GenInputs<B> {
    fn to_elements(&self) -> Vec<B> {
        let mut v: Vec<B> = self.shape.encode().into_iter().map(|x| B::from(x as u32) + B::from((x >> 32) as u32) * B::from(1u32 << 31) * B::from(2u32)).collect();
        for a in &self.values {
            v.extend(a.iter().copied());
        }
        v
    }
}

// TRACE
// ================================================================================================

pub struct GenTrace<B: BaseF> {
    pub info: TraceInfo,
    pub main: ColMatrix<B>,
}

impl<B: BaseF> GenTrace<B> {
    pub fn new(shape: &Shape, columns: Vec<Vec<B>>) -> Self {
        GenTrace { info: shape.trace_info(), main: ColMatrix::new(columns) }
    }
}

impl<B: BaseF> Trace for GenTrace<B> {
    type BaseField = B;
    fn info(&self) -> &TraceInfo {
        &self.info
    }
    fn main_segment(&self) -> &ColMatrix<B> {
        &self.main
    }
    fn read_main_frame(&self, row_idx: usize, frame: &mut EvaluationFrame<B>) {
        let next = (row_idx + 1) % self.info.length();
        self.main.read_row_into(row_idx, frame.current_mut());
        self.main.read_row_into(next, frame.next_mut());
    }
}

pub fn lit<B: BaseF>(x: u64) -> B {
    B::from(x as u32) + B::from((x >> 32) as u32) * B::from(1u32 << 31) * B::from(2u32)
}

fn pow<E: FieldElement>(x: E, d: u32) -> E {
    let mut r = E::ONE;
    for _ in 0..d {
        r *= x;
    }
    r
}

/// honest main trace of a shape: columns
pub fn gen_main<B: BaseF>(s: &Shape) -> Vec<Vec<B>> {
    let w = s.width();
    let n = s.n;
    let mut cols: Vec<Vec<B>> = vec![Vec::with_capacity(n); w];
    let mut cur: Vec<B> = (0..w).map(|j| lit::<B>(3 + 7 * j as u64 + s.seed.wrapping_mul(0x9E37_79B9) % 1_000_003)).collect();
    // a reset column whose forced value falls on step 0 starts there
    for (j, r) in s.cols.iter().enumerate() {
        if let Rule::Reset { p, v, .. } = r {
            let mask = &s.periodic[*p].values;
            let zero_at = mask.iter().position(|m| *m == 0).unwrap();
            if (zero_at + 1) % mask.len() == 0 {
                cur[j] = lit(*v);
            }
        }
    }
    for i in 0..n {
        for j in 0..w {
            cols[j].push(cur[j]);
        }
        let per = |p: usize| -> B { lit(s.periodic[p].values[i % s.periodic[p].values.len()]) };
        let mut next = cur.clone();
        for j in 0..w {
            let l = cur[s.left(j)];
            next[j] = match &s.cols[j] {
                Rule::Pow { d, k } => pow(cur[j], *d) + lit(*k),
                Rule::PowPer { d, p } => pow(cur[j], *d) + per(*p),
                Rule::Mul { p } => cur[j] * l + per(*p),
                Rule::Sum { d } => cur[j] + pow(l, *d),
                Rule::MulPer { d, p } => per(*p) * pow(cur[j], *d) + l,
                Rule::Reset { d, p, v } => {
                    let m = per(*p);
                    m * (pow(cur[j], *d) + l) + (B::ONE - m) * lit(*v)
                },
            };
        }
        cur = next;
    }
    cols
}

/// honest auxiliary trace: aux0: next = cur * (main0 + r0) + (last periodic column, if any); aux1: next = cur * (main_{1 % w} + r_last) + main0;
/// aux2: next = cur^3 * (main0 + r0)
pub fn gen_aux<B: BaseF, E: FieldElement<BaseField = B>>(s: &Shape, main: &ColMatrix<B>, rands: &[E]) -> Vec<Vec<E>> {
    gen_aux_from::<B, E>(s, main, rands, None)
}

/// `other_start = Some(c)`: column c starts at 2 instead of 1 and then follows its rule, so every
/// auxiliary transition holds and only the auxiliary assertion on that column is violated
pub fn gen_aux_from<B: BaseF, E: FieldElement<BaseField = B>>(s: &Shape, main: &ColMatrix<B>, rands: &[E], other_start: Option<usize>) -> Vec<Vec<E>> {
    let (aw, _) = s.aux.expect("shape has no auxiliary segment");
    let n = s.n;
    let w = s.width();
    let mut cols = vec![vec![E::ONE; n]; aw];
    if let Some(c) = other_start {
        cols[c][0] = E::ONE.double();
    }
    for i in 0..n - 1 {
        let m0: E = main.get(0, i).into();
        cols[0][i + 1] = cols[0][i] * (m0 + rands[0]) + aux_periodic::<B, E>(s, i);
        if aw > 1 {
            let m1: E = main.get(1 % w, i).into();
            cols[1][i + 1] = cols[1][i] * (m1 + rands[rands.len() - 1]) + m0;
        }
        if aw > 2 {
            let c = cols[2][i];
            cols[2][i + 1] = c * c * c * (m0 + rands[0]);
        }
    }
    cols
}

/// the periodic value the first auxiliary rule adds at step i: the LAST periodic column of the shape
/// (zero when the shape has none). An additive term of degree < n: the declared degree 2 stands.
pub fn aux_periodic<B: BaseF, E: FieldElement<BaseField = B>>(s: &Shape, i: usize) -> E {
    match s.periodic.last() {
        None => E::ZERO,
        Some(p) => lit::<B>(p.values[i % p.values.len()]).into(),
    }
}

pub fn read_inputs<B: BaseF>(shape: &Arc<Shape>, main: &[Vec<B>]) -> GenInputs<B> {
    let values = shape
        .asserts
        .iter()
        .map(|a| match *a {
            ASpec::Single { col, step } => vec![main[col][step]],
            ASpec::Periodic { col, first, .. } => vec![main[col][first]],
            ASpec::Sequence { col, first, stride } => (first..shape.n).step_by(stride).map(|i| main[col][i]).collect(),
        })
        .collect();
    GenInputs { shape: shape.clone(), values }
}

// AIR
// ================================================================================================

pub struct GenAir<B: BaseF> {
    context: AirContext<B>,
    inputs: GenInputs<B>,
    /// set when the trace info handed to `new` does not describe the shape (only possible for
    /// untrusted proofs): the AIR then degrades to one constraint on column 0 so that it stays
    /// total — verification proceeds and fails on its own
    degenerate: bool,
}

impl<B: BaseF> GenAir<B> {
    pub fn is_degenerate(&self) -> bool {
        self.degenerate
    }
}

fn tcd(d: usize, cycles: Vec<usize>) -> TransitionConstraintDegree {
    if cycles.is_empty() {
        TransitionConstraintDegree::new(d)
    } else {
        TransitionConstraintDegree::with_cycles(d, cycles)
    }
}

impl<B: BaseF> Air for GenAir<B> {
    type BaseField = B;
    type PublicInputs = GenInputs<B>;

    fn new(trace_info: TraceInfo, pub_inputs: GenInputs<B>, options: ProofOptions) -> Self {
        let s = pub_inputs.shape.clone();
        let matches = trace_info.main_trace_width() == s.width()
            && trace_info.length() == s.n
            && trace_info.aux_segment_width() == s.aux.map(|a| a.0).unwrap_or(0)
            && trace_info.get_num_aux_segment_rand_elements() == s.aux.map(|a| a.1).unwrap_or(0)
            && pub_inputs.values.len() == s.asserts.len();
        if !matches {
            let aux = trace_info.is_multi_segment();
            let context = AirContext::new_multi_segment(
                trace_info,
                vec![TransitionConstraintDegree::new(1)],
                if aux { vec![TransitionConstraintDegree::new(1)] } else { vec![] },
                1,
                if aux { 1 } else { 0 },
                options,
            );
            return GenAir { context, inputs: pub_inputs, degenerate: true };
        }
        let main_degrees = (0..s.width()).map(|j| s.declared(j)).map(|(d, c)| tcd(d, c)).collect();
        let aux_degrees: Vec<_> = s.aux_declared().into_iter().map(|(d, c)| tcd(d, c)).collect();
        let num_aux_asserts = aux_degrees.len();
        let mut context = AirContext::new_multi_segment(trace_info, main_degrees, aux_degrees, s.asserts.len(), num_aux_asserts, options);
        if s.exemptions != 1 {
            context = context.set_num_transition_exemptions(s.exemptions);
        }
        GenAir { context, inputs: pub_inputs, degenerate: false }
    }

    fn context(&self) -> &AirContext<B> {
        &self.context
    }

    fn evaluate_transition<E: FieldElement<BaseField = B>>(&self, frame: &EvaluationFrame<E>, periodic: &[E], result: &mut [E]) {
        let cur = frame.current();
        let next = frame.next();
        if self.degenerate {
            result[0] = next[0] - cur[0];
            return;
        }
        let s = &self.inputs.shape;
        for j in 0..s.width() {
            let l = cur[s.left(j)];
            let rhs = match &s.cols[j] {
                Rule::Pow { d, k } => pow(cur[j], *d) + E::from(lit::<B>(*k)),
                Rule::PowPer { d, p } => pow(cur[j], *d) + periodic[*p],
                Rule::Mul { p } => cur[j] * l + periodic[*p],
                Rule::Sum { d } => cur[j] + pow(l, *d),
                Rule::MulPer { d, p } => periodic[*p] * pow(cur[j], *d) + l,
                Rule::Reset { d, p, v } => {
                    let m = periodic[*p];
                    m * (pow(cur[j], *d) + l) + (E::ONE - m) * E::from(lit::<B>(*v))
                },
            };
            result[j] = next[j] - rhs;
        }
    }

    fn get_assertions(&self) -> Vec<Assertion<B>> {
        if self.degenerate {
            return vec![Assertion::single(0, 0, B::ZERO)];
        }
        let s = &self.inputs.shape;
        s.asserts
            .iter()
            .zip(self.inputs.values.iter())
            .map(|(a, v)| match *a {
                ASpec::Single { col, step } => Assertion::single(col, step, v[0]),
                ASpec::Periodic { col, first, stride } => Assertion::periodic(col, first, stride, v[0]),
                ASpec::Sequence { col, first, stride } => Assertion::sequence(col, first, stride, v.clone()),
            })
            .collect()
    }

    fn evaluate_aux_transition<F, E>(&self, main_frame: &EvaluationFrame<F>, aux_frame: &EvaluationFrame<E>, periodic: &[F], rands: &AuxRandElements<E>, result: &mut [E])
    where
        F: FieldElement<BaseField = B>,
        E: FieldElement<BaseField = B> + winterfell::math::ExtensionOf<F>,
    {
        let mc = main_frame.current();
        let ac = aux_frame.current();
        let an = aux_frame.next();
        if self.degenerate {
            result[0] = an[0] - ac[0];
            return;
        }
        let s = &self.inputs.shape;
        let r = rands.rand_elements();
        let m0: E = mc[0].into();
        let p_last: E = match periodic.last() {
            None => E::ZERO,
            Some(p) => (*p).into(),
        };
        result[0] = an[0] - (ac[0] * (m0 + r[0]) + p_last);
        if result.len() > 1 {
            let m1: E = mc[1 % s.width()].into();
            result[1] = an[1] - (ac[1] * (m1 + r[r.len() - 1]) + m0);
        }
        if result.len() > 2 {
            result[2] = an[2] - ac[2] * ac[2] * ac[2] * (m0 + r[0]);
        }
    }

    fn get_aux_assertions<E: FieldElement<BaseField = B>>(&self, _rands: &AuxRandElements<E>) -> Vec<Assertion<E>> {
        if self.degenerate {
            return vec![Assertion::single(0, 0, E::ZERO)];
        }
        let aw = self.inputs.shape.aux.map(|a| a.0).unwrap_or(0);
        (0..aw).map(|c| Assertion::single(c, 0, E::ONE)).collect()
    }

    fn get_periodic_column_values(&self) -> Vec<Vec<B>> {
        if self.degenerate {
            return vec![];
        }
        self.inputs.shape.periodic.iter().map(|p| p.values.iter().map(|v| lit(*v)).collect()).collect()
    }
}

// PROVER
// ================================================================================================

pub struct GenProver<B: BaseF, H: ElementHasher<BaseField = B>> {
    pub options: ProofOptions,
    pub claimed: GenInputs<B>,
    /// (aux column, row): that cell of the auxiliary trace is incremented by one (C02)
    pub aux_fault: Option<(usize, usize)>,
    _h: PhantomData<H>,
}

impl<B: BaseF, H: ElementHasher<BaseField = B>> GenProver<B, H> {
    pub fn new(options: ProofOptions, claimed: GenInputs<B>) -> Self {
        GenProver { options, claimed, aux_fault: None, _h: PhantomData }
    }
}

impl<B: BaseF, H: ElementHasher<BaseField = B> + Sync + Send> Prover for GenProver<B, H> {
    type BaseField = B;
    type Air = GenAir<B>;
    type Trace = GenTrace<B>;
    type HashFn = H;
    type VC = MerkleTree<H>;
    type RandomCoin = DefaultRandomCoin<H>;
    type TraceLde<E: FieldElement<BaseField = B>> = DefaultTraceLde<E, H, MerkleTree<H>>;
    type ConstraintCommitment<E: FieldElement<BaseField = B>> = DefaultConstraintCommitment<E, H, MerkleTree<H>>;
    type ConstraintEvaluator<'a, E: FieldElement<BaseField = B>> = DefaultConstraintEvaluator<'a, GenAir<B>, E>;

    fn get_pub_inputs(&self, _trace: &GenTrace<B>) -> GenInputs<B> {
        self.claimed.clone()
    }

    fn options(&self) -> &ProofOptions {
        &self.options
    }

    #[maybe_async]
    fn new_trace_lde<E: FieldElement<BaseField = B>>(
        &self,
        trace_info: &TraceInfo,
        main_trace: &ColMatrix<B>,
        domain: &StarkDomain<B>,
        partition_option: PartitionOptions,
    ) -> (Self::TraceLde<E>, TracePolyTable<E>) {
        DefaultTraceLde::new(trace_info, main_trace, domain, partition_option)
    }

    #[maybe_async]
    fn new_evaluator<'a, E: FieldElement<BaseField = B>>(
        &self,
        air: &'a GenAir<B>,
        aux_rand_elements: Option<AuxRandElements<E>>,
        composition_coefficients: ConstraintCompositionCoefficients<E>,
    ) -> Self::ConstraintEvaluator<'a, E> {
        DefaultConstraintEvaluator::new(air, aux_rand_elements, composition_coefficients)
    }

    #[maybe_async]
    fn build_constraint_commitment<E: FieldElement<BaseField = B>>(
        &self,
        composition_poly_trace: CompositionPolyTrace<E>,
        num_constraint_composition_columns: usize,
        domain: &StarkDomain<B>,
        partition_options: PartitionOptions,
    ) -> (Self::ConstraintCommitment<E>, CompositionPoly<E>) {
        DefaultConstraintCommitment::new(composition_poly_trace, num_constraint_composition_columns, domain, partition_options)
    }

    #[maybe_async]
    fn build_aux_trace<E: FieldElement<BaseField = B>>(&self, trace: &GenTrace<B>, aux_rand_elements: &AuxRandElements<E>) -> ColMatrix<E> {
        // aux_fault = (c, usize::MAX): column c starts from another value (only its assertion breaks)
        let other_start = self.aux_fault.filter(|f| f.1 == usize::MAX).map(|f| f.0);
        let mut cols = gen_aux_from::<B, E>(&self.claimed.shape, trace.main_segment(), aux_rand_elements.rand_elements(), other_start);
        if let Some((c, r)) = self.aux_fault.filter(|f| f.1 != usize::MAX) {
            cols[c][r] += E::ONE;
        }
        ColMatrix::new(cols)
    }
}

/// Drives `Prover::prove` in the sync and the async build alike.
pub fn prove_with<B: BaseF, H: ElementHasher<BaseField = B> + Sync + Send>(prover: &GenProver<B, H>, trace: GenTrace<B>) -> Result<Proof, ProverError> {
    #[cfg(not(feature = "async"))]
    {
        prover.prove(trace)
    }
    #[cfg(feature = "async")]
    {
        crate::block_on::block_on(prover.prove(trace))
    }
}

// R9 — INDEPENDENT CONSTRAINT CHECKER
// ================================================================================================

/// Evaluates the shape on raw values. `Ok(())` iff every assertion holds and every transition
/// rule holds on all non-exempt steps; otherwise names the first failure.
pub fn check_main<B: BaseF>(s: &Shape, main: &[Vec<B>], claimed: &[Vec<B>]) -> Result<(), String> {
    let n = s.n;
    for (a, vals) in s.asserts.iter().zip(claimed.iter()) {
        let steps = a.steps(n);
        for (k, &step) in steps.iter().enumerate() {
            let want = if vals.len() == 1 { vals[0] } else { vals[k] };
            if main[a.col()][step] != want {
                return Err(format!("assertion on column {} fails at step {step}", a.col()));
            }
        }
    }
    for i in 0..n - s.exemptions {
        let nx = (i + 1) % n;
        for j in 0..s.width() {
            let c = main[j][i];
            let l = main[s.left(j)][i];
            let per = |p: usize| -> B { lit(s.periodic[p].values[i % s.periodic[p].values.len()]) };
            let want = match &s.cols[j] {
                Rule::Pow { d, k } => pow(c, *d) + lit(*k),
                Rule::PowPer { d, p } => pow(c, *d) + per(*p),
                Rule::Mul { p } => c * l + per(*p),
                Rule::Sum { d } => c + pow(l, *d),
                Rule::MulPer { d, p } => per(*p) * pow(c, *d) + l,
                Rule::Reset { d, p, v } => {
                    if s.periodic[*p].values[i % s.periodic[*p].values.len()] == 0 {
                        lit(*v)
                    } else {
                        pow(c, *d) + l
                    }
                },
            };
            if main[j][nx] != want {
                return Err(format!("transition of column {j} fails at step {i}"));
            }
        }
    }
    Ok(())
}

pub fn check_aux<B: BaseF, E: FieldElement<BaseField = B>>(s: &Shape, main: &[Vec<B>], aux: &[Vec<E>], rands: &[E]) -> Result<(), String> {
    let n = s.n;
    for (c, col) in aux.iter().enumerate() {
        if col[0] != E::ONE {
            return Err(format!("aux assertion on column {c} fails at step 0"));
        }
    }
    for i in 0..n - s.exemptions {
        let nx = (i + 1) % n;
        let m0: E = main[0][i].into();
        if aux[0][nx] != aux[0][i] * (m0 + rands[0]) + aux_periodic::<B, E>(s, i) {
            return Err(format!("aux transition 0 fails at step {i}"));
        }
        if aux.len() > 1 {
            let m1: E = main[1 % s.width()][i].into();
            if aux[1][nx] != aux[1][i] * (m1 + rands[rands.len() - 1]) + m0 {
                return Err(format!("aux transition 1 fails at step {i}"));
            }
        }
        if aux.len() > 2 {
            let c = aux[2][i];
            if aux[2][nx] != c * c * c * (m0 + rands[0]) {
                return Err(format!("aux transition 2 fails at step {i}"));
            }
        }
    }
    Ok(())
}
