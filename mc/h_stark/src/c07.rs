//! C07 — protocol objects survive serialisation round trips: every value of the proof component
//! types their public constructors accept (boundary products), and every proof of a lattice
//! sample, decodes from its own encoding to an equal value with no bytes left over; a decoded
//! proof gets the same verdict.

use mck::{json, Args, Report, Violation};
use winter_air::proof::{Commitments, Context, OodFrame, Proof, Queries, QuotientOodFrame, TraceOodFrame};
use winter_fri::FriProof;
use winterfell::crypto::hashers::{Blake3_192, Blake3_256, Rp62_248, Rp64_256, RpJive64_256, Sha3_256};
use winterfell::crypto::{BatchMerkleProof, Hasher, MerkleTree};
use winterfell::math::fields::{CubeExtension, QuadExtension};
use winterfell::math::{FieldElement, StarkField};
use winterfell::{AcceptableOptions, BatchingMethod, FieldExtension, ProofOptions, TraceInfo};
use winter_utils::{ByteReader, Deserializable, Serializable, SliceReader};

use crate::c01::{build_cases, Case};
use crate::cfg::*;
use crate::dispatch;
use crate::genair::*;

struct S {
    evals: u64,
    nontrivial: u64,
    viol: Vec<Violation>,
}

impl S {
    fn new() -> S {
        S { evals: 0, nontrivial: 0, viol: vec![] }
    }
    fn fail(&mut self, class: String, key: String, detail: String) {
        if self.viol.iter().filter(|v| v.class == class).count() < 4 {
            self.viol.push(Violation { class, key: key.clone(), detail, replay: json!({"case": key}) });
        }
    }
    fn absorb(&mut self, o: S) {
        self.evals += o.evals;
        self.nontrivial += o.nontrivial;
        for v in o.viol {
            self.fail(v.class, v.key, v.detail);
        }
    }
}

/// encode, decode, compare, and require the reader to be exhausted
fn rt<T: Serializable + Deserializable + PartialEq>(tname: &str, key: String, x: &T, s: &mut S) {
    s.evals += 1;
    let bytes = match mck::catch(|| x.to_bytes()) {
        Ok(b) => b,
        Err(p) => return s.fail(format!("panic:encode:{tname}:{}", p.location), key.clone(), format!("{tname}::write_into panicked at {} ({}) for {key}", p.location, p.message)),
    };
    let r = mck::catch(|| {
        let mut rd = SliceReader::new(&bytes);
        let v = T::read_from(&mut rd);
        (v, rd.has_more_bytes())
    });
    match r {
        Err(p) => s.fail(format!("panic:decode:{tname}:{}", p.location), key.clone(), format!("{tname}::read_from panicked at {} ({}) on the encoding of a value its constructor accepted: {key}", p.location, p.message)),
        Ok((Err(e), _)) => s.fail(format!("rejected_own_encoding:{tname}"), key.clone(), format!("{tname}::read_from rejected the encoding of a value its constructor accepted ({key}): {e}")),
        Ok((Ok(v), more)) => {
            if v != *x {
                s.fail(format!("roundtrip_differs:{tname}"), key.clone(), format!("{tname}: decode(encode(x)) != x for {key}"));
            }
            if more {
                s.fail(format!("bytes_left_over:{tname}"), key, format!("{tname}: bytes left over after decoding its own encoding"));
            }
        },
    }
}

fn trace_infos(s: &mut S) -> Vec<TraceInfo> {
    let mut keep = vec![];
    for main in [1usize, 2, 127, 254, 255] {
        for aux in [0usize, 1, 2, 128, 254] {
            if main + aux > 255 {
                continue;
            }
            for rands in [0usize, 1, 2, 255] {
                if aux == 0 && rands != 0 {
                    continue;
                }
                for lg in [3u32, 4, 20, 31] {
                    for meta in [0usize, 1, 6, 7, 8, 15, 16, 65535] {
                        if meta > 16 && !(main == 255 || (main, aux, rands) == (1, 0, 0)) {
                            continue; // the long metadata only on two shapes (64 KiB each)
                        }
                        let m: Vec<u8> = (0..meta).map(|i| (i % 251) as u8).collect();
                        let key = format!("TraceInfo(main={main}, aux={aux}, rands={rands}, len=2^{lg}, meta={meta} bytes)");
                        match mck::catch(|| TraceInfo::new_multi_segment(main, aux, rands, 1 << lg, m.clone())) {
                            Ok(t) => {
                                if main == 255 || (aux > 0 && rands == 0) || meta == 65535 {
                                    s.nontrivial += 1;
                                }
                                rt("TraceInfo", key, &t, s);
                                if meta <= 8 && lg <= 20 {
                                    keep.push(t);
                                }
                            },
                            Err(_) => {}, // the constructor refuses: outside the quantifier
                        }
                    }
                }
            }
        }
    }
    keep
}

fn proof_options(s: &mut S) -> Vec<ProofOptions> {
    let base = |q: usize, b: usize, g: u32, e: FieldExtension, f: usize, r: usize, bc: BatchingMethod, bd: BatchingMethod| ProofOptions::new(q, b, g, e, f, r, bc, bd);
    let exts = [FieldExtension::None, FieldExtension::Quadratic, FieldExtension::Cubic];
    let bms = [BatchingMethod::Linear, BatchingMethod::Algebraic, BatchingMethod::Horner];
    let mut all = vec![];
    // every value of every parameter at the base point
    for q in 1..=255 {
        all.push(("queries", base(q, 8, 0, exts[0], 4, 7, bms[0], bms[0])));
    }
    for b in [2, 4, 8, 16, 32, 64, 128] {
        all.push(("blowup", base(8, b, 0, exts[0], 4, 7, bms[0], bms[0])));
    }
    for g in 0..=32 {
        all.push(("grinding", base(8, 8, g, exts[0], 4, 7, bms[0], bms[0])));
    }
    for e in exts {
        for f in [2, 4, 8, 16] {
            for r in [0, 1, 3, 7, 15, 31, 63, 127, 255] {
                for bc in bms {
                    for bd in bms {
                        all.push(("ext x folding x remainder x batching", base(8, 8, 0, e, f, r, bc, bd)));
                    }
                }
            }
        }
    }
    // pairs of boundary values
    for q in [1, 255] {
        for b in [2, 128] {
            for g in [0, 32] {
                for r in [0, 255] {
                    all.push(("boundary product", base(q, b, g, exts[2], 16, r, bms[2], bms[1])));
                }
            }
        }
    }
    let mut keep = vec![];
    for (what, o) in &all {
        rt("ProofOptions", format!("ProofOptions[{what}] {o:?}"), o, s);
    }
    // all 16 x 256 partition settings x 3 extensions
    for p in 1..=16usize {
        for r in 1..=256usize {
          for (ei, e) in exts.iter().enumerate() {
            match mck::catch(|| base(8, 8, 0, *e, 4, 7, bms[0], bms[0]).with_partitions(p, r)) {
                Ok(o) => {
                    s.nontrivial += 1;
                    rt("ProofOptions", format!("ProofOptions with_partitions({p}, {r}) extension {e:?}"), &o, s);
                    if ei == 1 && (r == 256 || (p, r) == (16, 255)) {
                        keep.push(o);
                    }
                },
                Err(_) => {},
            }
          }
        }
    }
    keep.extend(all.into_iter().step_by(97).map(|(_, o)| o));
    keep
}

fn contexts(tis: &[TraceInfo], opts: &[ProofOptions], s: &mut S) {
    for (i, t) in tis.iter().enumerate() {
        for (j, o) in opts.iter().enumerate() {
            if (i + j) % 3 != 0 {
                continue;
            }
            for nc in [1usize, 2, 127, 128, 16383, 16384, u32::MAX as usize] {
                // Context::new refuses LDE domains beyond u32
                let key = format!("Context({t:?}, {o:?}, constraints={nc})");
                macro_rules! one {
                    ($b:ty) => {
                        if let Ok(c) = mck::catch(|| Context::new::<$b>(t.clone(), o.clone(), nc)) {
                            s.nontrivial += 1;
                            rt("Context", key.clone(), &c, s);
                        }
                    };
                }
                one!(B64);
                one!(B128);
                one!(B62);
            }
        }
    }
}

fn digests<H: Hasher>(k: usize) -> Vec<H::Digest> {
    (0..k).map(|i| H::hash(&[i as u8, 0xC7])).collect()
}

fn commitments_and_digests(s: &mut S) {
    fn one<H: Hasher>(hname: &str, s: &mut S)
    where
        H::Digest: PartialEq,
    {
        for seg in 1..=2usize {
            for layers in 0..=12usize {
                let d = digests::<H>(seg + 1 + layers + 1);
                let c = Commitments::new::<H>(d[..seg].to_vec(), d[seg], d[seg + 1..].to_vec());
                s.nontrivial += 1;
                rt("Commitments", format!("Commitments<{hname}>(segments={seg}, fri_layers={layers})"), &c, s);
                // parsed back, the digests are the ones put in
                match mck::catch(|| c.clone().parse::<H>(seg, layers)) {
                    Ok(Ok((t, cr, f))) if t == d[..seg] && cr == d[seg] && f == d[seg + 1..] => {},
                    _ => s.fail(format!("wrong:Commitments::parse:{hname}"), format!("{hname}/{seg}/{layers}"), "Commitments::parse does not return the digests it was built from".into()),
                }
            }
        }
        for d in digests::<H>(16).into_iter().chain([H::Digest::default()]) {
            rt(&format!("Digest<{hname}>"), format!("digest {d:?}"), &d, s);
        }
    }
    one::<Blake3_256<B64>>("Blake3_256", s);
    one::<Blake3_192<B64>>("Blake3_192", s);
    one::<Sha3_256<B64>>("Sha3_256", s);
    one::<Rp64_256>("Rp64_256", s);
    one::<RpJive64_256>("RpJive64_256", s);
    one::<Rp62_248>("Rp62_248", s);
}

fn queries_and_frames(s: &mut S) {
    type H = Blake3_256<B64>;
    let tree = MerkleTree::<H>::new(digests::<H>(16)).unwrap();
    fn q<E: FieldElement<BaseField = B64>>(ename: &str, tree: &MerkleTree<Blake3_256<B64>>, s: &mut S) {
        for width in (1..=255usize).filter(|w| *w <= 20 || w % 16 == 15 || *w >= 250) {
            for idx in [vec![3usize], vec![0, 1, 9, 15]] {
                let (_, bmp) = tree.prove_batch(&idx).unwrap();
                let rows: Vec<Vec<E>> = (0..idx.len()).map(|r| (0..width).map(|c| E::from((r * 1000 + c) as u32 + 1)).collect()).collect();
                let qs = Queries::new::<H, E, MerkleTree<H>>(BatchMerkleProof::<H> { nodes: bmp.nodes.clone(), depth: bmp.depth }, rows.clone());
                s.nontrivial += 1;
                rt("Queries", format!("Queries<{ename}>(width={width}, rows={})", idx.len()), &qs, s);
                match mck::catch(|| qs.clone().parse::<E, H, MerkleTree<H>>(16, idx.len(), width)) {
                    Ok(Ok((mp, t))) if mp.nodes == bmp.nodes && mp.depth == bmp.depth && t.rows().map(|r| r.to_vec()).collect::<Vec<_>>() == rows => {},
                    Ok(r) => s.fail("wrong:Queries::parse".into(), format!("{ename}/{width}/{}", idx.len()), format!("Queries::parse does not return the values and opening it was built from ({})", if r.is_err() { "error" } else { "different" })),
                    Err(p) => s.fail(format!("panic:Queries::parse:{}", p.location), format!("{ename}/{width}"), p.message),
                }
            }
        }
        // out-of-domain frames
        for main in (1..=255usize).filter(|w| *w <= 12 || *w >= 250 || w % 32 == 0) {
            for aux in [0usize, 1, 3] {
                if main + aux > 255 {
                    continue;
                }
                for quot in [1usize, 2, 8, 128] {
                    let cur: Vec<E> = (0..main + aux).map(|i| E::from(i as u32 + 7)).collect();
                    let nxt: Vec<E> = (0..main + aux).map(|i| E::from(i as u32 + 1007)).collect();
                    let qc: Vec<E> = (0..quot).map(|i| E::from(i as u32 + 31)).collect();
                    let qn: Vec<E> = (0..quot).map(|i| E::from(i as u32 + 3001)).collect();
                    let mut f = OodFrame::default();
                    f.set_trace_states(&TraceOodFrame::new(cur.clone(), nxt.clone(), main));
                    f.set_quotient_states(&QuotientOodFrame::new(qc.clone(), qn.clone()));
                    s.nontrivial += 1;
                    rt("OodFrame", format!("OodFrame<{ename}>(main={main}, aux={aux}, quotients={quot})"), &f, s);
                    match mck::catch(|| f.clone().parse::<E>(main, aux, quot)) {
                        Ok(Ok((t, qf))) if t.current_row() == &cur[..] && t.next_row() == &nxt[..] && qf.current_row() == &qc[..] && qf.next_row() == &qn[..] => {},
                        Ok(Ok(_)) => s.fail("wrong:OodFrame::parse".into(), format!("{ename}/{main}/{aux}/{quot}"), "OodFrame::parse returns other rows than the ones set".into()),
                        Ok(Err(e)) => s.fail("rejected_own_encoding:OodFrame::parse".into(), format!("{ename}/{main}/{aux}/{quot}"), format!("OodFrame::parse rejects a frame built by its setters (main {main}, aux {aux}, quotients {quot}): {e}")),
                        Err(p) => s.fail(format!("panic:OodFrame::parse:{}", p.location), format!("{ename}/{main}/{aux}/{quot}"), p.message),
                    }
                }
            }
        }
    }
    q::<B64>("f64", &tree, s);
    q::<QuadExtension<B64>>("f64^2", &tree, s);
    q::<CubeExtension<B64>>("f64^3", &tree, s);
    // batch Merkle proofs: every index subset of an 8-leaf tree
    let t8 = MerkleTree::<H>::new(digests::<H>(8)).unwrap();
    for m in 1u32..256 {
        let idx: Vec<usize> = (0..8).filter(|i| m >> i & 1 == 1).collect();
        let (_, p) = t8.prove_batch(&idx).unwrap();
        let bytes = p.to_bytes();
        s.evals += 1;
        let mut rd = SliceReader::new(&bytes);
        match BatchMerkleProof::<H>::read_from(&mut rd) {
            Ok(b) if b.nodes == p.nodes && b.depth == p.depth && !rd.has_more_bytes() => {},
            _ => s.fail("roundtrip_differs:BatchMerkleProof".into(), format!("{idx:?}"), format!("batch proof for {idx:?} does not survive its encoding")),
        }
    }
}

/// a proof decodes to an equal proof, exhausts the reader, and gets the same verdict
fn proof_case<B: BaseF, H: HF<B>>(c: &Case, s: &mut S) {
    let h = honest::<B>(&c.shape);
    let Ok(proof) = prove_trace::<B, H>(&c.shape, h.main.clone(), &h.inputs, &c.cfg, None) else { return };
    rt("Proof", format!("proof of {} under {}", c.shape.name, c.cfg.short()), &proof, s);
    s.nontrivial += 1;
    // FRI proof on its own
    rt::<FriProof>("FriProof", format!("FRI proof of {} under {}", c.shape.name, c.cfg.short()), &proof.fri_proof, s);
    let own = AcceptableOptions::OptionSet(vec![c.cfg.options()]);
    let decoded = Proof::from_bytes(&proof.to_bytes());
    let mut wrong = h.inputs.clone();
    wrong.values[0][0] += B::ONE;
    if let Ok(d) = decoded {
        for (inputs, what) in [(&h.inputs, "right"), (&wrong, "wrong")] {
            let a = verify_proof::<B, H>(proof.clone(), inputs, &own).is_ok();
            let b = verify_proof::<B, H>(d.clone(), inputs, &own).is_ok();
            if a != b {
                s.fail("verdict_differs_after_roundtrip".into(), format!("{}@{}", c.shape.name, c.cfg.short()), format!("original proof verdict {a}, decoded proof verdict {b} ({what} public inputs)"));
            }
        }
    }
}

pub fn run(args: &Args) {
    let mut report = Report::new(args, "exploration");
    let thorough = args.tier == mck::Tier::Thorough;
    let mut s = S::new();
    let tis = trace_infos(&mut s);
    report.part("TraceInfo: main {1,2,127,254,255} x aux {0,1,2,128,254} x rands {0,1,2,255} x length 2^{3,4,20,31} x metadata {0..16, 65535} bytes", s.evals, s.nontrivial, json!({}));
    let (e0, n0) = (s.evals, s.nontrivial);
    let opts = proof_options(&mut s);
    report.part("ProofOptions: every value of every parameter, boundary products, all 16 x 256 partition settings", s.evals - e0, s.nontrivial - n0, json!({}));
    let (e0, n0) = (s.evals, s.nontrivial);
    contexts(&tis, &opts, &mut s);
    report.part("Context: trace infos x option sets x constraint counts around the size-encoding boundaries x three fields", s.evals - e0, s.nontrivial - n0, json!({}));
    let (e0, n0) = (s.evals, s.nontrivial);
    commitments_and_digests(&mut s);
    report.part("Commitments (1-2 segments x 0-12 FRI layers) and digests, six hashers", s.evals - e0, s.nontrivial - n0, json!({}));
    let (e0, n0) = (s.evals, s.nontrivial);
    queries_and_frames(&mut s);
    report.part("Queries and OodFrame for widths 1..255 x base / quadratic / cubic elements; batch Merkle proofs for all index subsets of 8 leaves", s.evals - e0, s.nontrivial - n0, json!({}));
    let (e0, n0) = (s.evals, s.nontrivial);
    // proofs: a sample of the C01 lattice (every 7th point in the quick tier)
    let cases: Vec<Case> = build_cases(false).into_iter().filter(|c| c.cfg.valid_for(&c.shape).is_ok()).step_by(if thorough { 1 } else { 3 }).collect();
    let outs = mck::par_map(cases.len(), |i| {
        let mut s = S::new();
        let c = &cases[i];
        dispatch!(c.cfg, proof_case, c, &mut s);
        s
    });
    for o in outs {
        s.absorb(o);
    }
    report.part("proofs and their FRI proofs: a sample of the C01 lattice; verdict of the decoded proof equals the original's for right and wrong public inputs", s.evals - e0, s.nontrivial - n0, json!({"lattice_points": cases.len()}));
    report.violations(s.viol);
    report.sample(json!({"type": "TraceInfo", "value": "main=255, aux=0, len=2^3, meta=65535 bytes", "oracle": "read_from(write_into(x)) == x and the reader is exhausted"}));
    report.exhaustive = true;
    report.rule = "one case per (type, constructor-accepted value); non-trivial = values on a boundary the property names (255 columns, zero random elements with an auxiliary segment, 65535 metadata bytes, partition settings, widths up to 255) or compound objects".into();
    report.bounds = json!({"proof_sample_step": if thorough { 1 } else { 3 }});
    report.assumptions = vec!["values the public constructors refuse (panic) are outside the quantifier".into(), "FRI proofs over the whole FRI lattice are round-tripped by C08; batch Merkle proofs over all subsets up to 16 leaves by C18".into()];
    report.finish(args)
}

#[allow(dead_code)]
fn _u<R: ByteReader, F: StarkField>() {}
