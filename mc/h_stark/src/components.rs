//! Component decoders for C05 (and the value catalogue of C07): every decoder an untrusted proof
//! reaches, callable on arbitrary bytes in an isolated worker.

use mck::e4::{byte_faults, ByteFaultOpts};
use mck::pool;
use refm::proofcodec as r8;
use winter_air::proof::{Commitments, Context, OodFrame, Proof, Queries};
use winter_fri::FriProof;
use winterfell::crypto::hashers::{Blake3_192, Blake3_256, Rp62_248, Rp64_256, RpJive64_256};
use winterfell::crypto::{BatchMerkleProof, Hasher, MerkleTree};
use winterfell::math::fields::{CubeExtension, QuadExtension};
use winterfell::{ProofOptions, TraceInfo};
use winter_utils::{Deserializable, Serializable};

use crate::cfg::*;
use crate::mutants::{corpus, honest_bytes, layout};

pub const NAMES: [&str; 21] = [
    "TraceInfo", "ProofOptions", "Context", "Commitments+parse", "Queries+parse", "OodFrame+parse", "FriProof+parse", "BatchMerkleProof+get_root+into_openings",
    "ByteDigest<32>", "ByteDigest<24>", "Rp64_256 digest", "Rp62_248 digest", "RpJive64_256 digest", "f64 element", "f62 element", "f128 element", "f64 quadratic element",
    "f64 cubic element", "Vec<f64 element>", "Proof", "Vec<BatchMerkleProof>",
];

type H = Blake3_256<B64>;
type E = QuadExtension<B64>;

/// parameters of the reference proof (corpus entry 1), needed by the `parse` functions
#[derive(Clone, Copy)]
pub struct Params {
    lde: usize,
    nuq: usize,
    main_w: usize,
    aux_w: usize,
    quotients: usize,
    layers: usize,
    folding: usize,
}

pub fn reference() -> (Proof, Params) {
    let e = &corpus()[1];
    let p = Proof::from_bytes(&honest_bytes(e)).expect("corpus proof decodes");
    let fo = p.options().to_fri_options();
    let params = Params {
        lde: p.lde_domain_size(),
        nuq: p.num_unique_queries as usize,
        main_w: p.trace_info().main_trace_width(),
        aux_w: p.trace_info().aux_segment_width(),
        quotients: 2,
        layers: fo.num_fri_layers(p.lde_domain_size()),
        folding: fo.folding_factor(),
    };
    (p, params)
}

fn ok<T, Er>(r: Result<T, Er>) -> bool {
    r.is_ok()
}

/// runs decoder `kind` (and the parse functions behind it) on `b`; true = a value, false = an error
pub fn decode_kind(kind: u8, b: &[u8], pr: &Params) -> bool {
    match kind {
        0 => ok(TraceInfo::read_from_bytes(b)),
        1 => ok(ProofOptions::read_from_bytes(b)),
        2 => match Context::read_from_bytes(b) {
            Ok(c) => {
                let _ = c.lde_domain_size();
                let _ = c.num_modulus_bits();
                true
            },
            Err(_) => false,
        },
        3 => match Commitments::read_from_bytes(b) {
            Ok(c) => ok(c.parse::<H>(2, pr.layers)),
            Err(_) => false,
        },
        4 => match Queries::read_from_bytes(b) {
            Ok(q) => {
                let a = ok(q.clone().parse::<B64, H, MerkleTree<H>>(pr.lde, pr.nuq, pr.main_w));
                let c = ok(q.parse::<E, H, MerkleTree<H>>(pr.lde, pr.nuq, pr.aux_w));
                a || c
            },
            Err(_) => false,
        },
        5 => match OodFrame::read_from_bytes(b) {
            Ok(f) => ok(f.parse::<E>(pr.main_w, pr.aux_w, pr.quotients)),
            Err(_) => false,
        },
        6 => match FriProof::read_from_bytes(b) {
            Ok(f) => {
                let _ = f.num_layers();
                let _ = f.size();
                let _ = f.num_partitions();
                let r = ok(f.parse_remainder::<E>());
                let l = ok(f.parse_layers::<E, H, MerkleTree<H>>(pr.lde, pr.folding));
                r && l
            },
            Err(_) => false,
        },
        7 => match BatchMerkleProof::<H>::read_from_bytes(b) {
            Ok(p) => {
                let leaves = [H::hash(b"a"), H::hash(b"b")];
                let a = ok(p.get_root(&[0, 1], &leaves));
                let c = ok(p.get_root(&[5], &leaves[..1]));
                let d = ok(MerkleTree::<H>::verify_batch(&leaves[0], &[0, 3], &leaves, &p));
                let e = ok(p.into_openings(&leaves, &[0, 1]));
                a || c || d || e
            },
            Err(_) => false,
        },
        8 => ok(<H as Hasher>::Digest::read_from_bytes(b)),
        9 => ok(<Blake3_192<B64> as Hasher>::Digest::read_from_bytes(b)),
        10 => ok(<Rp64_256 as Hasher>::Digest::read_from_bytes(b)),
        11 => ok(<Rp62_248 as Hasher>::Digest::read_from_bytes(b)),
        12 => ok(<RpJive64_256 as Hasher>::Digest::read_from_bytes(b)),
        13 => ok(B64::read_from_bytes(b)),
        14 => ok(B62::read_from_bytes(b)),
        15 => ok(B128::read_from_bytes(b)),
        16 => ok(E::read_from_bytes(b)),
        17 => ok(CubeExtension::<B64>::read_from_bytes(b)),
        18 => ok(Vec::<B64>::read_from_bytes(b)),
        19 => ok(Proof::from_bytes(b)),
        20 => ok(Vec::<BatchMerkleProof<H>>::read_from_bytes(b)),
        _ => false,
    }
}

pub fn worker() -> ! {
    let mut params: Option<Params> = None;
    pool::serve(move |case| {
        if case.is_empty() {
            return vec![0xAA];
        }
        if params.is_none() {
            params = Some(reference().1);
        }
        let pr = params.unwrap();
        match mck::catch(|| decode_kind(case[0], &case[1..], &pr)) {
            Ok(true) => vec![0],
            Ok(false) => vec![1],
            Err(p) => {
                let mut v = vec![2];
                v.extend(format!("{}|{}|lib={}", p.location, p.message, p.in_library).into_bytes());
                v
            },
        }
    })
}

pub struct Case {
    pub kind: u8,
    pub bytes: Vec<u8>,
    pub desc: String,
}

/// honest encodings per decoder kind
pub fn honest_encodings() -> Vec<(u8, Vec<u8>)> {
    let (p, _) = reference();
    let e = &corpus()[1];
    let tree = MerkleTree::<H>::new((0..8u8).map(|i| H::hash(&[i])).collect()).unwrap();
    let (_, bmp) = tree.prove_batch(&[0, 1]).unwrap();
    let (_, bmp2) = tree.prove_batch(&[2, 5, 7]).unwrap();
    let _ = layout(&e.cfg);
    vec![
        (0, p.trace_info().to_bytes()),
        (1, p.options().to_bytes()),
        (2, p.context.to_bytes()),
        (3, p.commitments.to_bytes()),
        (4, p.trace_queries[0].to_bytes()),
        (4, p.trace_queries[1].to_bytes()),
        (5, p.ood_frame.to_bytes()),
        (6, p.fri_proof.to_bytes()),
        (7, bmp.to_bytes()),
        (7, bmp2.to_bytes()),
        (8, H::hash(b"x").to_bytes()),
        (9, Blake3_192::<B64>::hash(b"x").to_bytes()),
        (10, Rp64_256::hash(b"x").to_bytes()),
        (11, Rp62_248::hash(b"x").to_bytes()),
        (12, RpJive64_256::hash(b"x").to_bytes()),
        (13, B64::new(7).to_bytes()),
        (14, B62::new(7).to_bytes()),
        (15, B128::new(7).to_bytes()),
        (16, E::new(B64::new(7), B64::new(9)).to_bytes()),
        (17, CubeExtension::<B64>::new(B64::new(7), B64::new(9), B64::new(11)).to_bytes()),
        (18, vec![B64::new(1), B64::new(2), B64::new(3)].to_bytes()),
        (19, p.to_bytes()),
        (20, vec![BatchMerkleProof::<H> { nodes: bmp.nodes.clone(), depth: bmp.depth }, BatchMerkleProof::<H> { nodes: bmp2.nodes.clone(), depth: bmp2.depth }].to_bytes()),
    ]
}

pub fn cases(thorough: bool) -> Vec<Case> {
    let mut out = vec![];
    let mut seen = std::collections::BTreeSet::new();
    let mut push = |out: &mut Vec<Case>, kind: u8, bytes: Vec<u8>, desc: String| {
        let mut k = vec![kind];
        k.extend(&bytes);
        if seen.insert(k) {
            out.push(Case { kind, bytes, desc });
        }
    };
    // all byte strings of length <= 2 for every decoder (thorough: <= 2 as well, plus 3-byte strings over a boundary alphabet)
    for kind in 0..NAMES.len() as u8 {
        push(&mut out, kind, vec![], "empty string".into());
        for a in 0..=255u8 {
            push(&mut out, kind, vec![a], format!("1-byte string {a:02x}"));
        }
        // 2-byte strings: exhaustive for the structured decoders, boundary alphabet for the flat ones
        let flat = (8..=17).contains(&kind);
        let alpha: Vec<u8> = if flat { vec![0, 1, 0x7F, 0x80, 0xFF] } else { (0..=255).collect() };
        for &a in &alpha {
            for &b in &alpha {
                push(&mut out, kind, vec![a, b], format!("2-byte string {a:02x}{b:02x}"));
            }
        }
        if thorough && !flat {
            let al3 = [0u8, 1, 2, 3, 0x7F, 0x80, 0xFE, 0xFF];
            for a in al3 {
                for b in al3 {
                    for c in 0..=255u8 {
                        push(&mut out, kind, vec![a, b, c], format!("3-byte string {a:02x}{b:02x}{c:02x}"));
                    }
                }
            }
        }
    }
    // honest encodings: every prefix, every byte-level fault, every extension by a junk tail
    let hon = honest_encodings();
    for (kind, enc) in &hon {
        for n in 0..enc.len() {
            push(&mut out, *kind, enc[..n].to_vec(), format!("prefix of length {n} of an honest encoding ({} bytes)", enc.len()));
        }
        if enc.len() <= 2500 || thorough {
            for f in byte_faults(enc, ByteFaultOpts { truncations: false, ..ByteFaultOpts::ALL }) {
                push(&mut out, *kind, f.apply(enc), format!("honest encoding with {}", f.short()));
            }
        }
        // over-long counts: an honest encoding whose first bytes are replaced by a huge size value
        for v in [1u64 << 20, 1 << 32, 1 << 56, (1 << 61) + 7, u64::MAX >> 1, u64::MAX] {
            let mut b = r8::vint_encode(v, r8::vint_len(v)).unwrap();
            b.extend(enc.iter().skip(1));
            push(&mut out, *kind, b, format!("honest encoding prefixed by the size value {v}"));
            let mut b2 = vec![enc[0]];
            b2.extend(r8::vint_encode(v, r8::vint_len(v)).unwrap());
            b2.extend(enc.iter().skip(2));
            push(&mut out, *kind, b2, format!("honest encoding with the size value {v} after its first byte"));
        }
    }
    // structured (R8) edits of the components of the reference proof
    let (p, _) = reference();
    let e = &corpus()[1];
    let pb = p.to_bytes();
    if let Ok((tree, _)) = r8::parse(&pb, layout(&e.cfg)) {
        for (suffix, kind) in [("proof.context", 2u8), ("context.trace_info", 0), ("proof.commitments", 3), ("proof.trace_queries[main]", 4), ("proof.trace_queries[aux]", 4), ("proof.constraint_queries", 4), ("proof.ood_frame", 5), ("proof.fri_proof", 6)] {
            if let Some(path) = r8::find(&tree, suffix) {
                let sub = r8::get(&tree, &path).clone();
                for (d, b) in r8::edits(&sub) {
                    push(&mut out, kind, b, format!("R8 edit: {d}"));
                }
            }
        }
        // the batch Merkle proof inside the main trace queries
        if let Some(path) = r8::find(&tree, "trace_queries[main].opening_proof.batch_merkle_proof") {
            let sub = r8::get(&tree, &path).clone();
            for (d, b) in r8::edits(&sub) {
                push(&mut out, 7, b, format!("R8 edit: {d}"));
            }
            for (d, b) in crate::mutants::bmp_pairs(&sub) {
                push(&mut out, 7, b, format!("R8 coordinated edit: {d}"));
            }
        }
    }
    out
}
