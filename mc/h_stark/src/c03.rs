//! C03 — data revealed after the challenges must match the earlier commitments, even when the
//! substitute is chosen adaptively. Explicit enumeration of adversary moves on honest
//! transcripts: the transcript replayer re-derives z, the DEEP coefficients, the FRI alphas and
//! the query positions through the public coin/AIR API (and is validated against the proof: its
//! DEEP evaluations must equal the first FRI layer's queried values), then every move substitutes
//! queried data *and compensates* so that every non-commitment check still passes:
//!   (a) main-trace value +d, a constraint-composition value -d*cc_i/cc_j   (every row x column)
//!   (a') the same for auxiliary-segment values
//!   (b) two constraint-composition values against each other
//!   (n) the naive, uncompensated versions
//!   (d) the colluding FRI remainder r + c*prod(x - x_i) over the last-layer query points
//! Oracle: `verify` returns an error. The harness proves that only a commitment check can notice
//! (a)/(a')/(b): its own DEEP evaluation of the forged rows equals the honest one.

use std::sync::Arc;

use mck::{json, Args, Report, Value, Violation};
use refm::proofcodec as r8;
use winter_air::proof::{merge_ood_evaluations, Proof, Queries};
use winterfell::crypto::{DefaultRandomCoin, ElementHasher, MerkleTree, RandomCoin};
#[allow(unused_imports)]
use mck::Value as _Value;
use winterfell::math::fields::{CubeExtension, QuadExtension};
use winterfell::math::{FieldElement, StarkField};
use winterfell::{AcceptableOptions, Air, FieldExtension};

use crate::cfg::*;
use crate::dispatch;
use crate::genair::*;
use crate::mutants::layout;

struct Replay<E: FieldElement> {
    cc_trace: Vec<E>,
    cc_cons: Vec<E>,
    z: E,
    positions: Vec<usize>,
    num_quotients: usize,
}

fn replay<B: BaseF, H: HF<B>, E: FieldElement<BaseField = B>>(p: &Proof, inputs: &GenInputs<B>) -> Result<Replay<E>, String> {
    use winterfell::math::ToElements;
    let air = GenAir::<B>::new(p.trace_info().clone(), inputs.clone(), p.options().clone());
    let mut seed = p.context.to_elements();
    seed.append(&mut inputs.to_elements());
    let mut coin = DefaultRandomCoin::<H>::new(&seed);
    let lde = air.lde_domain_size();
    let fri_opts = air.options().to_fri_options();
    let layers = fri_opts.num_fri_layers(lde);
    let (troots, croot, froots) = p.commitments.clone().parse::<H>(air.trace_info().num_segments(), layers).map_err(|e| e.to_string())?;
    coin.reseed(troots[0]);
    if air.trace_info().is_multi_segment() {
        let _ = air.get_aux_rand_elements::<E, _>(&mut coin).map_err(|e| e.to_string())?;
        coin.reseed(troots[1]);
    }
    let _cc = air.get_constraint_composition_coefficients::<E, _>(&mut coin).map_err(|e| e.to_string())?;
    coin.reseed(croot);
    let z: E = coin.draw().map_err(|e| e.to_string())?;
    let nq = air.context().num_constraint_composition_columns();
    let (tf, qf) = p.ood_frame.clone().parse::<E>(air.trace_info().main_trace_width(), air.trace_info().aux_segment_width(), nq).map_err(|e| e.to_string())?;
    coin.reseed(H::hash_elements(&merge_ood_evaluations(&tf, &qf)));
    let deep = air.get_deep_composition_coefficients::<E, _>(&mut coin).map_err(|e| e.to_string())?;
    for c in &froots {
        coin.reseed(*c);
        let _: E = coin.draw().map_err(|e| e.to_string())?;
    }
    if coin.check_leading_zeros(p.pow_nonce) < air.options().grinding_factor() {
        return Err("pow".into());
    }
    let mut positions = coin.draw_integers(air.options().num_queries(), lde, p.pow_nonce).map_err(|e| e.to_string())?;
    positions.sort_unstable();
    positions.dedup();
    Ok(Replay { cc_trace: deep.trace, cc_cons: deep.constraints, z, positions, num_quotients: nq })
}

struct Rows<B: BaseF, E: FieldElement<BaseField = B>> {
    main: Vec<Vec<B>>,
    aux: Option<Vec<Vec<E>>>,
    cons: Vec<Vec<E>>,
}

fn rows_of<B: BaseF, H: HF<B>, E: FieldElement<BaseField = B>>(p: &Proof, nq: usize) -> Rows<B, E> {
    let n = p.num_unique_queries as usize;
    let lde = p.lde_domain_size();
    let ti = p.trace_info();
    let (_, t) = p.trace_queries[0].clone().parse::<B, H, MerkleTree<H>>(lde, n, ti.main_trace_width()).expect("honest main queries parse");
    let main = t.rows().map(|r| r.to_vec()).collect();
    let aux = if ti.is_multi_segment() {
        let (_, t) = p.trace_queries[1].clone().parse::<E, H, MerkleTree<H>>(lde, n, ti.aux_segment_width()).expect("honest aux queries parse");
        Some(t.rows().map(|r| r.to_vec()).collect())
    } else {
        None
    };
    let (_, t) = p.constraint_queries.clone().parse::<E, H, MerkleTree<H>>(lde, n, nq).expect("honest constraint queries parse");
    Rows { main, aux, cons: t.rows().map(|r| r.to_vec()).collect() }
}

/// the DEEP evaluation of one queried row, from the documented formula
fn deep_at<B: BaseF, E: FieldElement<BaseField = B>>(r: &Replay<E>, ood: &(Vec<E>, Vec<E>, Vec<E>, Vec<E>), g: B, x: B, main: &[B], aux: Option<&[E]>, cons: &[E]) -> E {
    let (tc, tn, qc, qn) = ood;
    let x = E::from(x);
    let (z, zg) = (r.z, r.z * E::from(g));
    let mut n1 = E::ZERO;
    let mut n2 = E::ZERO;
    let mut k = 0;
    for v in main {
        let v = E::from(*v);
        n1 += (v - tc[k]) * r.cc_trace[k];
        n2 += (v - tn[k]) * r.cc_trace[k];
        k += 1;
    }
    if let Some(a) = aux {
        for v in a {
            n1 += (*v - tc[k]) * r.cc_trace[k];
            n2 += (*v - tn[k]) * r.cc_trace[k];
            k += 1;
        }
    }
    for (j, v) in cons.iter().enumerate() {
        n1 += (*v - qc[j]) * r.cc_cons[j];
        n2 += (*v - qn[j]) * r.cc_cons[j];
    }
    (n1 * (x - zg) + n2 * (x - z)) / ((x - z) * (x - zg))
}

#[derive(Clone, Debug)]
enum Move {
    /// main column i of row r: +1, constraint column j compensated
    Main { r: usize, i: usize, j: usize, comp: bool },
    Aux { r: usize, i: usize, j: usize, comp: bool },
    Cons { r: usize, j: usize, j2: usize, comp: bool },
    /// two main-trace columns against each other (only when the coefficients live in the base field)
    MainPair { r: usize, i: usize, i2: usize },
    /// two auxiliary columns against each other
    AuxPair { r: usize, i: usize, i2: usize },
    /// remainder + c * prod (x - x_i)
    Remainder { c: u64 },
    /// a shorter remainder: the interpolant of the committed one through the queried last-layer points
    RemainderShorter,
}

struct Out {
    states: u64,
    transitions: u64,
    validated: u64,
    forged_equal_deep: u64,
    rejected_by: std::collections::BTreeMap<String, u64>,
    viol: Vec<Violation>,
}

fn with_queries<B: BaseF, H: HF<B>, E: FieldElement<BaseField = B>>(p: &Proof, rows: &Rows<B, E>, nq: usize) -> Proof {
    let n = p.num_unique_queries as usize;
    let lde = p.lde_domain_size();
    let ti = p.trace_info();
    let mut q = p.clone();
    let (mp, _) = p.trace_queries[0].clone().parse::<B, H, MerkleTree<H>>(lde, n, ti.main_trace_width()).unwrap();
    q.trace_queries[0] = Queries::new::<H, B, MerkleTree<H>>(mp, rows.main.clone());
    if let Some(a) = &rows.aux {
        let (mp, _) = p.trace_queries[1].clone().parse::<E, H, MerkleTree<H>>(lde, n, ti.aux_segment_width()).unwrap();
        q.trace_queries[1] = Queries::new::<H, E, MerkleTree<H>>(mp, a.clone());
    }
    let (mp, _) = p.constraint_queries.clone().parse::<E, H, MerkleTree<H>>(lde, n, nq).unwrap();
    q.constraint_queries = Queries::new::<H, E, MerkleTree<H>>(mp, rows.cons.clone());
    q
}

fn run_e<B: BaseF, H: HF<B>, E: FieldElement<BaseField = B>>(shape: &Arc<Shape>, cfg: &Cfg, only: Option<&str>) -> Out {
    let mut o = Out { states: 0, transitions: 0, validated: 0, forged_equal_deep: 0, rejected_by: Default::default(), viol: vec![] };
    let h = honest::<B>(shape);
    let proof = match prove_trace::<B, H>(shape, h.main.clone(), &h.inputs, cfg, None) {
        Ok(p) => p,
        Err(f) => mck::report::machinery(&format!("C03: honest proof failed: {}", f.describe())),
    };
    let own = AcceptableOptions::OptionSet(vec![cfg.options()]);
    if verify_proof::<B, H>(proof.clone(), &h.inputs, &own).is_err() {
        mck::report::machinery("C03: honest proof does not verify");
    }
    let rp = replay::<B, H, E>(&proof, &h.inputs).unwrap_or_else(|e| mck::report::machinery(&format!("C03: transcript replay failed: {e}")));
    if rp.positions.len() != proof.num_unique_queries as usize {
        mck::report::machinery("C03: the replayed query positions are not the ones the prover opened (count differs)");
    }
    let air = GenAir::<B>::new(proof.trace_info().clone(), h.inputs.clone(), proof.options().clone());
    let g = air.trace_domain_generator();
    let lde = air.lde_domain_size();
    let lde_g = air.lde_domain_generator();
    let offset = air.domain_offset();
    let nq = rp.num_quotients;
    let (tf, qf) = proof.ood_frame.clone().parse::<E>(air.trace_info().main_trace_width(), air.trace_info().aux_segment_width(), nq).unwrap();
    let ood = (tf.current_row().to_vec(), tf.next_row().to_vec(), qf.current_row().to_vec(), qf.next_row().to_vec());
    let rows = rows_of::<B, H, E>(&proof, nq);
    let xs: Vec<B> = rp.positions.iter().map(|p| offset * lde_g.exp((*p as u64).into())).collect();
    let honest_deep: Vec<E> = (0..xs.len()).map(|r| deep_at(&rp, &ood, g, xs[r], &rows.main[r], rows.aux.as_ref().map(|a| &a[r][..]), &rows.cons[r])).collect();
    // --- conformance of the replayer: its DEEP evaluations are the first FRI layer's queried values
    let fri_opts = air.options().to_fri_options();
    let folding = fri_opts.folding_factor();
    let layers = fri_opts.num_fri_layers(lde);
    if layers >= 1 {
        let (lq, _) = proof.fri_proof.clone().parse_layers::<E, H, MerkleTree<H>>(lde, folding).unwrap();
        let row_len = lde / folding;
        let mut folded: Vec<usize> = vec![];
        for p in &rp.positions {
            if !folded.contains(&(p % row_len)) {
                folded.push(p % row_len);
            }
        }
        for (r, p) in rp.positions.iter().enumerate() {
            let row = folded.iter().position(|f| *f == p % row_len).unwrap();
            let got = lq[0][row * folding + p / row_len];
            if got != honest_deep[r] {
                mck::report::machinery(&format!("C03: replayer not bound to the code: DEEP evaluation at position {p} differs from the first FRI layer's queried value ({} / {})", shape.name, cfg.short()));
            }
            o.validated += 1;
        }
    } else {
        // no FRI layer: the DEEP evaluations must be the remainder's values at the positions
        let rem: Vec<E> = proof.fri_proof.parse_remainder().unwrap();
        for (r, x) in xs.iter().enumerate() {
            let xe = E::from(*x);
            let v = rem.iter().fold(E::ZERO, |a, c| a * xe + *c);
            if v != honest_deep[r] {
                mck::report::machinery("C03: replayer not bound to the code: DEEP evaluation differs from the remainder's value");
            }
            o.validated += 1;
        }
    }
    // --- moves ---------------------------------------------------------------------------------------
    let mut moves: Vec<Move> = vec![];
    let nrows = rows.main.len();
    let w = rows.main[0].len();
    for r in 0..nrows {
        for i in 0..w {
            for j in 0..nq.min(2) {
                moves.push(Move::Main { r, i, j, comp: true });
            }
            moves.push(Move::Main { r, i, j: 0, comp: false });
        }
        if let Some(a) = &rows.aux {
            for i in 0..a[0].len() {
                moves.push(Move::Aux { r, i, j: 0, comp: true });
                moves.push(Move::Aux { r, i, j: 0, comp: false });
                for i2 in 0..a[0].len() {
                    if i != i2 {
                        moves.push(Move::AuxPair { r, i, i2 });
                    }
                }
            }
        }
        // two columns of the same (main) opening: the substitute stays inside one commitment, so a
        // row hash that does not bind some of its columns (seed C03b) is visible here
        if E::EXTENSION_DEGREE == 1 {
            for i in 0..w {
                for i2 in [0, (i + 1) % w, w - 1] {
                    if i != i2 {
                        moves.push(Move::MainPair { r, i, i2 });
                    }
                }
            }
        }
        for j in 0..nq {
            for j2 in 0..nq {
                if j != j2 {
                    moves.push(Move::Cons { r, j, j2, comp: true });
                }
            }
            moves.push(Move::Cons { r, j, j2: 0, comp: false });
        }
    }
    for c in [1u64, 2, 0xFFFF_FFFF] {
        moves.push(Move::Remainder { c });
    }
    moves.push(Move::RemainderShorter);
    for m in moves {
        let desc = format!("{m:?}");
        if let Some(want) = only {
            if want != desc {
                continue;
            }
        }
        let mut rw = Rows { main: rows.main.clone(), aux: rows.aux.clone(), cons: rows.cons.clone() };
        let mut forged: Option<Proof> = None;
        let mut compensated = false;
        match m {
            Move::Main { r, i, j, comp } => {
                rw.main[r][i] += B::ONE;
                if comp {
                    rw.cons[r][j] -= rp.cc_trace[i] / rp.cc_cons[j];
                    compensated = true;
                }
            },
            Move::Aux { r, i, j, comp } => {
                rw.aux.as_mut().unwrap()[r][i] += E::ONE;
                if comp {
                    rw.cons[r][j] -= rp.cc_trace[w + i] / rp.cc_cons[j];
                    compensated = true;
                }
            },
            Move::Cons { r, j, j2, comp } => {
                rw.cons[r][j] += E::ONE;
                if comp {
                    rw.cons[r][j2] -= rp.cc_cons[j] / rp.cc_cons[j2];
                    compensated = true;
                }
            },
            Move::MainPair { r, i, i2 } => {
                // coefficients and values are base-field elements here (E = B)
                rw.main[r][i] += B::ONE;
                let d = rp.cc_trace[i] / rp.cc_trace[i2];
                rw.main[r][i2] -= d.base_element(0);
                compensated = true;
            },
            Move::AuxPair { r, i, i2 } => {
                let a = rw.aux.as_mut().unwrap();
                a[r][i] += E::ONE;
                a[r][i2] -= rp.cc_trace[w + i] / rp.cc_trace[w + i2];
                compensated = true;
            },
            Move::RemainderShorter => {
                let last_domain = lde / folding.pow(layers as u32);
                let g_last = B::get_root_of_unity(last_domain.trailing_zeros());
                let mut pts: Vec<usize> = rp.positions.iter().map(|p| p % last_domain).collect();
                pts.sort();
                pts.dedup();
                let rem: Vec<E> = proof.fri_proof.parse_remainder().unwrap();
                let len = pts.len().next_power_of_two();
                if len >= rem.len() {
                    continue; // no shorter power-of-two length holds the queried points
                }
                let xs_last: Vec<E> = pts.iter().map(|p| E::from(offset * g_last.exp((*p as u64).into()))).collect();
                let lo_rem: Vec<E> = rem.iter().rev().copied().collect();
                let eval = |poly: &[E], x: E| poly.iter().rev().fold(E::ZERO, |acc, c| acc * x + *c);
                // Lagrange interpolant through (x_i, rem(x_i)), low-to-high, padded to `len`
                let mut lo = vec![E::ZERO; len];
                for j in 0..xs_last.len() {
                    let mut basis: Vec<E> = vec![E::ONE];
                    let mut den = E::ONE;
                    for (m, x) in xs_last.iter().enumerate() {
                        if m == j {
                            continue;
                        }
                        let mut next = vec![E::ZERO; basis.len() + 1];
                        for (k, a) in basis.iter().enumerate() {
                            next[k + 1] += *a;
                            next[k] -= *a * *x;
                        }
                        basis = next;
                        den *= xs_last[j] - *x;
                    }
                    let scale = eval(&lo_rem, xs_last[j]) / den;
                    for (k, a) in basis.iter().enumerate() {
                        lo[k] += *a * scale;
                    }
                }
                if xs_last.iter().any(|x| eval(&lo, *x) != eval(&lo_rem, *x)) {
                    mck::report::machinery("C03: mis-built shorter remainder");
                }
                if (0..lo_rem.len()).all(|k| lo_rem[k] == lo.get(k).copied().unwrap_or(E::ZERO)) {
                    continue; // the committed remainder already has this degree: not a substitution
                }
                let hi: Vec<E> = lo.into_iter().rev().collect();
                let bytes = proof.to_bytes();
                let (mut tree, _) = r8::parse(&bytes, layout(cfg)).unwrap_or_else(|e| mck::report::machinery(&format!("C03: R8 parse: {}", e.0)));
                let path = r8::find(&tree, "fri_proof.remainder.coefficients").unwrap();
                if let r8::Node::Raw { bytes: b, .. } = r8::get_mut(&mut tree, &path) {
                    use winter_utils::Serializable;
                    let mut nb = vec![];
                    for e in &hi {
                        nb.extend(e.to_bytes());
                    }
                    *b = nb;
                }
                match Proof::from_bytes(&r8::to_bytes(&tree)) {
                    Ok(p) => forged = Some(p),
                    Err(_) => {
                        // the proof format refuses this remainder length: rejected at decode time
                        o.states += 1;
                        o.transitions += 1;
                        *o.rejected_by.entry("shorter remainder does not decode".into()).or_default() += 1;
                        continue;
                    },
                }
            },
            Move::Remainder { c } => {
                // last-layer points of the (folded) query positions
                let last_domain = lde / folding.pow(layers as u32);
                let g_last = B::get_root_of_unity(last_domain.trailing_zeros());
                let mut pts: Vec<usize> = rp.positions.iter().map(|p| p % last_domain).collect();
                pts.sort();
                pts.dedup();
                let rem: Vec<E> = proof.fri_proof.parse_remainder().unwrap();
                if pts.len() >= rem.len() {
                    continue; // no free coefficient: the move does not exist for this transcript
                }
                // low-to-high coefficients of prod (x - x_i)
                let mut prod: Vec<E> = vec![E::ONE];
                for p in &pts {
                    let x = E::from(offset * g_last.exp((*p as u64).into()));
                    let mut next = vec![E::ZERO; prod.len() + 1];
                    for (k, a) in prod.iter().enumerate() {
                        next[k + 1] += *a;
                        next[k] -= *a * x;
                    }
                    prod = next;
                }
                // the remainder is stored highest-degree-first
                let mut lo: Vec<E> = rem.iter().rev().copied().collect();
                for (k, a) in prod.iter().enumerate() {
                    lo[k] += *a * E::from(lit::<B>(c));
                }
                let hi: Vec<E> = lo.into_iter().rev().collect();
                // put it into the proof through the R8 tree of the proof bytes
                let bytes = proof.to_bytes();
                let (mut tree, _) = r8::parse(&bytes, layout(cfg)).unwrap_or_else(|e| mck::report::machinery(&format!("C03: R8 parse: {}", e.0)));
                let path = r8::find(&tree, "fri_proof.remainder.coefficients").unwrap();
                if let r8::Node::Raw { bytes: b, .. } = r8::get_mut(&mut tree, &path) {
                    use winter_utils::Serializable;
                    let mut nb = vec![];
                    for e in &hi {
                        nb.extend(e.to_bytes());
                    }
                    if nb.len() != b.len() {
                        mck::report::machinery("C03: forged remainder has another size");
                    }
                    *b = nb;
                }
                forged = Some(Proof::from_bytes(&r8::to_bytes(&tree)).expect("forged remainder decodes"));
            },
        }
        let forged = forged.unwrap_or_else(|| with_queries::<B, H, E>(&proof, &rw, nq));
        o.states += 1;
        o.transitions += 1;
        if compensated {
            // only a commitment check can notice: the DEEP evaluations are unchanged
            let same = (0..xs.len()).all(|r| deep_at(&rp, &ood, g, xs[r], &rw.main[r], rw.aux.as_ref().map(|a| &a[r][..]), &rw.cons[r]) == honest_deep[r]);
            if !same {
                mck::report::machinery(&format!("C03: mis-built move {desc}: the compensated rows change the DEEP evaluation"));
            }
            o.forged_equal_deep += 1;
        }
        let key = format!("{}@{}/{desc}", shape.name, cfg.short());
        let replay = json!({"shape": shape.name, "seed": shape.seed, "cfg": cfg.to_json(), "move": desc});
        match verify_proof::<B, H>(forged, &h.inputs, &own) {
            Err(Fail::Err(e)) => *o.rejected_by.entry(e.chars().take(70).collect()).or_default() += 1,
            Err(Fail::Panic(p)) => o.viol.push(Violation { class: format!("verify_panic:{}", p.location), key, detail: format!("verifier panicked at {} ({}) on move {desc}", p.location, p.message), replay }),
            Ok(()) => {
                let kind = desc.split(|c: char| c == ' ' || c == '{').next().unwrap_or("").to_string();
                o.viol.push(Violation {
                    class: format!("accepted_substitution:{kind}{}", if compensated { ":compensated" } else { "" }),
                    key,
                    detail: format!("shape {} under {}: the proof with move {desc} (data revealed after the challenges differs from the committed data{}) was ACCEPTED", shape.name, cfg.short(), if compensated { ", compensated so that every non-commitment check passes" } else { "" }),
                    replay,
                });
            },
        }
    }
    o
}

fn run_g<B: BaseF, H: HF<B>>(shape: &Arc<Shape>, cfg: &Cfg, only: Option<&str>) -> Out {
    match cfg.options().field_extension() {
        FieldExtension::None => run_e::<B, H, B>(shape, cfg, only),
        FieldExtension::Quadratic => run_e::<B, H, QuadExtension<B>>(shape, cfg, only),
        FieldExtension::Cubic => run_e::<B, H, CubeExtension<B>>(shape, cfg, only),
    }
}

fn jobs(thorough: bool) -> Vec<(Arc<Shape>, Cfg)> {
    let mk = |shape: &str, f: Fid, h: Hid, q: usize, b: usize, ext: u8, fold: usize, rem: usize, parts: (usize, usize)| {
        let mut c = Cfg::base(f, h);
        c.queries = q;
        c.blowup = b;
        c.ext = ext;
        c.folding = fold;
        c.rem = rem;
        c.parts = parts.0;
        c.rate = parts.1;
        (shape_by_name(shape), c)
    };
    // remainder degrees are chosen >= the number of distinct last-layer positions so that the
    // colluding remainder exists
    let mut v = vec![
        mk("pow2+sum1", Fid::F64, Hid::Blake3_256, 3, 8, 1, 2, 7, (1, 1)),
        mk("aux2x2/w3", Fid::F64, Hid::Blake3_256, 4, 8, 2, 4, 15, (1, 1)),
        mk("deg8+mulper", Fid::F128, Hid::Sha3_256, 3, 8, 1, 4, 7, (2, 2)),
        mk("long/n64", Fid::F62, Hid::Rp62_248, 4, 8, 2, 8, 7, (1, 1)),
        // partitioned row hashes with every Rescue hasher and odd / even partition counts
        mk("wide9", Fid::F64, Hid::Rp64_256, 3, 8, 1, 4, 7, (3, 2)),
        mk("wide9", Fid::F64, Hid::RpJive64_256, 3, 8, 1, 4, 7, (5, 1)),
        mk("wide17", Fid::F62, Hid::Rp62_248, 3, 8, 1, 4, 7, (3, 4)),
        mk("wide9", Fid::F64, Hid::Blake3_256, 3, 8, 1, 4, 7, (3, 2)),
        mk("aux2x2/w3", Fid::F64, Hid::Rp64_256, 3, 8, 2, 4, 7, (3, 1)),
    ];
    {
        v.extend([
            mk("mixed-assertions", Fid::F64, Hid::Rp64_256, 6, 8, 3, 2, 15, (1, 1)),
            mk("aux2x2+reset+exempt2", Fid::F128, Hid::Blake3_192, 5, 16, 2, 4, 31, (1, 1)),
            mk("deg5", Fid::F64, Hid::RpJive64_256, 8, 8, 1, 16, 15, (1, 1)),
            mk("wide9", Fid::F64, Hid::Blake3_256, 6, 4, 2, 4, 7, (4, 4)),
            mk("long/n256", Fid::F64, Hid::Blake3_256, 12, 8, 1, 4, 31, (1, 1)),
            mk("exempt2/n8/deg2", Fid::F62, Hid::Blake3_256, 2, 8, 3, 2, 3, (1, 1)),
            mk("pow2+sum1", Fid::F64, Hid::Blake3_256, 2, 64, 1, 2, 255, (1, 1)),
            mk("seq/n32/f0/s2", Fid::F128, Hid::Blake3_256, 7, 8, 2, 8, 15, (1, 1)),
        ]);
    }
    {
        // the same transcripts over further traces (other values, other query positions): one in the
        // quick tier, eight in the thorough tier
        let base = v.clone();
        let seeds: &[u64] = if thorough { &[7, 8, 9, 10, 11, 12, 13, 14] } else { &[7] };
        for &seed in seeds {
            v.extend(base.iter().map(|(s, c)| (Arc::new(Shape { seed, ..(**s).clone() }), c.clone())));
        }
    }
    v
}

pub fn run(args: &Args) {
    let mut report = Report::new(args, "model_checking");
    let thorough = args.tier == mck::Tier::Thorough;
    if let Some(v) = args.replay_value() {
        let base = shape_by_name(v["shape"].as_str().unwrap_or(""));
        let shape = Arc::new(Shape { seed: v["seed"].as_u64().unwrap_or(1), ..(*base).clone() });
        let cfg = Cfg::from_json(&v["cfg"]);
        let mv = v["move"].as_str().unwrap_or("").to_string();
        let o = dispatch!(cfg, run_g, &shape, &cfg, Some(&mv));
        report.part("replay", o.states, o.states, json!({}));
        report.violations(o.viol);
        report.finish(args)
    }
    let js = jobs(thorough);
    for (s, c) in &js {
        if let Err(e) = c.valid_for(s) {
            mck::report::machinery(&format!("C03: job {} / {} is not a valid lattice point: {e}", s.name, c.short()));
        }
    }
    let outs = mck::par_map(js.len(), |i| dispatch!(js[i].1, run_g, &js[i].0, &js[i].1, None));
    let (mut st, mut tr, mut val, mut eq) = (0, 0, 0, 0);
    let mut by: std::collections::BTreeMap<String, u64> = Default::default();
    for o in outs {
        st += o.states;
        tr += o.transitions;
        val += o.validated;
        eq += o.forged_equal_deep;
        for (k, n) in o.rejected_by {
            *by.entry(k).or_default() += n;
        }
        report.violations(o.viol);
    }
    report.part(
        "adversary moves on honest transcripts: compensated and naive substitution of every queried main / auxiliary / constraint value, colluding remainder",
        st,
        eq,
        json!({"transcripts": js.len(), "forged_transcripts": st, "compensated_moves_whose_DEEP_evaluations_equal_the_honest_ones": eq, "replayer_DEEP_values_validated_against_FRI_layer_0": val, "rejections_by_error": by}),
    );
    report.states = Some(st);
    report.transitions = Some(tr);
    report.traces_validated = Some(val);
    report.sample(json!({"move": "Main { r: 0, i: 1, j: 0, comp: true }", "meaning": "queried main value +1 in row 0 column 1; constraint column 0 of the same row -cc_trace[1]/cc_constraints[0]", "oracle": "verify = Err (TraceQueryDoesNotMatchCommitment / ConstraintQueryDoesNotMatchCommitment)"}));
    report.exhaustive = true;
    report.rule = "states = forged transcripts (one per move); non-trivial = compensated moves, for which the harness itself proves that every non-commitment check still passes (equal DEEP evaluations)".into();
    report.bounds = json!({"transcripts": js.len(), "moves": "every queried row x every main column x up to 2 constraint columns; every auxiliary column; every ordered pair of constraint columns; naive variants; 3 colluding remainders", "depth": 1});
    report.assumptions = vec![
        "FRI-layer substitutions (sibling values propagated through later layers) are explored at the FRI level by C09 moves e/k; the STARK verifier runs the same FriVerifier".into(),
        "rejection is up to hash collisions".into(),
    ];
    report.finish(args)
}

