//! C27 — `ReadAdapter` over a stream that may split its content into arbitrary read chunks must
//! behave like `SliceReader` over the same bytes, for every operation sequence.
//!
//! Engine E1: every underlying `Read::read` call is a choice point over the number of bytes it
//! returns (short reads are legal for `Read`); the default answer is "as much as fits".

use std::cell::RefCell;
use std::io::Read;

use mck::e1::{self, Ctx};
use mck::{json, Args, Report, Value, Violation};
use winter_utils::{ByteReader, DeserializationError, ReadAdapter, SliceReader};

// OPERATION ALPHABET (simplest first)
// ================================================================================================

#[derive(Clone, Copy, Debug, PartialEq, Eq)]
pub enum Op {
    ReadU8,
    PeekU8,
    HasMore,
    ReadBool,
    ReadU16,
    ReadU32,
    ReadU64,
    ReadU128,
    ReadArray3,
    ReadSlice(usize),
    ReadUsize,
    CheckEor(usize),
    ReadVec(usize),
    ReadArrayN(usize), // one of the const-generic instantiations below
}

impl Op {
    fn name(&self) -> String {
        match self {
            Op::ReadSlice(n) => format!("read_slice({n})"),
            Op::CheckEor(n) => format!("check_eor({n})"),
            Op::ReadVec(n) => format!("read_vec({n})"),
            Op::ReadArrayN(n) => format!("read_array<{n}>"),
            o => format!("{o:?}"),
        }
    }
    fn parse(s: &str) -> Op {
        let arg = |p: &str| -> Option<usize> {
            s.strip_prefix(p).and_then(|r| r.trim_end_matches([')', '>']).parse().ok())
        };
        if let Some(n) = arg("read_slice(") {
            return Op::ReadSlice(n);
        }
        if let Some(n) = arg("check_eor(") {
            return Op::CheckEor(n);
        }
        if let Some(n) = arg("read_vec(") {
            return Op::ReadVec(n);
        }
        if let Some(n) = arg("read_array<") {
            return Op::ReadArrayN(n);
        }
        match s {
            "ReadU8" => Op::ReadU8,
            "PeekU8" => Op::PeekU8,
            "HasMore" => Op::HasMore,
            "ReadBool" => Op::ReadBool,
            "ReadU16" => Op::ReadU16,
            "ReadU32" => Op::ReadU32,
            "ReadU64" => Op::ReadU64,
            "ReadU128" => Op::ReadU128,
            "ReadArray3" => Op::ReadArray3,
            "ReadUsize" => Op::ReadUsize,
            _ => mck::report::machinery(&format!("unknown op {s}")),
        }
    }
}

/// What one operation let the caller observe.
#[derive(Clone, Debug, PartialEq, Eq)]
pub enum Obs {
    Int(u128),
    Bool(bool),
    Bytes(Vec<u8>),
    Unit,
    Eof,
    Invalid(String),
    OtherErr(String),
}

fn err(e: DeserializationError) -> Obs {
    match e {
        DeserializationError::UnexpectedEOF => Obs::Eof,
        DeserializationError::InvalidValue(s) => Obs::Invalid(s),
        e => Obs::OtherErr(format!("{e:?}")),
    }
}

fn apply<R: ByteReader>(r: &mut R, op: Op) -> Obs {
    fn int<T: Into<u128>>(x: Result<T, DeserializationError>) -> Obs {
        x.map(|v| Obs::Int(v.into())).unwrap_or_else(err)
    }
    fn arr<R: ByteReader, const N: usize>(r: &mut R) -> Obs {
        r.read_array::<N>().map(|a| Obs::Bytes(a.to_vec())).unwrap_or_else(err)
    }
    match op {
        Op::ReadU8 => int(r.read_u8()),
        Op::PeekU8 => int(r.peek_u8()),
        Op::HasMore => Obs::Bool(r.has_more_bytes()),
        Op::ReadBool => r.read_bool().map(Obs::Bool).unwrap_or_else(err),
        Op::ReadU16 => int(r.read_u16()),
        Op::ReadU32 => int(r.read_u32()),
        Op::ReadU64 => int(r.read_u64()),
        Op::ReadU128 => int(r.read_u128()),
        Op::ReadArray3 => arr::<R, 3>(r),
        Op::ReadSlice(n) => r.read_slice(n).map(|s| Obs::Bytes(s.to_vec())).unwrap_or_else(err),
        Op::ReadUsize => r.read_usize().map(|v| Obs::Int(v as u128)).unwrap_or_else(err),
        Op::CheckEor(n) => r.check_eor(n).map(|_| Obs::Unit).unwrap_or_else(err),
        Op::ReadVec(n) => r.read_vec(n).map(Obs::Bytes).unwrap_or_else(err),
        Op::ReadArrayN(n) => match n {
            0 => arr::<R, 0>(r),
            1 => arr::<R, 1>(r),
            5 => arr::<R, 5>(r),
            17 => arr::<R, 17>(r),
            31 => arr::<R, 31>(r),
            32 => arr::<R, 32>(r),
            255 => arr::<R, 255>(r),
            256 => arr::<R, 256>(r),
            257 => arr::<R, 257>(r),
            300 => arr::<R, 300>(r),
            _ => mck::report::machinery("read_array size not instantiated"),
        },
    }
}

// CHUNKED STREAM
// ================================================================================================

#[derive(Clone, Copy, PartialEq, Eq, Debug)]
enum Menu {
    /// every size 1..=max (default: max)
    All,
    /// max, 1, max-1, 2, max/2, 16, 15, 17 (those that are in range and distinct)
    Reduced,
}

struct ChunkedRead<'c> {
    data: &'c [u8],
    pos: usize,
    ctx: &'c RefCell<Ctx>,
    menu: Menu,
    nonempty_reads: usize,
}

impl Read for ChunkedRead<'_> {
    fn read(&mut self, buf: &mut [u8]) -> std::io::Result<usize> {
        let remaining = self.data.len() - self.pos;
        let max = remaining.min(buf.len());
        if max == 0 {
            return Ok(0);
        }
        let k = match self.menu {
            Menu::All => max - self.ctx.borrow_mut().choose(max),
            Menu::Reduced => {
                let mut sizes = vec![max];
                for s in [1, max - 1, 2, max / 2, 16, 15, 17] {
                    if s >= 1 && s <= max && !sizes.contains(&s) {
                        sizes.push(s);
                    }
                }
                let c = self.ctx.borrow_mut().choose(sizes.len());
                sizes[c]
            },
        };
        buf[..k].copy_from_slice(&self.data[self.pos..self.pos + k]);
        self.pos += k;
        self.nonempty_reads += 1;
        Ok(k)
    }
}

// ONE EXECUTION
// ================================================================================================

fn content(pattern: u8, len: usize) -> Vec<u8> {
    match pattern {
        // every byte reveals its offset; first byte 1 => read_usize takes the 1-byte form
        0 => (0..len).map(|i| (i + 1) as u8).collect(),
        // first byte 0 => read_usize takes the 9-byte form; bytes 0/1 make read_bool succeed
        1 => (0..len).map(|i| i as u8).collect(),
        // first bytes 2/4/8…: multi-byte read_usize forms
        _ => (0..len).map(|i| ((i as u8) + 1) << 1).collect(),
    }
}

#[derive(Debug)]
struct Failure {
    class: String,
    step: usize,
    detail: String,
}

struct ExecResult {
    failure: Option<Failure>,
    reads: usize,
    ops_run: usize,
    obs: Vec<(Obs, Obs)>,
}

fn classify(op: Op, adapter: &Result<Obs, mck::Panicked>, reference: &Obs) -> Option<String> {
    let opn = match op {
        Op::ReadSlice(_) => "read_slice".to_string(),
        Op::CheckEor(_) => "check_eor".to_string(),
        Op::ReadVec(_) => "read_vec".to_string(),
        Op::ReadArrayN(_) | Op::ReadArray3 => "read_array".to_string(),
        o => format!("{o:?}"),
    };
    match adapter {
        Err(p) => Some(format!("panic:{}:{}", opn, p.location)),
        Ok(a) if a == reference => None,
        Ok(a) => {
            if let Op::CheckEor(_) = op {
                // the adapter may be optimistic, never pessimistic
                return match (a, reference) {
                    (Obs::Unit, Obs::Eof) => None,
                    _ => Some("check_eor_reports_missing_data_that_is_available".into()),
                };
            }
            Some(match (a, reference) {
                (Obs::Eof, _) => format!("false_eof:{opn}"),
                (_, Obs::Eof) => format!("missed_eof:{opn}"),
                _ => format!("wrong_value:{opn}"),
            })
        },
    }
}

fn execute(data: &[u8], ops: &[Op], ctx: &RefCell<Ctx>, menu: Menu, keep_obs: bool) -> ExecResult {
    let mut stream = ChunkedRead { data, pos: 0, ctx, menu, nonempty_reads: 0 };
    let mut reference = SliceReader::new(data);
    let mut res = ExecResult { failure: None, reads: 0, ops_run: 0, obs: vec![] };
    {
        let mut adapter = ReadAdapter::new(&mut stream);
        for (step, &op) in ops.iter().enumerate() {
            let expect = apply(&mut reference, op);
            let got = mck::catch(|| apply(&mut adapter, op));
            res.ops_run += 1;
            if keep_obs {
                res.obs.push((got.clone().unwrap_or(Obs::OtherErr("PANIC".into())), expect.clone()));
            }
            if let Some(class) = classify(op, &got, &expect) {
                res.failure = Some(Failure {
                    class,
                    step,
                    detail: format!("step {step} {}: adapter {:?}, slice reader {:?}", op.name(), got, expect),
                });
                break; // after a divergence (or a panic) the two readers are no longer comparable
            }
        }
    }
    res.reads = stream.nonempty_reads;
    res
}

// EXPLORATION
// ================================================================================================

fn small_alphabet(len: usize) -> Vec<Op> {
    vec![
        Op::ReadU8,
        Op::PeekU8,
        Op::HasMore,
        Op::ReadBool,
        Op::ReadU16,
        Op::ReadU32,
        Op::ReadU64,
        Op::ReadU128,
        Op::ReadArray3,
        Op::ReadSlice(0),
        Op::ReadSlice(1),
        Op::ReadSlice(2),
        Op::ReadSlice(5),
        Op::ReadSlice(9),
        Op::ReadSlice(17),
        Op::ReadUsize,
        Op::CheckEor(1),
        Op::CheckEor(4),
        Op::CheckEor(len + 1),
        Op::ReadArrayN(0),
    ]
}

fn large_alphabet() -> Vec<Op> {
    let mut v = vec![Op::ReadU8, Op::PeekU8, Op::HasMore, Op::ReadU64, Op::ReadU128, Op::ReadUsize];
    for n in [1, 15, 16, 17, 240, 255, 256, 257, 496, 600] {
        v.push(Op::ReadSlice(n));
    }
    for n in [17, 32, 255, 256, 257, 300] {
        v.push(Op::ReadArrayN(n));
    }
    v.push(Op::CheckEor(1));
    v.push(Op::CheckEor(300));
    v
}

#[derive(Default)]
struct Acc {
    executions: u64,
    nontrivial: u64,
    ops: u64,
    max_reads: usize,
    failures: Vec<Violation>,
    failure_count: u64,
    unrecorded: std::collections::BTreeMap<String, u64>,
    sample: Option<Value>,
}

fn seq_of(mut idx: usize, alphabet: &[Op], depth: usize) -> Vec<Op> {
    // lexicographic, first operation most significant
    let mut v = vec![alphabet[0]; depth];
    for d in (0..depth).rev() {
        v[d] = alphabet[idx % alphabet.len()];
        idx /= alphabet.len();
    }
    v
}

#[allow(clippy::too_many_arguments)]
fn explore_sequences(
    regime: &str,
    pattern: u8,
    len: usize,
    alphabet: &[Op],
    depth: usize,
    menu: Menu,
    bound: Option<usize>,
    profile: &str,
) -> Acc {
    let data = content(pattern, len);
    let nseq = alphabet.len().pow(depth as u32);
    let accs = mck::par_map(nseq, |si| {
        let ops = seq_of(si, alphabet, depth);
        let mut acc = Acc::default();
        e1::explore(&[], bound, |ctx_in| {
            // hand the context to the stream through a RefCell for the duration of the execution
            let cell = RefCell::new(Ctx::new(vec![]));
            std::mem::swap(&mut *cell.borrow_mut(), ctx_in);
            let r = execute(&data, &ops, &cell, menu, false);
            std::mem::swap(&mut *cell.borrow_mut(), ctx_in);
            acc.executions += 1;
            acc.ops += r.ops_run as u64;
            acc.max_reads = acc.max_reads.max(r.reads);
            if r.reads >= 2 {
                acc.nontrivial += 1;
            }
            if acc.sample.is_none() && r.reads >= 2 && si % 97 == 5 {
                acc.sample = Some(json!({"regime": regime, "pattern": pattern, "len": len,
                    "ops": ops.iter().map(|o| o.name()).collect::<Vec<_>>(), "chunk_choices": ctx_in.choices()}));
            }
            if let Some(f) = r.failure {
                acc.failure_count += 1;
                if acc.failures.iter().any(|v| v.class == f.class) {
                    *acc.unrecorded.entry(f.class).or_insert(0) += 1;
                } else {
                    let opnames: Vec<String> = ops.iter().map(|o| o.name()).collect();
                    acc.failures.push(Violation {
                        class: f.class,
                        key: format!("{regime}/p{pattern}/L{len}/{}/{:?}", opnames.join(","), ctx_in.choices()),
                        detail: format!("[{profile}] {}", f.detail),
                        replay: json!({"regime": regime, "pattern": pattern, "len": len, "ops": opnames,
                            "choices": ctx_in.choices(), "step": f.step}),
                    });
                }
            }
        });
        acc
    });
    let mut total = Acc::default();
    for a in accs {
        total.executions += a.executions;
        total.nontrivial += a.nontrivial;
        total.ops += a.ops;
        total.max_reads = total.max_reads.max(a.max_reads);
        total.failure_count += a.failure_count;
        total.failures.extend(a.failures);
        for (c, n) in a.unrecorded {
            *total.unrecorded.entry(c).or_insert(0) += n;
        }
        if total.sample.is_none() {
            total.sample = a.sample;
        }
    }
    total
}

fn replay(args: &Args, v: &Value) -> ! {
    let pattern = v["pattern"].as_u64().unwrap() as u8;
    let len = v["len"].as_u64().unwrap() as usize;
    let ops: Vec<Op> = v["ops"].as_array().unwrap().iter().map(|s| Op::parse(s.as_str().unwrap())).collect();
    let choices: Vec<u32> = v["choices"].as_array().unwrap().iter().map(|c| c.as_u64().unwrap() as u32).collect();
    let menu = if v["regime"].as_str() == Some("large") { Menu::Reduced } else { Menu::All };
    let data = content(pattern, len);
    let mut report = Report::new(args, "model_checking");
    // run it twice: identical observations are required before a failure is believed
    let mut runs = vec![];
    for _ in 0..2 {
        let cell = RefCell::new(Ctx::new(choices.clone()));
        let r = execute(&data, &ops, &cell, menu, true);
        runs.push((format!("{:?}", r.obs), r.failure));
    }
    if runs[0].0 != runs[1].0 {
        mck::report::machinery("replay is not deterministic");
    }
    println!("content pattern {pattern}, {len} bytes; ops {:?}; chunk choices {choices:?}", v["ops"]);
    println!("observations (adapter, slice reader): {}", runs[0].0);
    report.evaluations = 1;
    if let Some(f) = runs.remove(0).1 {
        println!("REPRODUCED: {}", f.detail);
        report.violation(Violation { class: f.class, key: "replay".into(), detail: f.detail, replay: v.clone() });
    } else {
        println!("not reproduced: adapter and slice reader agree on this history");
    }
    report.finish(args)
}

pub fn run(args: &Args) {
    if let Some(v) = args.replay_value() {
        replay(args, &v);
    }
    let profile = if cfg!(debug_assertions) { "debug-assertions" } else { "release" };
    let mut report = Report::new(args, "model_checking");
    let thorough = args.tier == mck::Tier::Thorough;

    // (regime, lengths, depth, chunk menu, deviation bound on chunk choices)
    let mut plans: Vec<(&str, Vec<usize>, usize, Menu, Option<usize>)> = vec![];
    if !thorough {
        plans.push(("small", (0..=8).collect(), 3, Menu::All, None));
        plans.push(("large", vec![255, 256, 257, 300, 511, 512, 513, 600, 1025], 2, Menu::Reduced, Some(2)));
        // three operations are needed to consume the adapter's own storage exactly and then ask for
        // more than its capacity (seed C27b): depth 3 on three lengths, one short read
        plans.push(("large", vec![300, 600, 1025], 3, Menu::Reduced, Some(1)));
    } else {
        plans.push(("small", (0..=10).collect(), 4, Menu::All, None));
        plans.push(("small", vec![11, 12], 4, Menu::All, Some(3)));
        plans.push(("small", (0..=12).collect(), 5, Menu::All, Some(2)));
        plans.push(("large", vec![255, 256, 257, 300, 511, 512, 513, 600, 1025], 3, Menu::Reduced, Some(2)));
    }
    let mut bounds = vec![];
    let mut states = 0u64;
    let mut transitions = 0u64;
    for (regime, lens, depth, menu, bound) in plans {
        let mut execs = 0u64;
        let mut nontrivial = 0u64;
        let mut max_reads = 0;
        let mut fails = 0u64;
        for &len in &lens {
            let alphabet = if regime == "small" { small_alphabet(len) } else { large_alphabet() };
            let patterns: &[u8] = if regime == "small" { &[0, 1, 2] } else { &[0] };
            for &pattern in patterns {
                let acc = explore_sequences(regime, pattern, len, &alphabet, depth, menu, bound, profile);
                execs += acc.executions;
                nontrivial += acc.nontrivial;
                transitions += acc.ops;
                max_reads = max_reads.max(acc.max_reads);
                fails += acc.failure_count;
                report.violations(acc.failures);
                for (c, n) in &acc.unrecorded {
                    report.count_more(c, *n);
                }
                if let Some(s) = acc.sample {
                    report.sample(s);
                }
            }
        }
        states += execs;
        bounds.push(json!({"regime": regime, "content_lengths": lens, "op_depth": depth,
            "chunk_menu": format!("{menu:?}"),
            "chunk_deviation_bound": bound.map(|b| json!(b)).unwrap_or(json!("none: every chunking")),
            "executions": execs, "executions_with_2_or_more_underlying_reads": nontrivial,
            "max_underlying_reads_in_one_execution": max_reads, "failing_executions": fails}));
        report.part(&format!("{regime}/d{depth}/{profile}"), execs, nontrivial, json!({"failing_executions": fails}));
    }
    report.states = Some(states);
    report.transitions = Some(transitions);
    report.traces_validated = Some(states);
    report.exhaustive = true;
    report.bounds = json!(bounds);
    report.rule = "an execution = (content pattern, content length, operation sequence, size returned by every \
        underlying read call); all are distinct by construction; non-trivial = the stream was delivered in \
        at least two chunks, so some operation had to combine or refill buffers"
        .into();
    report.assumptions = vec![
        "contents are three offset-revealing patterns, not arbitrary bytes (the adapter never branches on byte values except in read_usize/read_bool, whose forms the patterns cover)".into(),
        "SliceReader is the stated reference; it is itself checked against an independent codec in C26".into(),
        format!("build profile of this run: {profile}"),
    ];
    report.finish(args)
}
