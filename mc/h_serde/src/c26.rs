use mck::Args;
pub fn run(_args: &Args) {
    mck::report::machinery("C26 not built yet");
}
