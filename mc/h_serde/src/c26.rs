//! C26 — primitive encodings round-trip, use the documented size-value length, and reject
//! malformed input with an error (never a panic or an abort).
//!
//! Exhaustive bands of values + E4 single-fault enumeration of their encodings, judged by the
//! independent codec R3 (`refm::codec`). Everything that decodes untrusted bytes runs in isolated
//! worker subprocesses.

use std::collections::{BTreeMap, BTreeSet};

use mck::e4::{self, ByteFaultOpts, Fault};
use mck::pool::{self, Outcome, PoolCfg};
use mck::{json, Args, Report, Value, Violation};
use refm::codec::{self, RefErr, Ty, Val};
use winter_utils::{ByteReader, ByteWriter, Deserializable, DeserializationError, Serializable, SliceReader};

// IMPLEMENTATION SIDE: concrete Rust types <-> the reference's value model
// ================================================================================================

trait Model: Sized {
    fn ty() -> Ty;
    fn to_val(&self) -> Val;
    fn from_val(v: &Val) -> Self;
}

macro_rules! int_model {
    ($t:ty, $ty:expr) => {
        impl Model for $t {
            fn ty() -> Ty {
                $ty
            }
            fn to_val(&self) -> Val {
                Val::Int(*self as u128)
            }
            fn from_val(v: &Val) -> Self {
                match v {
                    Val::Int(x) => *x as $t,
                    _ => unreachable!(),
                }
            }
        }
    };
}
int_model!(u8, Ty::U8);
int_model!(u16, Ty::U16);
int_model!(u32, Ty::U32);
int_model!(u64, Ty::U64);
int_model!(u128, Ty::U128);
int_model!(usize, Ty::Usize);

impl<T: Model> Model for Option<T> {
    fn ty() -> Ty {
        Ty::Opt(Box::new(T::ty()))
    }
    fn to_val(&self) -> Val {
        Val::Opt(self.as_ref().map(|x| Box::new(x.to_val())))
    }
    fn from_val(v: &Val) -> Self {
        match v {
            Val::Opt(o) => o.as_ref().map(|x| T::from_val(x)),
            _ => unreachable!(),
        }
    }
}

impl<T: Model> Model for Vec<T> {
    fn ty() -> Ty {
        Ty::Vec(Box::new(T::ty()))
    }
    fn to_val(&self) -> Val {
        Val::Seq(self.iter().map(|x| x.to_val()).collect())
    }
    fn from_val(v: &Val) -> Self {
        match v {
            Val::Seq(xs) => xs.iter().map(T::from_val).collect(),
            _ => unreachable!(),
        }
    }
}

impl<T: Model, const N: usize> Model for [T; N] {
    fn ty() -> Ty {
        Ty::Arr(Box::new(T::ty()), N)
    }
    fn to_val(&self) -> Val {
        Val::Seq(self.iter().map(|x| x.to_val()).collect())
    }
    fn from_val(v: &Val) -> Self {
        match v {
            Val::Seq(xs) => {
                let v: Vec<T> = xs.iter().map(T::from_val).collect();
                v.try_into().ok().unwrap()
            },
            _ => unreachable!(),
        }
    }
}

impl<K: Model + Ord, V: Model> Model for BTreeMap<K, V> {
    fn ty() -> Ty {
        Ty::Map(Box::new(K::ty()), Box::new(V::ty()))
    }
    fn to_val(&self) -> Val {
        Val::Map(self.iter().map(|(k, v)| (k.to_val(), v.to_val())).collect())
    }
    fn from_val(v: &Val) -> Self {
        match v {
            Val::Map(m) => m.iter().map(|(k, v)| (K::from_val(k), V::from_val(v))).collect(),
            _ => unreachable!(),
        }
    }
}

impl<T: Model + Ord> Model for BTreeSet<T> {
    fn ty() -> Ty {
        Ty::Set(Box::new(T::ty()))
    }
    fn to_val(&self) -> Val {
        Val::Set(self.iter().map(|x| x.to_val()).collect())
    }
    fn from_val(v: &Val) -> Self {
        match v {
            Val::Set(s) => s.iter().map(T::from_val).collect(),
            _ => unreachable!(),
        }
    }
}

impl Model for () {
    fn ty() -> Ty {
        Ty::Unit
    }
    fn to_val(&self) -> Val {
        Val::Unit
    }
    fn from_val(_: &Val) -> Self {}
}

impl Model for String {
    fn ty() -> Ty {
        Ty::Str
    }
    fn to_val(&self) -> Val {
        Val::Str(self.as_bytes().to_vec())
    }
    fn from_val(v: &Val) -> Self {
        match v {
            Val::Str(b) => String::from_utf8(b.clone()).unwrap(),
            _ => unreachable!(),
        }
    }
}

macro_rules! tuple_model {
    ($($n:tt $t:ident),+) => {
        impl<$($t: Model),+> Model for ($($t,)+) {
            fn ty() -> Ty { Ty::Tuple(vec![$($t::ty()),+]) }
            fn to_val(&self) -> Val { Val::Seq(vec![$(self.$n.to_val()),+]) }
            fn from_val(v: &Val) -> Self {
                match v { Val::Seq(xs) => ($($t::from_val(&xs[$n]),)+), _ => unreachable!() }
            }
        }
    };
}
tuple_model!(0 A);
tuple_model!(0 A, 1 B);
tuple_model!(0 A, 1 B, 2 C);
tuple_model!(0 A, 1 B, 2 C, 3 D);
tuple_model!(0 A, 1 B, 2 C, 3 D, 4 E);
tuple_model!(0 A, 1 B, 2 C, 3 D, 4 E, 5 F);

#[derive(Debug, Clone, PartialEq, Eq)]
enum ImplOut {
    Ok { val: String, consumed: usize },
    Eof,
    Invalid,
    Other,
}

fn decode_as<T: Model + Deserializable>(b: &[u8]) -> ImplOut {
    let mut r = SliceReader::new(b);
    match T::read_from(&mut r) {
        Ok(v) => {
            let mut rest = 0;
            while r.read_u8().is_ok() {
                rest += 1;
            }
            ImplOut::Ok { val: format!("{:?}", v.to_val()), consumed: b.len() - rest }
        },
        Err(DeserializationError::UnexpectedEOF) => ImplOut::Eof,
        Err(DeserializationError::InvalidValue(_)) => ImplOut::Invalid,
        Err(_) => ImplOut::Other,
    }
}

fn encode_as<T: Model + Serializable>(v: &Val) -> (Vec<u8>, usize) {
    let x = T::from_val(v);
    (x.to_bytes(), x.get_size_hint())
}

macro_rules! type_table {
    ($($id:expr => $t:ty),+ $(,)?) => {
        const TYPE_IDS: &[u8] = &[$($id),+];
        fn ty_of(id: u8) -> Ty { match id { $($id => <$t as Model>::ty(),)+ _ => unreachable!() } }
        fn type_name(id: u8) -> &'static str { match id { $($id => stringify!($t),)+ _ => "?" } }
        fn impl_decode(id: u8, b: &[u8]) -> ImplOut { match id { $($id => decode_as::<$t>(b),)+ _ => unreachable!() } }
        fn impl_encode(id: u8, v: &Val) -> (Vec<u8>, usize) { match id { $($id => encode_as::<$t>(v),)+ _ => unreachable!() } }
    };
}

type_table! {
    1 => u8, 2 => u16, 3 => u32, 4 => u64, 5 => u128, 6 => usize,
    7 => Option<u8>, 8 => Option<u16>, 9 => [u8; 3], 10 => [u16; 2],
    11 => Vec<u8>, 12 => Vec<u16>, 13 => Vec<Option<u8>>, 14 => BTreeMap<u8, u16>, 15 => BTreeSet<u8>,
    16 => String, 17 => (u8, u16), 18 => (u8, Vec<u8>, String), 19 => Vec<Vec<u8>>, 20 => Vec<String>,
    21 => (u8, u8, u8, u8, u8, u8), 22 => Option<Vec<u8>>, 23 => (usize,), 24 => (u8, u16, u32, u64),
    25 => (u8, u16, u32, u64, u128), 26 => Vec<usize>, 27 => BTreeMap<u16, Vec<u8>>, 28 => [Option<u8>; 2],
    29 => Vec<u64>, 30 => Vec<u128>, 31 => BTreeSet<u64>, 32 => Vec<(u8, u16)>,
    // element types with an empty encoding
    33 => (), 34 => Vec<()>, 35 => [u8; 0], 36 => Vec<[u8; 0]>, 37 => (Vec<()>, u64), 38 => BTreeSet<()>, 39 => BTreeMap<(), ()>, 40 => Option<()>, 41 => [(); 3],
}

// VALUE ENUMERATION (tiny alphabets, boundary values first)
// ================================================================================================

fn values(ty: &Ty, depth: usize) -> Vec<Val> {
    let ints = |xs: &[u128]| xs.iter().map(|x| Val::Int(*x)).collect::<Vec<_>>();
    let cap = |v: Vec<Val>, n: usize| v.into_iter().take(n).collect::<Vec<_>>();
    match ty {
        Ty::Unit => vec![Val::Unit],
        Ty::U8 => ints(&[0, 1, 2, 127, 128, 255]),
        Ty::U16 => ints(&[0, 1, 255, 256, 65535]),
        Ty::U32 => ints(&[0, 1, 65536, u32::MAX as u128]),
        Ty::U64 => ints(&[0, 1, 1 << 32, 1 << 63, u64::MAX as u128]),
        Ty::U128 => ints(&[0, 1, 1 << 64, 1 << 127, u128::MAX]),
        Ty::Usize => ints(&[0, 1, 127, 128, 16383, 16384, (1 << 56) - 1, 1 << 56, u64::MAX as u128]),
        Ty::Opt(t) => {
            let mut v = vec![Val::Opt(None)];
            v.extend(values(t, depth + 1).into_iter().map(|x| Val::Opt(Some(Box::new(x)))));
            v
        },
        Ty::Arr(t, n) => {
            let base = cap(values(t, depth + 1), 3);
            product(&vec![base; *n]).into_iter().map(Val::Seq).collect()
        },
        Ty::Tuple(ts) => {
            let lim = if ts.len() > 3 { 2 } else { 3 };
            let cols: Vec<Vec<Val>> = ts.iter().map(|t| cap(values(t, depth + 1), lim)).collect();
            product(&cols).into_iter().map(Val::Seq).collect()
        },
        Ty::Vec(t) => {
            let base = cap(values(t, depth + 1), if depth == 0 { 3 } else { 2 });
            let mut out = vec![];
            for len in 0..=(if depth == 0 { 3 } else { 2 }) {
                out.extend(product(&vec![base.clone(); len]).into_iter().map(Val::Seq));
            }
            if depth == 0 {
                // counts that need a 2-byte size value
                out.push(Val::Seq(vec![base[0].clone(); 128]));
                out.push(Val::Seq(vec![base[base.len() - 1].clone(); 130]));
            }
            out
        },
        Ty::Set(t) => {
            let base = cap(values(t, depth + 1), 3);
            (0..(1 << base.len()))
                .map(|m: u32| Val::Set(base.iter().enumerate().filter(|(i, _)| m >> i & 1 == 1).map(|(_, v)| v.clone()).collect()))
                .collect()
        },
        Ty::Map(k, w) => {
            let ks = cap(values(k, depth + 1), 3);
            let ws = cap(values(w, depth + 1), 2);
            let mut out = vec![];
            for m in 0..(1u32 << ks.len()) {
                for wi in 0..ws.len() {
                    out.push(Val::Map(
                        ks.iter()
                            .enumerate()
                            .filter(|(i, _)| m >> i & 1 == 1)
                            .map(|(i, kx)| (kx.clone(), ws[(wi + i) % ws.len()].clone()))
                            .collect(),
                    ));
                }
            }
            out.sort();
            out.dedup();
            out
        },
        Ty::Str => ["", "a", "ab", "é", "a\u{10348}", "\u{7f}\u{80}"]
            .iter()
            .map(|s| Val::Str(s.as_bytes().to_vec()))
            .chain(std::iter::once(Val::Str(vec![b'x'; 128])))
            .take(if depth == 0 { 7 } else { 3 })
            .collect(),
    }
}

fn product(cols: &[Vec<Val>]) -> Vec<Vec<Val>> {
    let mut out = vec![vec![]];
    for c in cols {
        let mut next = vec![];
        for p in &out {
            for x in c {
                let mut q: Vec<Val> = p.clone();
                q.push(x.clone());
                next.push(q);
            }
        }
        out = next;
    }
    out
}

// WORKER
// ================================================================================================

fn out_to_bytes(o: &Result<ImplOut, mck::Panicked>) -> Vec<u8> {
    match o {
        Ok(ImplOut::Ok { val, consumed }) => {
            let mut v = vec![0u8];
            v.extend_from_slice(&(*consumed as u32).to_le_bytes());
            v.extend_from_slice(val.as_bytes());
            v
        },
        Ok(ImplOut::Eof) => vec![1],
        Ok(ImplOut::Invalid) => vec![2],
        Ok(ImplOut::Other) => vec![3],
        Err(p) => {
            let mut v = vec![4u8];
            v.extend_from_slice(format!("{} | {}", p.location, p.message).as_bytes());
            v
        },
    }
}

fn out_from_bytes(b: &[u8]) -> Result<ImplOut, String> {
    match b[0] {
        0 => Ok(ImplOut::Ok {
            consumed: u32::from_le_bytes([b[1], b[2], b[3], b[4]]) as usize,
            val: String::from_utf8_lossy(&b[5..]).into_owned(),
        }),
        1 => Ok(ImplOut::Eof),
        2 => Ok(ImplOut::Invalid),
        3 => Ok(ImplOut::Other),
        _ => Err(String::from_utf8_lossy(&b[1..]).into_owned()),
    }
}

pub fn worker() -> ! {
    pool::serve(|case| {
        if case.is_empty() {
            return vec![0xAA]; // ping
        }
        let id = case[0];
        let bytes = &case[1..];
        out_to_bytes(&mck::catch(|| impl_decode(id, bytes)))
    })
}

// MAIN
// ================================================================================================

struct Case {
    ty: u8,
    bytes: Vec<u8>,
    origin: String,
}

fn judge(case: &Case, outcome: &Outcome) -> Option<Violation> {
    let ty = ty_of(case.ty);
    let expect = codec::decode(&ty, &case.bytes);
    let tn = type_name(case.ty);
    let mk = |class: String, detail: String| {
        Some(Violation {
            class,
            key: format!("{tn}/{}", mck::hex(&case.bytes)),
            detail: format!("{detail}; type {tn}, bytes {} ({})", mck::hex(&case.bytes), case.origin),
            replay: json!({"kind": "decode", "type_id": case.ty, "type": tn, "bytes": mck::hex(&case.bytes)}),
        })
    };
    match outcome {
        Outcome::Timeout => mk(format!("hang:{}", shape(&ty)), "decoder did not return within the watchdog".into()),
        Outcome::Died { signal, code } => mk(
            format!("abort:{}", shape(&ty)),
            format!("decoder killed the process (signal {signal:?}, exit code {code:?}); reference says {expect:?}"),
        ),
        Outcome::Reply(r) => match (out_from_bytes(r), &expect) {
            (Err(p), _) => {
                let loc = p.split(" | ").next().unwrap_or("?").to_string();
                mk(format!("panic:{}:{loc}", shape(&ty)), format!("decoder panicked ({p}); reference says {expect:?}"))
            },
            (Ok(ImplOut::Ok { val, consumed }), Ok((rv, rc))) => {
                if val != format!("{rv:?}") {
                    mk(format!("wrong_value:{}", shape(&ty)), format!("decoded {val}, reference {rv:?}"))
                } else if consumed != *rc {
                    mk(format!("wrong_length:{}", shape(&ty)), format!("consumed {consumed}, reference {rc}"))
                } else {
                    None
                }
            },
            (Ok(ImplOut::Ok { val, .. }), Err(e)) => {
                mk(format!("accepts_malformed:{}", shape(&ty)), format!("decoded {val}, reference rejects with {e:?}"))
            },
            (Ok(e), Ok((rv, _))) => mk(format!("rejects_valid:{}", shape(&ty)), format!("error {e:?}, reference decodes {rv:?}")),
            (Ok(_), Err(_)) => None,
        },
    }
}

/// coarse shape of a type, used in violation classes
fn shape(t: &Ty) -> &'static str {
    match t {
        Ty::Unit => "unit",
        Ty::U8 | Ty::U16 | Ty::U32 | Ty::U64 | Ty::U128 => "int",
        Ty::Usize => "usize",
        Ty::Opt(_) => "option",
        Ty::Arr(..) => "array",
        Ty::Vec(_) => "vec",
        Ty::Map(..) => "map",
        Ty::Set(_) => "set",
        Ty::Str => "string",
        Ty::Tuple(_) => "tuple",
    }
}

fn usize_band() -> Vec<u64> {
    let mut v: Vec<u64> = (0..(1u64 << 17)).collect();
    for k in 1..=9u32 {
        let c = 1u128 << (7 * k);
        for d in -1024i128..=1024 {
            let x = c as i128 + d;
            if x >= 0 && x <= u64::MAX as i128 {
                v.push(x as u64);
            }
        }
    }
    for d in 0..=1024u64 {
        v.push((1u64 << 63).wrapping_sub(d));
        v.push((1u64 << 63) + d);
        v.push(u64::MAX - d);
    }
    for k in 0..64 {
        v.push(1 << k);
        v.push((1u64 << k) - 1);
    }
    v.sort();
    v.dedup();
    v
}

pub fn run(args: &Args) {
    if args.worker.is_some() {
        worker();
    }
    let cfg = PoolCfg::this("C26", "decode");
    pool::self_test(&cfg, &[], |r| r == [0xAA]);
    if let Some(v) = args.replay_value() {
        replay(args, &cfg, &v);
    }
    let mut report = Report::new(args, "exploration");
    let thorough = args.tier == mck::Tier::Thorough;

    // ---- part 1: size values, exhaustive bands (in process: own encodings only) ------------------
    let band = usize_band();
    let mut len_hist = [0u64; 10];
    for &v in &band {
        let x = v as usize;
        let mut enc = Vec::new();
        enc.write_usize(x);
        let expect = codec::vint_encode(v);
        let mut bad = None;
        if enc != expect {
            bad = Some(("usize_encoding_differs_from_documented", format!("write_usize({v}) = {}, documented {}", mck::hex(&enc), mck::hex(&expect))));
        } else if x.get_size_hint() != expect.len() {
            bad = Some(("usize_size_hint", format!("get_size_hint({v}) = {}, encoded length {}", x.get_size_hint(), expect.len())));
        } else {
            let mut r = SliceReader::new(&enc);
            match r.read_usize() {
                Ok(y) if y == x && !r.has_more_bytes() => {},
                o => bad = Some(("usize_roundtrip", format!("read_usize(write_usize({v})) = {o:?}, more bytes: {}", r.has_more_bytes()))),
            }
            // every proper prefix must be an error
            for cut in 0..enc.len() {
                let mut r = SliceReader::new(&enc[..cut]);
                if mck::catch(|| r.read_usize().is_err()) != Ok(true) {
                    bad = Some(("usize_truncation_not_rejected", format!("prefix of length {cut} of the encoding of {v} was not rejected with an error")));
                }
            }
        }
        len_hist[expect.len()] += 1;
        if let Some((class, detail)) = bad {
            report.violation(Violation { class: class.into(), key: format!("{v}"), detail, replay: json!({"kind": "usize", "value": v.to_string()}) });
        }
    }
    report.part("usize bands", band.len() as u64, band.len() as u64, json!({"values_per_encoded_length": len_hist[1..].to_vec()}));
    report.sample(json!({"usize": "72057594037927936 (2^56)", "encoding": mck::hex(&codec::vint_encode(1 << 56))}));

    // ---- part 2: fixed-width integers and booleans, exhaustive where small -----------------------
    let mut n_int = 0u64;
    for x in 0..=255u8 {
        // bool: exactly 0 and 1 decode, everything else is an error
        let b = [x];
        let mut r = SliceReader::new(&b);
        let got = r.read_bool();
        let ok = match x {
            0 => got == Ok(false),
            1 => got == Ok(true),
            _ => got.is_err(),
        };
        if !ok {
            report.violation(Violation { class: "bool_decoding".into(), key: format!("{x}"), detail: format!("read_bool on byte {x} gave {got:?}"), replay: json!({"kind": "bool", "byte": x}) });
        }
        n_int += 1;
    }
    for t in [false, true] {
        let mut w = Vec::new();
        w.write_bool(t);
        if w != [t as u8] {
            report.violation(Violation { class: "bool_encoding".into(), key: format!("{t}"), detail: format!("write_bool({t}) = {w:?}"), replay: json!({"kind": "bool"}) });
        }
    }
    macro_rules! int_rt {
        ($t:ty, $vals:expr) => {
            for x in $vals {
                let x: $t = x;
                let enc = x.to_bytes();
                let expect = x.to_le_bytes().to_vec();
                let back = <$t>::read_from_bytes(&enc);
                if enc != expect || back != Ok(x) || x.get_size_hint() != expect.len() {
                    report.violation(Violation { class: format!("int_roundtrip:{}", stringify!($t)), key: format!("{x}"),
                        detail: format!("{x}: encoding {}, expected LE {}, decoded {back:?}", mck::hex(&enc), mck::hex(&expect)), replay: json!({"kind": "int"}) });
                }
                n_int += 1;
            }
        };
    }
    int_rt!(u8, 0..=u8::MAX);
    int_rt!(u16, 0..=u16::MAX);
    let b32: Vec<u32> = (0..=32).flat_map(|k| { let p = if k == 32 { 0u32 } else { 1u32 << k }; [p.wrapping_sub(1), p, p.wrapping_add(1)] }).collect();
    int_rt!(u32, b32.clone());
    let b64: Vec<u64> = (0..=64).flat_map(|k| { let p = if k == 64 { 0u64 } else { 1u64 << k }; [p.wrapping_sub(1), p, p.wrapping_add(1)] }).collect();
    int_rt!(u64, b64.clone());
    let b128: Vec<u128> = (0..=128).flat_map(|k| { let p = if k == 128 { 0u128 } else { 1u128 << k }; [p.wrapping_sub(1), p, p.wrapping_add(1)] }).collect();
    int_rt!(u128, b128.clone());
    report.part("fixed-width integers and booleans", n_int, n_int, json!("u8, u16, bool bytes exhaustive; u32/u64/u128 at 2^k-1, 2^k, 2^k+1"));

    // ---- part 3: containers — round trip of every enumerated value (own encodings, in process) ----
    let mut cases: Vec<Case> = vec![];
    let mut n_rt = 0u64;
    let mut per_type = vec![];
    for &id in TYPE_IDS {
        let ty = ty_of(id);
        let vals = values(&ty, 0);
        per_type.push(json!({"type": type_name(id), "values": vals.len()}));
        for v in &vals {
            n_rt += 1;
            let expect = codec::encode(&ty, v);
            let (enc, hint) = impl_encode(id, v);
            let tn = type_name(id);
            let mut fail = |class: &str, detail: String| {
                report.violation(Violation { class: format!("{class}:{}", shape(&ty)), key: format!("{tn}/{v:?}"), detail: format!("{detail}; type {tn}, value {v:?}"),
                    replay: json!({"kind": "roundtrip", "type_id": id, "type": tn, "reference_encoding": mck::hex(&expect)}) });
            };
            if enc != expect {
                fail("encoding_differs_from_documented", format!("encoded {}, documented {}", mck::hex(&enc), mck::hex(&expect)));
                continue;
            }
            if hint != enc.len() {
                fail("size_hint", format!("get_size_hint {hint}, encoded length {}", enc.len()));
            }
            match impl_decode(id, &enc) {
                ImplOut::Ok { val, consumed } if val == format!("{v:?}") && consumed == enc.len() => {},
                o => fail("roundtrip", format!("decoding its own encoding {} gave {o:?}", mck::hex(&enc))),
            }
            // faults of this encoding → worker cases
            let opts = ByteFaultOpts { all_values: enc.len() <= 6, insertions: thorough, deletions: thorough, ..ByteFaultOpts::ALL };
            let mut faults = if enc.len() <= 40 { e4::byte_faults(&enc, opts) } else {
                // long encodings: only the head (count + first elements) and every truncation
                let mut f = e4::byte_faults(&enc[..8], ByteFaultOpts { truncations: false, insertions: false, deletions: false, ..opts });
                f.extend((0..enc.len()).map(|len| Fault::Truncate { len }));
                f
            };
            // count field edits (boundary values, over-long encodings) for count-prefixed shapes
            if matches!(ty, Ty::Vec(_) | Ty::Map(..) | Ty::Set(_) | Ty::Str | Ty::Usize) {
                if let Ok((n, l)) = codec::vint_decode(&enc) {
                    faults.extend(e4::field_faults(&e4::Field { name: "count".into(), off: 0, len: l, kind: e4::FieldKind::Vint, value: n }));
                }
            }
            for f in faults {
                let bytes = f.apply(&enc);
                cases.push(Case { ty: id, bytes, origin: format!("{} of {v:?}", f.short()) });
            }
        }
    }
    report.part("container round trips", n_rt, n_rt, json!(per_type));

    // ---- part 4: all byte strings of length ≤ 2 (≤ 3 thorough) for every type -------------------
    let maxlen = if thorough { 3 } else { 2 };
    for &id in TYPE_IDS {
        // 3-byte strings (thorough) are streamed through the pool below, not materialised
        for len in 0..=2u32 {
            for x in 0..(256u32.pow(len)) {
                let bytes: Vec<u8> = (0..len).map(|i| (x >> (8 * i)) as u8).collect();
                cases.push(Case { ty: id, bytes, origin: "all strings".into() });
            }
        }
    }
    // invalid UTF-8 families for the string-bearing types
    let bad_utf8: Vec<Vec<u8>> = vec![
        vec![0x80], vec![0xC0, 0x80], vec![0xC2], vec![0xE0, 0x80, 0x80], vec![0xED, 0xA0, 0x80], vec![0xF0, 0x80, 0x80, 0x80],
        vec![0xF4, 0x90, 0x80, 0x80], vec![0xF8, 0x88, 0x80, 0x80, 0x80], vec![0xFF], vec![b'a', 0xFE], vec![0xE2, 0x82], vec![0xF0, 0x9F, 0x92],
    ];
    for s in &bad_utf8 {
        let mut b = codec::vint_encode(s.len() as u64);
        b.extend_from_slice(s);
        cases.push(Case { ty: 16, bytes: b.clone(), origin: "invalid utf-8".into() });
        let mut vb = vec![3u8]; // Vec<String> of one element
        vb.extend_from_slice(&b);
        cases.push(Case { ty: 20, bytes: vb, origin: "invalid utf-8 in Vec<String>".into() });
    }
    // dedup identical (type, bytes) cases
    cases.sort_by(|a, b| (a.ty, &a.bytes).cmp(&(b.ty, &b.bytes)));
    cases.dedup_by(|a, b| a.ty == b.ty && a.bytes == b.bytes);
    // encodings that announce more than 2^16 elements of an empty-encoding type are valid and take
    // time proportional to the count to decode: outside the bound, not executed
    let before = cases.len();
    cases.retain(|c| codec::decode(&ty_of(c.ty), &c.bytes) != Err(RefErr::Unbounded));
    let skipped_unbounded = before - cases.len();

    #[derive(Default)]
    struct Acc {
        viol: Vec<(usize, Violation)>,
        decoded_ok: u64,
        rejected: u64,
        unconfirmed: u64,
        beyond_cap: u64,
    }
    let fold = |acc: &mut Acc, i: usize, case: &Case, payload: &[u8], outcome: Outcome| {
        match &outcome {
            Outcome::Reply(r) if r[0] == 0 => acc.decoded_ok += 1,
            Outcome::Reply(r) if r[0] < 4 => acc.rejected += 1,
            _ => {},
        }
        if let Some(v) = judge(case, &outcome) {
            // every reported violation is repeated in a fresh worker; once a worker thread has
            // 25 confirmed ones of a class, further ones of that class are only counted
            if acc.viol.iter().filter(|(_, w)| w.class == v.class).count() >= 25 {
                acc.beyond_cap += 1;
            } else if pool::confirmed(&cfg, payload, &outcome) {
                acc.viol.push((i, v));
            } else {
                acc.unconfirmed += 1;
            }
        }
    };
    let accs: Vec<Acc> = pool::run(
        &cfg,
        cases.len(),
        |i| {
            let mut p = vec![cases[i].ty];
            p.extend_from_slice(&cases[i].bytes);
            p
        },
        |acc: &mut Acc, i, payload, outcome| fold(acc, i, &cases[i], payload, outcome),
    );
    // thorough: every 3-byte string for every type, generated from the case index
    let per = 256usize.pow(3);
    let streamed = if thorough { TYPE_IDS.len() * per } else { 0 };
    let base = cases.len();
    let accs3: Vec<Acc> = if thorough {
        pool::run(
            &cfg,
            streamed,
            |i| {
                let id = TYPE_IDS[i / per];
                let x = i % per;
                let bytes = [x as u8, (x >> 8) as u8, (x >> 16) as u8];
                if codec::decode(&ty_of(id), &bytes) == Err(RefErr::Unbounded) {
                    vec![]
                } else {
                    vec![id, bytes[0], bytes[1], bytes[2]]
                }
            },
            |acc: &mut Acc, i, payload, outcome| {
                let case = Case { ty: payload[0], bytes: payload[1..].to_vec(), origin: "all strings".into() };
                fold(acc, base + i, &case, payload, outcome)
            },
        )
    } else {
        vec![]
    };
    let mut viol: Vec<(usize, Violation)> = vec![];
    let (mut ok, mut rej, mut unconfirmed, mut beyond_cap) = (0, 0, 0, 0u64);
    for a in accs.into_iter().chain(accs3) {
        unconfirmed += a.unconfirmed;
        beyond_cap += a.beyond_cap;
        viol.extend(a.viol);
        ok += a.decoded_ok;
        rej += a.rejected;
    }
    viol.sort_by_key(|(i, _)| *i);
    report.violations(viol.into_iter().map(|(_, v)| v));
    report.part(
        "malformed and arbitrary encodings (isolated workers)",
        (cases.len() + streamed) as u64,
        (cases.len() + streamed) as u64,
        json!({"decoded_to_a_value": ok, "rejected_with_error": rej, "worker_address_space_kib": cfg.mem_kib, "watchdog_s": cfg.timeout.as_secs(),
            "outcomes_not_repeated_by_a_fresh_worker_and_therefore_discarded": unconfirmed,
            "valid_encodings_of_more_than_2^16_empty_elements_not_executed": skipped_unbounded,
            "further_violating_cases_of_an_already_confirmed_class_counted_only": beyond_cap}),
    );
    for c in cases.iter().filter(|c| c.origin.contains("overlong") || c.origin.contains("count=")).take(3) {
        report.sample(json!({"type": type_name(c.ty), "bytes": mck::hex(&c.bytes), "origin": c.origin}));
    }
    if let Some(c) = cases.iter().find(|c| c.origin.contains("utf-8")) {
        report.sample(json!({"type": type_name(c.ty), "bytes": mck::hex(&c.bytes), "origin": c.origin}));
    }
    report.exhaustive = true;
    report.rule = "cases are (type, value) pairs and (type, byte string) pairs, deduplicated; every one exercises an encoder or decoder and is judged by the independent codec R3, so every distinct case is non-trivial; malformed inputs = every single fault (all byte values for encodings of at most 6 bytes, bit flips + boundary bytes otherwise, every truncation, count-field boundary values and over-long size encodings) of every enumerated value's encoding, plus all byte strings up to the stated length for every type".into();
    report.bounds = json!({"usize_values": band.len(), "all_byte_strings_up_to": maxlen, "types": TYPE_IDS.len()});
    report.assumptions = vec![
        "64-bit little-endian platform: the 'size value does not fit the platform' branch cannot fire and is out of bound".into(),
        "values are drawn from tiny boundary alphabets per type (DESIGN.md C26)".into(),
    ];
    report.finish(args)
}

fn replay(args: &Args, cfg: &PoolCfg, v: &Value) -> ! {
    let mut report = Report::new(args, "exploration");
    report.evaluations = 1;
    if v["kind"] == "decode" {
        let case = Case { ty: v["type_id"].as_u64().unwrap() as u8, bytes: mck::unhex(v["bytes"].as_str().unwrap()), origin: "replay".into() };
        let run = || {
            let accs: Vec<Vec<Outcome>> = pool::run(
                &PoolCfg { workers: 1, ..cfg.clone() },
                1,
                |_| {
                    let mut p = vec![case.ty];
                    p.extend_from_slice(&case.bytes);
                    p
                },
                |acc: &mut Vec<Outcome>, _, _, o| acc.push(o),
            );
            accs.into_iter().flatten().next().unwrap()
        };
        let (o1, o2) = (run(), run());
        if o1 != o2 {
            mck::report::machinery("replay is not deterministic");
        }
        println!("type {} bytes {} -> {:?}; reference: {:?}", type_name(case.ty), mck::hex(&case.bytes),
            match &o1 { Outcome::Reply(r) => format!("{:?}", out_from_bytes(r)), o => format!("{o:?}") }, codec::decode(&ty_of(case.ty), &case.bytes));
        if let Some(viol) = judge(&case, &o1) {
            println!("REPRODUCED: {}", viol.detail);
            report.violation(viol);
        } else {
            println!("not reproduced");
        }
    } else {
        println!("replay of kind {} is covered by the exhaustive in-process parts; rerun the check", v["kind"]);
    }
    report.finish(args)
}

#[allow(dead_code)]
fn _unused(_: RefErr) {}
