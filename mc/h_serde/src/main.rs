//! h_serde — harness for the serialisation layer of winter-utils: C26 (primitive encodings) and
//! C27 (streaming reader ≡ slice reader under every chunking).

mod c26;
mod c27;

fn main() {
    mck::install_panic_hook();
    let args = mck::Args::parse();
    match args.prop.as_str() {
        "C26" => c26::run(&args),
        "C27" => c27::run(&args),
        p => mck::report::machinery(&format!("h_serde does not serve property {p:?}")),
    }
}
