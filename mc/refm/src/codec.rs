//! R3 — byte codec reference: little-endian integers, vint64 sizes by the documented rule,
//! containers as count-prefixed sequences.

use std::collections::{BTreeMap, BTreeSet};

#[derive(Clone, Debug, PartialEq, Eq, PartialOrd, Ord)]
pub enum Ty {
    Unit,
    U8,
    U16,
    U32,
    U64,
    U128,
    Usize,
    Opt(Box<Ty>),
    Arr(Box<Ty>, usize),
    Vec(Box<Ty>),
    Map(Box<Ty>, Box<Ty>),
    Set(Box<Ty>),
    Str,
    Tuple(Vec<Ty>),
}

#[derive(Clone, Debug, PartialEq, Eq, PartialOrd, Ord)]
pub enum Val {
    Unit,
    Int(u128),
    Opt(Option<Box<Val>>),
    Seq(Vec<Val>),
    Map(BTreeMap<Val, Val>),
    Set(BTreeSet<Val>),
    Str(Vec<u8>),
}

#[derive(Clone, Copy, Debug, PartialEq, Eq)]
pub enum RefErr {
    Eof,
    Invalid,
    /// a container of elements with an empty encoding announces more than 2^16 of them: a valid
    /// encoding whose decoding takes time proportional to the count - outside the explored bound
    Unbounded,
}

/// true when every value of the type encodes to zero bytes
pub fn zero_size(ty: &Ty) -> bool {
    match ty {
        Ty::Unit => true,
        Ty::Arr(t, n) => *n == 0 || zero_size(t),
        Ty::Tuple(ts) => ts.iter().all(zero_size),
        _ => false,
    }
}

const ZST_COUNT_BOUND: u64 = 1 << 16;

/// Documented encoded length of a size value: 1 + floor((bits-1)/7) bytes for values of at most
/// 56 significant bits (1 byte for 0), 9 bytes otherwise.
pub fn vint_len(v: u64) -> usize {
    let bits = 64 - v.leading_zeros() as usize;
    if bits <= 7 {
        1
    } else if bits <= 56 {
        1 + (bits - 1) / 7
    } else {
        9
    }
}

pub fn vint_encode(v: u64) -> Vec<u8> {
    let len = vint_len(v);
    if len == 9 {
        let mut out = vec![0u8];
        out.extend_from_slice(&v.to_le_bytes());
        out
    } else {
        // value shifted left by `len` bits, with a one in bit len-1 and zeros below it
        let enc: u128 = ((v as u128) << len) | (1u128 << (len - 1));
        enc.to_le_bytes()[..len].to_vec()
    }
}

/// Decodes a size value: the number of trailing zero bits of the first byte plus one is the
/// length (a zero first byte means 9 bytes: the next 8 bytes are the value).
pub fn vint_decode(b: &[u8]) -> Result<(u64, usize), RefErr> {
    let first = *b.first().ok_or(RefErr::Eof)?;
    if first == 0 {
        if b.len() < 9 {
            return Err(RefErr::Eof);
        }
        let mut x = [0u8; 8];
        x.copy_from_slice(&b[1..9]);
        return Ok((u64::from_le_bytes(x), 9));
    }
    let len = first.trailing_zeros() as usize + 1;
    if b.len() < len {
        return Err(RefErr::Eof);
    }
    let mut acc: u128 = 0;
    for (i, byte) in b[..len].iter().enumerate() {
        acc |= (*byte as u128) << (8 * i);
    }
    Ok(((acc >> len) as u64, len))
}

fn le(v: u128, n: usize) -> Vec<u8> {
    v.to_le_bytes()[..n].to_vec()
}

pub fn encode(ty: &Ty, v: &Val) -> Vec<u8> {
    match (ty, v) {
        (Ty::Unit, Val::Unit) => vec![],
        (Ty::U8, Val::Int(x)) => le(*x, 1),
        (Ty::U16, Val::Int(x)) => le(*x, 2),
        (Ty::U32, Val::Int(x)) => le(*x, 4),
        (Ty::U64, Val::Int(x)) => le(*x, 8),
        (Ty::U128, Val::Int(x)) => le(*x, 16),
        (Ty::Usize, Val::Int(x)) => vint_encode(*x as u64),
        (Ty::Opt(_), Val::Opt(None)) => vec![0],
        (Ty::Opt(t), Val::Opt(Some(x))) => {
            let mut o = vec![1];
            o.extend(encode(t, x));
            o
        },
        (Ty::Arr(t, _), Val::Seq(xs)) => xs.iter().flat_map(|x| encode(t, x)).collect(),
        (Ty::Vec(t), Val::Seq(xs)) => {
            let mut o = vint_encode(xs.len() as u64);
            for x in xs {
                o.extend(encode(t, x));
            }
            o
        },
        (Ty::Map(k, w), Val::Map(m)) => {
            let mut o = vint_encode(m.len() as u64);
            for (a, b) in m {
                o.extend(encode(k, a));
                o.extend(encode(w, b));
            }
            o
        },
        (Ty::Set(t), Val::Set(s)) => {
            let mut o = vint_encode(s.len() as u64);
            for x in s {
                o.extend(encode(t, x));
            }
            o
        },
        (Ty::Str, Val::Str(b)) => {
            let mut o = vint_encode(b.len() as u64);
            o.extend_from_slice(b);
            o
        },
        (Ty::Tuple(ts), Val::Seq(xs)) => ts.iter().zip(xs).flat_map(|(t, x)| encode(t, x)).collect(),
        _ => panic!("reference encode: value {v:?} does not inhabit {ty:?}"),
    }
}

fn take<'a>(b: &'a [u8], pos: &mut usize, n: usize) -> Result<&'a [u8], RefErr> {
    if b.len() - *pos < n {
        return Err(RefErr::Eof);
    }
    let s = &b[*pos..*pos + n];
    *pos += n;
    Ok(s)
}

fn int(b: &[u8], pos: &mut usize, n: usize) -> Result<Val, RefErr> {
    let s = take(b, pos, n)?;
    let mut acc = 0u128;
    for (i, x) in s.iter().enumerate() {
        acc |= (*x as u128) << (8 * i);
    }
    Ok(Val::Int(acc))
}

/// Decodes one value; count-prefixed containers decode entry by entry and fail with `Eof` at the
/// first missing byte, whatever the announced count.
pub fn decode_at(ty: &Ty, b: &[u8], pos: &mut usize) -> Result<Val, RefErr> {
    Ok(match ty {
        Ty::Unit => Val::Unit,
        Ty::U8 => int(b, pos, 1)?,
        Ty::U16 => int(b, pos, 2)?,
        Ty::U32 => int(b, pos, 4)?,
        Ty::U64 => int(b, pos, 8)?,
        Ty::U128 => int(b, pos, 16)?,
        Ty::Usize => {
            let (v, n) = vint_decode(&b[*pos..])?;
            *pos += n;
            Val::Int(v as u128)
        },
        Ty::Opt(t) => match take(b, pos, 1)?[0] {
            0 => Val::Opt(None),
            1 => Val::Opt(Some(Box::new(decode_at(t, b, pos)?))),
            _ => return Err(RefErr::Invalid),
        },
        Ty::Arr(t, n) => {
            let mut xs = vec![];
            for _ in 0..*n {
                xs.push(decode_at(t, b, pos)?);
            }
            Val::Seq(xs)
        },
        Ty::Vec(t) => {
            let (n, l) = vint_decode(&b[*pos..])?;
            *pos += l;
            if zero_size(t) && n > ZST_COUNT_BOUND {
                return Err(RefErr::Unbounded);
            }
            let mut xs = vec![];
            for _ in 0..n {
                // zero-sized elements cannot run out of input: an honest reference would loop
                // `n` times; bound it the same way any implementation must (n fits memory or fails)
                xs.push(decode_at(t, b, pos)?);
            }
            Val::Seq(xs)
        },
        Ty::Map(k, w) => {
            let (n, l) = vint_decode(&b[*pos..])?;
            *pos += l;
            if zero_size(k) && zero_size(w) && n > ZST_COUNT_BOUND {
                return Err(RefErr::Unbounded);
            }
            let mut m = BTreeMap::new();
            for _ in 0..n {
                let a = decode_at(k, b, pos)?;
                let c = decode_at(w, b, pos)?;
                m.insert(a, c);
            }
            Val::Map(m)
        },
        Ty::Set(t) => {
            let (n, l) = vint_decode(&b[*pos..])?;
            *pos += l;
            if zero_size(t) && n > ZST_COUNT_BOUND {
                return Err(RefErr::Unbounded);
            }
            let mut s = BTreeSet::new();
            for _ in 0..n {
                s.insert(decode_at(t, b, pos)?);
            }
            Val::Set(s)
        },
        Ty::Str => {
            let (n, l) = vint_decode(&b[*pos..])?;
            *pos += l;
            if ((b.len() - *pos) as u64) < n {
                return Err(RefErr::Eof);
            }
            let s = take(b, pos, n as usize)?;
            if std::str::from_utf8(s).is_err() {
                return Err(RefErr::Invalid);
            }
            Val::Str(s.to_vec())
        },
        Ty::Tuple(ts) => {
            let mut xs = vec![];
            for t in ts {
                xs.push(decode_at(t, b, pos)?);
            }
            Val::Seq(xs)
        },
    })
}

pub fn decode(ty: &Ty, b: &[u8]) -> Result<(Val, usize), RefErr> {
    let mut pos = 0;
    let v = decode_at(ty, b, &mut pos)?;
    Ok((v, pos))
}

#[cfg(test)]
mod tests {
    use super::*;
    #[test]
    fn vint_rule() {
        assert_eq!(vint_encode(0), vec![1]);
        assert_eq!(vint_encode(127), vec![0xFF]);
        assert_eq!(vint_encode(128), vec![2, 2]);
        for v in [0u64, 1, 127, 128, 16383, 16384, (1 << 56) - 1, 1 << 56, u64::MAX] {
            let e = vint_encode(v);
            assert_eq!(e.len(), vint_len(v));
            assert_eq!(vint_decode(&e), Ok((v, e.len())));
        }
        assert_eq!(vint_len((1 << 56) - 1), 8);
        assert_eq!(vint_len(1 << 56), 9);
    }
}
