//! R5 — Merkle reference over an abstract 2-to-1 hash: recursive pairwise root, authentication
//! paths read off the full node array, batch proof = the nodes a verifier cannot recompute, by
//! definition.

use std::collections::{BTreeMap, BTreeSet};

/// root by recursion on halves
pub fn root<D: Clone>(leaves: &[D], merge: &dyn Fn(&D, &D) -> D) -> D {
    assert!(leaves.len() >= 2 && leaves.len().is_power_of_two());
    if leaves.len() == 2 {
        return merge(&leaves[0], &leaves[1]);
    }
    let h = leaves.len() / 2;
    merge(&root(&leaves[..h], merge), &root(&leaves[h..], merge))
}

/// Full tree as a heap-indexed map: index 1 = root, children of i are 2i and 2i+1, leaves at
/// n..2n.
pub fn heap<D: Clone>(leaves: &[D], merge: &dyn Fn(&D, &D) -> D) -> Vec<Option<D>> {
    let n = leaves.len();
    let mut t: Vec<Option<D>> = vec![None; 2 * n];
    for (i, l) in leaves.iter().enumerate() {
        t[n + i] = Some(l.clone());
    }
    for i in (1..n).rev() {
        t[i] = Some(merge(t[2 * i].as_ref().unwrap(), t[2 * i + 1].as_ref().unwrap()));
    }
    t
}

/// authentication path of leaf `index`: sibling at every level, bottom up
pub fn path<D: Clone>(heap: &[Option<D>], index: usize) -> Vec<D> {
    let n = heap.len() / 2;
    let mut i = n + index;
    let mut p = vec![];
    while i > 1 {
        p.push(heap[i ^ 1].clone().unwrap());
        i >>= 1;
    }
    p
}

/// The set of heap positions a verifier holding the leaves at `indexes` cannot recompute and
/// therefore needs: siblings of known nodes that are not themselves known, level by level.
pub fn needed_nodes(num_leaves: usize, indexes: &[usize]) -> BTreeSet<usize> {
    let mut known: BTreeSet<usize> = indexes.iter().map(|i| num_leaves + i).collect();
    let mut needed = BTreeSet::new();
    while !known.contains(&1) {
        let mut parents = BTreeSet::new();
        for &k in &known {
            if k == 1 {
                continue;
            }
            if !known.contains(&(k ^ 1)) {
                needed.insert(k ^ 1);
            }
            parents.insert(k >> 1);
        }
        known = parents;
    }
    needed
}

/// Recomputes the root from the opened leaves and a map of supplied nodes; `None` if a needed
/// node is missing.
pub fn root_from_opening<D: Clone>(
    num_leaves: usize,
    opened: &BTreeMap<usize, D>,
    supplied: &BTreeMap<usize, D>,
    merge: &dyn Fn(&D, &D) -> D,
) -> Option<D> {
    let mut known: BTreeMap<usize, D> = opened.iter().map(|(i, d)| (num_leaves + i, d.clone())).collect();
    loop {
        if let Some(r) = known.get(&1) {
            return Some(r.clone());
        }
        let mut parents = BTreeMap::new();
        for (&k, d) in &known {
            let sib = known.get(&(k ^ 1)).or_else(|| supplied.get(&(k ^ 1)))?;
            let (l, r) = if k & 1 == 0 { (d, sib) } else { (sib, d) };
            parents.insert(k >> 1, merge(l, r));
        }
        known = parents;
    }
}
