//! R8 — structural parser / printer for STARK proof bytes, transcribed from the documented wire
//! format (DESIGN.md appendix A). It knows nothing about winterfell's types: a proof is a tree of
//! integers, variable-length integers, raw item arrays, length-prefixed sections and
//! count-prefixed lists. The tree is used to *address* fields for fault enumeration; printing
//! recomputes every length / count prefix, so structural edits stay well-formed unless the edit
//! is a lie about a prefix.

#[derive(Clone, Debug, PartialEq, Eq)]
pub enum Prefix {
    U8,
    U16,
    U32,
    Vint,
}

#[derive(Clone, Debug, PartialEq, Eq)]
pub enum Node {
    /// fixed-width little-endian integer
    Int { name: String, width: usize, value: u64 },
    /// vint64; `enc_len` forces an (over-long) encoding length
    Vint { name: String, value: u64, enc_len: Option<usize> },
    /// array of fixed-size items (elements or digests)
    Raw { name: String, unit: usize, bytes: Vec<u8> },
    /// byte-length-prefixed section; `lie` overrides the printed length
    Sized { name: String, prefix: Prefix, body: Vec<Node>, lie: Option<u64> },
    /// count-prefixed list; `lie` overrides the printed count
    Count { name: String, prefix: Prefix, items: Vec<Node>, lie: Option<u64> },
    Seq { name: String, items: Vec<Node> },
}

#[derive(Clone, Copy, Debug)]
pub struct Layout {
    pub digest_bytes: usize,
    pub base_bytes: usize,
}

#[derive(Debug)]
pub struct ParseErr(pub String);

struct Rd<'a> {
    b: &'a [u8],
    p: usize,
}

impl<'a> Rd<'a> {
    fn take(&mut self, n: usize) -> Result<&'a [u8], ParseErr> {
        if self.p + n > self.b.len() {
            return Err(ParseErr(format!("need {n} bytes at {}, have {}", self.p, self.b.len() - self.p)));
        }
        let s = &self.b[self.p..self.p + n];
        self.p += n;
        Ok(s)
    }
    fn int(&mut self, w: usize) -> Result<u64, ParseErr> {
        let s = self.take(w)?;
        let mut le = [0u8; 8];
        le[..w].copy_from_slice(s);
        Ok(u64::from_le_bytes(le))
    }
    fn vint(&mut self) -> Result<(u64, usize), ParseErr> {
        let first = self.take(1)?[0];
        if first == 0 {
            let s = self.take(8)?;
            return Ok((u64::from_le_bytes(s.try_into().unwrap()), 9));
        }
        let len = first.trailing_zeros() as usize + 1;
        let rest = self.take(len - 1)?;
        let mut le = [0u8; 8];
        le[0] = first;
        le[1..len].copy_from_slice(rest);
        Ok((u64::from_le_bytes(le) >> len, len))
    }
    fn done(&self) -> bool {
        self.p == self.b.len()
    }
}

pub fn vint_len(value: u64) -> usize {
    let bits = 64 - value.leading_zeros() as usize;
    if bits <= 56 {
        (1 + bits.saturating_sub(1) / 7).max(1)
    } else {
        9
    }
}

pub fn vint_encode(value: u64, len: usize) -> Option<Vec<u8>> {
    if len == 9 {
        let mut v = vec![0u8];
        v.extend(value.to_le_bytes());
        return Some(v);
    }
    if !(1..=8).contains(&len) || (len < 8 && value >> (7 * len) != 0) || (len == 8 && value >> 56 != 0) {
        return None;
    }
    let x = ((value as u128) << len) | (1u128 << (len - 1));
    Some(x.to_le_bytes()[..len].to_vec())
}

fn int(name: &str, width: usize, value: u64) -> Node {
    Node::Int { name: name.into(), width, value }
}

fn parse_bmp(r: &mut Rd, l: Layout, name: &str) -> Result<Node, ParseErr> {
    let depth = r.int(1)?;
    let (nvecs, nl) = r.vint()?;
    if nvecs > 1 << 20 {
        return Err(ParseErr("node vector count".into()));
    }
    let mut vecs = vec![];
    for i in 0..nvecs {
        let (k, kl) = r.vint()?;
        if k > 1 << 20 {
            return Err(ParseErr("node count".into()));
        }
        let bytes = r.take(k as usize * l.digest_bytes)?.to_vec();
        // a list of k digests: the count prefix belongs to the digests, expressed as Count over unit items
        let items = bytes.chunks(l.digest_bytes).map(|c| Node::Raw { name: "digest".into(), unit: l.digest_bytes, bytes: c.to_vec() }).collect();
        vecs.push(Node::Count { name: format!("nodes[{i}]"), prefix: Prefix::Vint, items, lie: None });
        let _ = kl;
    }
    let _ = nl;
    Ok(Node::Seq { name: name.into(), items: vec![int("depth", 1, depth), Node::Count { name: "node_vectors".into(), prefix: Prefix::Vint, items: vecs, lie: None }] })
}

/// a length-prefixed section whose body is one batch Merkle proof (falls back to raw bytes when the
/// body does not parse as one — it then still round-trips)
fn sized_bmp(name: &str, prefix: Prefix, body: &[u8], l: Layout) -> Node {
    let mut r = Rd { b: body, p: 0 };
    let inner = match parse_bmp(&mut r, l, "batch_merkle_proof") {
        Ok(n) if r.done() => vec![n],
        _ => vec![Node::Raw { name: "unparsed".into(), unit: 1, bytes: body.to_vec() }],
    };
    Node::Sized { name: name.into(), prefix, body: inner, lie: None }
}

fn parse_queries(r: &mut Rd, l: Layout, name: &str, elem_bytes: usize) -> Result<Node, ParseErr> {
    let (nv, _) = r.vint()?;
    let values = r.take(nv as usize)?.to_vec();
    let (np, _) = r.vint()?;
    let paths = r.take(np as usize)?;
    Ok(Node::Seq {
        name: name.into(),
        items: vec![
            Node::Sized { name: "values".into(), prefix: Prefix::Vint, body: vec![Node::Raw { name: "elements".into(), unit: elem_bytes, bytes: values }], lie: None },
            sized_bmp("opening_proof", Prefix::Vint, paths, l),
        ],
    })
}

fn frame(name: &str, body: &[u8], elem_bytes: usize) -> Node {
    let inner = if body.is_empty() {
        vec![]
    } else {
        vec![int("frame_size", 1, body[0] as u64), Node::Raw { name: "elements".into(), unit: elem_bytes, bytes: body[1..].to_vec() }]
    };
    Node::Sized { name: name.into(), prefix: Prefix::U16, body: inner, lie: None }
}

/// Parses proof bytes. Returns the tree and the number of bytes consumed (trailing bytes are
/// not part of a proof and are reported through the length).
pub fn parse(b: &[u8], l: Layout) -> Result<(Node, usize), ParseErr> {
    let mut r = Rd { b, p: 0 };
    // context
    let main_w = r.int(1)?;
    let aux_w = r.int(1)?;
    let aux_rands = r.int(1)?;
    let log_len = r.int(1)?;
    let meta_len = r.int(2)? as usize;
    let meta = r.take(meta_len)?.to_vec();
    let trace_info = Node::Seq {
        name: "trace_info".into(),
        items: vec![
            int("main_width", 1, main_w),
            int("aux_width", 1, aux_w),
            int("aux_rands", 1, aux_rands),
            int("log2_length", 1, log_len),
            Node::Sized { name: "meta".into(), prefix: Prefix::U16, body: vec![Node::Raw { name: "bytes".into(), unit: 1, bytes: meta }], lie: None },
        ],
    };
    let modlen = r.int(1)? as usize;
    let modulus = r.take(modlen)?.to_vec();
    let ext;
    let mut opts = vec![];
    for (i, n) in ["num_queries", "blowup", "grinding", "extension", "folding", "remainder_max_degree", "batching_constraints", "batching_deep", "num_partitions", "hash_rate"].iter().enumerate() {
        let v = r.int(1)?;
        opts.push(int(n, 1, v));
        let _ = i;
    }
    ext = match &opts[3] {
        Node::Int { value, .. } => *value as usize,
        _ => 1,
    };
    let (ncons, ncl) = r.vint()?;
    let context = Node::Seq {
        name: "context".into(),
        items: vec![
            trace_info,
            Node::Sized { name: "modulus".into(), prefix: Prefix::U8, body: vec![Node::Raw { name: "bytes".into(), unit: 1, bytes: modulus }], lie: None },
            Node::Seq { name: "options".into(), items: opts },
            Node::Vint { name: "num_constraints".into(), value: ncons, enc_len: if ncl == vint_len(ncons) { None } else { Some(ncl) } },
        ],
    };
    let elem_bytes = l.base_bytes * ext.clamp(1, 3);
    let nuq = r.int(1)?;
    let clen = r.int(2)? as usize;
    let cbytes = r.take(clen)?.to_vec();
    let commitments = Node::Sized { name: "commitments".into(), prefix: Prefix::U16, body: vec![Node::Raw { name: "digests".into(), unit: l.digest_bytes, bytes: cbytes }], lie: None };
    let mut items = vec![context, int("num_unique_queries", 1, nuq), commitments];
    // main segment queries are base-field elements, auxiliary ones extension elements
    items.push(parse_queries(&mut r, l, "trace_queries[main]", l.base_bytes)?);
    if aux_w > 0 {
        items.push(parse_queries(&mut r, l, "trace_queries[aux]", elem_bytes)?);
    }
    items.push(parse_queries(&mut r, l, "constraint_queries", elem_bytes)?);
    let n1 = r.int(2)? as usize;
    let f1 = r.take(n1)?.to_vec();
    let n2 = r.int(2)? as usize;
    let f2 = r.take(n2)?.to_vec();
    items.push(Node::Seq { name: "ood_frame".into(), items: vec![frame("trace_states", &f1, elem_bytes), frame("quotient_states", &f2, elem_bytes)] });
    // FRI
    let nlayers = r.int(1)? as usize;
    let mut layers = vec![];
    for i in 0..nlayers {
        let nv = r.int(4)? as usize;
        let vals = r.take(nv)?.to_vec();
        let np = r.int(4)? as usize;
        let paths = r.take(np)?;
        layers.push(Node::Seq {
            name: format!("layer[{i}]"),
            items: vec![Node::Sized { name: "values".into(), prefix: Prefix::U32, body: vec![Node::Raw { name: "elements".into(), unit: elem_bytes, bytes: vals }], lie: None }, sized_bmp("paths", Prefix::U32, paths, l)],
        });
    }
    let nrem = r.int(2)? as usize;
    let rem = r.take(nrem)?.to_vec();
    let parts = r.int(1)?;
    items.push(Node::Seq {
        name: "fri_proof".into(),
        items: vec![
            Node::Count { name: "layers".into(), prefix: Prefix::U8, items: layers, lie: None },
            Node::Sized { name: "remainder".into(), prefix: Prefix::U16, body: vec![Node::Raw { name: "coefficients".into(), unit: elem_bytes, bytes: rem }], lie: None },
            int("log2_partitions", 1, parts),
        ],
    });
    let nonce = r.int(8)?;
    items.push(int("pow_nonce", 8, nonce));
    Ok((Node::Seq { name: "proof".into(), items }, r.p))
}

fn put_prefix(out: &mut Vec<u8>, p: &Prefix, v: u64) {
    match p {
        Prefix::U8 => out.push(v as u8),
        Prefix::U16 => out.extend((v as u16).to_le_bytes()),
        Prefix::U32 => out.extend((v as u32).to_le_bytes()),
        Prefix::Vint => out.extend(vint_encode(v, vint_len(v)).unwrap()),
    }
}

pub fn print(n: &Node, out: &mut Vec<u8>) {
    match n {
        Node::Int { width, value, .. } => out.extend(&value.to_le_bytes()[..*width]),
        Node::Vint { value, enc_len, .. } => out.extend(vint_encode(*value, enc_len.unwrap_or(vint_len(*value))).unwrap_or_else(|| vint_encode(*value, 9).unwrap())),
        Node::Raw { bytes, .. } => out.extend(bytes),
        Node::Sized { prefix, body, lie, .. } => {
            let mut inner = vec![];
            for c in body {
                print(c, &mut inner);
            }
            put_prefix(out, prefix, lie.unwrap_or(inner.len() as u64));
            out.extend(inner);
        },
        Node::Count { prefix, items, lie, .. } => {
            put_prefix(out, prefix, lie.unwrap_or(items.len() as u64));
            for c in items {
                print(c, out);
            }
        },
        Node::Seq { items, .. } => {
            for c in items {
                print(c, out);
            }
        },
    }
}

pub fn to_bytes(n: &Node) -> Vec<u8> {
    let mut v = vec![];
    print(n, &mut v);
    v
}

pub fn name_of(n: &Node) -> &str {
    match n {
        Node::Int { name, .. } | Node::Vint { name, .. } | Node::Raw { name, .. } | Node::Sized { name, .. } | Node::Count { name, .. } | Node::Seq { name, .. } => name,
    }
}

pub fn children(n: &Node) -> &[Node] {
    match n {
        Node::Sized { body, .. } => body,
        Node::Count { items, .. } | Node::Seq { items, .. } => items,
        _ => &[],
    }
}

pub fn children_mut(n: &mut Node) -> Option<&mut Vec<Node>> {
    match n {
        Node::Sized { body, .. } => Some(body),
        Node::Count { items, .. } | Node::Seq { items, .. } => Some(items),
        _ => None,
    }
}

/// all node paths (child indexes from the root), depth-first, with a readable name
pub fn paths(n: &Node) -> Vec<(Vec<usize>, String)> {
    fn rec(n: &Node, path: &mut Vec<usize>, name: String, out: &mut Vec<(Vec<usize>, String)>) {
        out.push((path.clone(), name.clone()));
        for (i, c) in children(n).iter().enumerate() {
            path.push(i);
            rec(c, path, format!("{name}.{}", name_of(c)), out);
            path.pop();
        }
    }
    let mut out = vec![];
    rec(n, &mut vec![], name_of(n).to_string(), &mut out);
    out
}

pub fn get<'a>(n: &'a Node, path: &[usize]) -> &'a Node {
    let mut cur = n;
    for &i in path {
        cur = &children(cur)[i];
    }
    cur
}

pub fn get_mut<'a>(n: &'a mut Node, path: &[usize]) -> &'a mut Node {
    let mut cur = n;
    for &i in path {
        cur = &mut children_mut(cur).unwrap()[i];
    }
    cur
}

/// first node whose dotted name ends with `suffix`
pub fn find(n: &Node, suffix: &str) -> Option<Vec<usize>> {
    paths(n).into_iter().find(|(_, name)| name.ends_with(suffix)).map(|(p, _)| p)
}

pub const BOUNDARY: [u64; 22] = [0, 1, 2, 3, 4, 7, 8, 15, 16, 31, 32, 63, 64, 65, 127, 128, 129, 200, 254, 255, 256, 65535];

/// Every single-node edit of a tree: (description, mutated bytes). The enumeration is a pure
/// function of the tree, in a fixed order.
pub fn edits(root: &Node) -> Vec<(String, Vec<u8>)> {
    let mut out: Vec<(String, Vec<u8>)> = vec![];
    let mut emit = |desc: String, t: &Node| out.push((desc, to_bytes(t)));
    for (path, name) in paths(root) {
        let node = get(root, &path).clone();
        match &node {
            Node::Int { width, value, .. } => {
                let max = if *width == 8 { u64::MAX } else { (1u64 << (8 * width)) - 1 };
                let mut vals: Vec<u64> = BOUNDARY.iter().copied().filter(|v| *v <= max).collect();
                vals.extend([value.wrapping_add(1) & max, value.wrapping_sub(1) & max, max, max / 2, max / 2 + 1, 1 << 31 & max, (1u64 << 32) & max]);
                if *width == 1 {
                    vals = (0..=255).collect();
                }
                if *width == 8 {
                    // values congruent to the original modulo a field modulus (an integer absorbed
                    // into a hash as a field element must not be accepted in any other form)
                    for m in [0xFFFF_FFFF_0000_0001u64, 4611624995532046337u64] {
                        for k in 1..=3u64 {
                            if let Some(v) = m.checked_mul(k).and_then(|km| value.checked_add(km)) {
                                vals.push(v);
                            }
                            if let Some(v) = m.checked_mul(k).and_then(|km| value.checked_sub(km)) {
                                vals.push(v);
                            }
                        }
                    }
                }
                vals.sort();
                vals.dedup();
                for v in vals {
                    if v != *value {
                        let mut t = root.clone();
                        if let Node::Int { value, .. } = get_mut(&mut t, &path) {
                            *value = v;
                        }
                        emit(format!("{name} = {v}"), &t);
                    }
                }
            },
            Node::Vint { value, .. } => {
                let mut vals: Vec<u64> = BOUNDARY.to_vec();
                vals.extend([value + 1, value.saturating_sub(1), 1 << 31, 1 << 32, 1 << 56, (1 << 56) - 1, 1 << 61, 1 << 63, u64::MAX]);
                vals.sort();
                vals.dedup();
                for v in vals {
                    if v != *value {
                        let mut t = root.clone();
                        if let Node::Vint { value, enc_len, .. } = get_mut(&mut t, &path) {
                            *value = v;
                            *enc_len = None;
                        }
                        emit(format!("{name} = {v}"), &t);
                    }
                }
                for len in 1..=9usize {
                    if len != vint_len(*value) && vint_encode(*value, len).is_some() {
                        let mut t = root.clone();
                        if let Node::Vint { enc_len, .. } = get_mut(&mut t, &path) {
                            *enc_len = Some(len);
                        }
                        emit(format!("{name} re-encoded in {len} bytes"), &t);
                    }
                }
            },
            Node::Raw { unit, bytes, .. } => {
                let k = if *unit == 0 { 0 } else { bytes.len() / unit };
                let idxs: Vec<usize> = if k <= 12 { (0..k).collect() } else { vec![0, 1, k / 2, k - 2, k - 1] };
                // the whole field at once (an all-zero field modulus, an all-ones digest list, ...)
                if bytes.len() >= 2 {
                    for (what, fill) in [("all bytes = 0", 0u8), ("all bytes = ff", 0xFF)] {
                        let mut t = root.clone();
                        if let Node::Raw { bytes, .. } = get_mut(&mut t, &path) {
                            bytes.fill(fill);
                        }
                        emit(format!("{name}: {what}"), &t);
                    }
                }
                for &i in &idxs {
                    for (what, f) in [("+1", 0u8), ("=0", 1), ("=ff", 2), ("top byte ^80", 3)] {
                        let mut t = root.clone();
                        if let Node::Raw { bytes, .. } = get_mut(&mut t, &path) {
                            let s = &mut bytes[i * unit..(i + 1) * unit];
                            match f {
                                0 => s[0] = s[0].wrapping_add(1),
                                1 => s.fill(0),
                                2 => s.fill(0xFF),
                                _ => s[unit - 1] ^= 0x80,
                            }
                        }
                        emit(format!("{name}[{i}] {what}"), &t);
                    }
                    // drop / duplicate an item (enclosing byte-length prefixes are recomputed)
                    for dup in [false, true] {
                        let mut t = root.clone();
                        if let Node::Raw { bytes, .. } = get_mut(&mut t, &path) {
                            let item: Vec<u8> = bytes[i * unit..(i + 1) * unit].to_vec();
                            if dup {
                                let at = (i + 1) * unit;
                                bytes.splice(at..at, item);
                            } else {
                                bytes.drain(i * unit..(i + 1) * unit);
                            }
                        }
                        emit(format!("{name}[{i}] {}", if dup { "duplicated" } else { "dropped" }), &t);
                    }
                }
                if k >= 2 {
                    let mut t = root.clone();
                    if let Node::Raw { bytes, .. } = get_mut(&mut t, &path) {
                        let (a, b) = bytes.split_at_mut(*unit);
                        a.swap_with_slice(&mut b[..*unit]);
                    }
                    emit(format!("{name}[0] <-> [1]"), &t);
                }
                // append one junk item / one junk byte
                for extra in [*unit, 1] {
                    if extra == 0 {
                        continue;
                    }
                    let mut t = root.clone();
                    if let Node::Raw { bytes, .. } = get_mut(&mut t, &path) {
                        bytes.extend(vec![0xA5u8; extra]);
                    }
                    emit(format!("{name} + {extra} junk byte(s)"), &t);
                }
            },
            Node::Sized { body, .. } => {
                let mut inner = vec![];
                for c in body {
                    print(c, &mut inner);
                }
                let l = inner.len() as u64;
                for v in [0, 1, l.saturating_sub(1), l + 1, l + 255, 65535, u32::MAX as u64] {
                    if v != l {
                        let mut t = root.clone();
                        if let Node::Sized { lie, .. } = get_mut(&mut t, &path) {
                            *lie = Some(v);
                        }
                        emit(format!("{name} length prefix = {v} (body {l} bytes)"), &t);
                    }
                }
            },
            Node::Count { items, .. } => {
                let k = items.len() as u64;
                for v in [0, 1, k.saturating_sub(1), k + 1, 255, 1 << 20, 1 << 56, u64::MAX >> 3] {
                    if v != k {
                        let mut t = root.clone();
                        if let Node::Count { lie, .. } = get_mut(&mut t, &path) {
                            *lie = Some(v);
                        }
                        emit(format!("{name} count prefix = {v} (items {k})"), &t);
                    }
                }
                for i in 0..items.len() {
                    for dup in [false, true] {
                        let mut t = root.clone();
                        if let Node::Count { items, .. } = get_mut(&mut t, &path) {
                            if dup {
                                let it = items[i].clone();
                                items.insert(i + 1, it);
                            } else {
                                items.remove(i);
                            }
                        }
                        emit(format!("{name} item {i} {}", if dup { "duplicated" } else { "dropped" }), &t);
                    }
                }
                if items.len() >= 2 {
                    let mut t = root.clone();
                    if let Node::Count { items, .. } = get_mut(&mut t, &path) {
                        items.swap(0, 1);
                    }
                    emit(format!("{name} items 0 <-> 1"), &t);
                }
                // one more (junk) item cloned from the last, if any
                if let Some(last) = items.last() {
                    let mut t = root.clone();
                    if let Node::Count { items, .. } = get_mut(&mut t, &path) {
                        items.push(last.clone());
                    }
                    emit(format!("{name} + a copy of its last item"), &t);
                }
            },
            Node::Seq { .. } => {},
        }
    }
    out
}

#[cfg(test)]
mod tests {
    use super::*;
    #[test]
    fn vint() {
        for v in [0u64, 1, 127, 128, 16383, 16384, (1 << 56) - 1, 1 << 56, u64::MAX] {
            let e = vint_encode(v, vint_len(v)).unwrap();
            let mut r = Rd { b: &e, p: 0 };
            assert_eq!(r.vint().unwrap(), (v, e.len()));
        }
    }
}
