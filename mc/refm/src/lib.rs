//! refm — reference models (DESIGN.md section 3). Deliberately naive; shares no algorithm with
//! the winterfell code it judges and does not depend on winterfell at all.

pub mod codec;
pub mod field;
pub mod poly;
pub mod rescue;
pub mod merkle;
pub mod proofcodec;
