//! R6 — Rescue-Prime round function from its definition: power S-box x^alpha, its exact inverse
//! x^(alpha^-1 mod p-1) by plain square-and-multiply, dense matrix-vector product, round
//! constants added; plus the three absorption rules winterfell documents.

use crate::field::Prime;

#[derive(Clone, Debug)]
pub struct Rescue {
    pub p: Prime,
    pub width: usize,
    pub alpha: u128,
    pub inv_alpha: u128,
    pub mds: Vec<Vec<u128>>,
    pub ark1: Vec<Vec<u128>>,
    pub ark2: Vec<Vec<u128>>,
}

/// inverse of `a` modulo `n` by the extended Euclidean algorithm
pub fn inv_mod(a: u128, n: u128) -> Option<u128> {
    let (mut r0, mut r1) = (n as i128, (a % n) as i128);
    let (mut t0, mut t1) = (0i128, 1i128);
    while r1 != 0 {
        let q = r0 / r1;
        (r0, r1) = (r1, r0 - q * r1);
        (t0, t1) = (t1, t0 - q * t1);
    }
    if r0 != 1 {
        return None;
    }
    Some(t0.rem_euclid(n as i128) as u128)
}

impl Rescue {
    pub fn new(p: Prime, alpha: u128, mds: Vec<Vec<u128>>, ark1: Vec<Vec<u128>>, ark2: Vec<Vec<u128>>) -> Rescue {
        let inv_alpha = inv_mod(alpha, p.m - 1).expect("alpha must be invertible modulo p-1");
        assert_eq!((alpha * inv_alpha) % (p.m - 1), 1);
        Rescue { p, width: mds.len(), alpha, inv_alpha, mds, ark1, ark2 }
    }

    pub fn rounds(&self) -> usize {
        self.ark1.len()
    }

    fn mds_mul(&self, s: &[u128]) -> Vec<u128> {
        (0..self.width)
            .map(|i| {
                let mut acc = 0u128;
                for j in 0..self.width {
                    acc = self.p.add(acc, self.p.mul(self.mds[i][j], s[j]));
                }
                acc
            })
            .collect()
    }

    pub fn round(&self, s: &mut Vec<u128>, r: usize) {
        for x in s.iter_mut() {
            *x = self.p.pow(*x, self.alpha);
        }
        *s = self.mds_mul(s);
        for (x, k) in s.iter_mut().zip(&self.ark1[r]) {
            *x = self.p.add(*x, *k);
        }
        for x in s.iter_mut() {
            *x = self.p.pow(*x, self.inv_alpha);
        }
        *s = self.mds_mul(s);
        for (x, k) in s.iter_mut().zip(&self.ark2[r]) {
            *x = self.p.add(*x, *k);
        }
    }

    pub fn permute(&self, s: &mut Vec<u128>) {
        for r in 0..self.rounds() {
            self.round(s, r);
        }
    }
}

/// The documented layout of one hasher.
#[derive(Clone, Debug)]
pub struct Layout {
    pub rate: std::ops::Range<usize>,
    pub digest: std::ops::Range<usize>,
    /// where the element count (sponge variants) or the "partial block" flag (Jive) goes
    pub count_at: usize,
    pub jive: bool,
}

/// Documented conversion of a byte string into field elements: 7-byte little-endian chunks; the
/// last chunk is followed by a single 1 byte (so a full last chunk becomes an 8-byte value).
pub fn bytes_to_elements(bytes: &[u8]) -> Vec<u128> {
    let n = bytes.len().div_ceil(7);
    bytes
        .chunks(7)
        .enumerate()
        .map(|(i, c)| {
            let mut buf = [0u8; 8];
            buf[..c.len()].copy_from_slice(c);
            if i == n - 1 {
                buf[c.len()] = 1;
            }
            u64::from_le_bytes(buf) as u128
        })
        .collect()
}

impl Rescue {
    /// Sponge over a list of canonical values, following `layout`.
    pub fn hash_elements(&self, l: &Layout, vals: &[u128]) -> Vec<u128> {
        let rate = l.rate.len();
        let mut s = vec![0u128; self.width];
        if l.jive {
            // Hirose-style: capacity flag 1 iff the input is not a whole number of blocks
            if vals.len() % rate != 0 {
                s[l.count_at] = 1;
            }
        } else {
            s[l.count_at] = self.p.reduce(vals.len() as u128);
        }
        let mut i = 0;
        for v in vals {
            s[l.rate.start + i] = self.p.add(s[l.rate.start + i], self.p.reduce(*v));
            i += 1;
            if i == rate {
                self.permute(&mut s);
                i = 0;
            }
        }
        if i > 0 {
            if l.jive {
                // the rest of the block is overwritten with 1, 0, 0, …
                s[l.rate.start + i] = 1;
                for k in i + 1..rate {
                    s[l.rate.start + k] = 0;
                }
            }
            self.permute(&mut s);
        }
        s[l.digest.clone()].to_vec()
    }

    pub fn hash_bytes(&self, l: &Layout, bytes: &[u8]) -> Vec<u128> {
        self.hash_elements(l, &bytes_to_elements(bytes))
    }
}
