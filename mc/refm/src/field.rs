//! R1 — field reference: schoolbook modular arithmetic on canonical integers for the three
//! documented primes, extension arithmetic as polynomial arithmetic modulo the documented
//! irreducible polynomials. Never touches a winterfell element.

pub const M64: u128 = 0xFFFF_FFFF_0000_0001; // 2^64 - 2^32 + 1
pub const M62: u128 = 4611624995532046337; // 2^62 - 111 * 2^39 + 1
pub const M128: u128 = 340282366920938463463374557953744961537; // 2^128 - 45 * 2^40 + 1

#[derive(Clone, Copy, Debug, PartialEq, Eq)]
pub struct Prime {
    pub m: u128,
}

impl Prime {
    pub const fn new(m: u128) -> Prime {
        Prime { m }
    }

    pub fn add(&self, a: u128, b: u128) -> u128 {
        debug_assert!(a < self.m && b < self.m);
        // a + b may not fit 128 bits
        if a >= self.m - b {
            a - (self.m - b)
        } else {
            a + b
        }
    }

    pub fn neg(&self, a: u128) -> u128 {
        if a == 0 {
            0
        } else {
            self.m - a
        }
    }

    pub fn sub(&self, a: u128, b: u128) -> u128 {
        self.add(a, self.neg(b))
    }

    pub fn mul(&self, a: u128, b: u128) -> u128 {
        if self.m <= u64::MAX as u128 {
            return (a * b) % self.m;
        }
        let c = 0u128.wrapping_sub(self.m); // 2^128 - m
        if c < (1 << 64) {
            return self.mul_fold(a, b, c);
        }
        self.mul_slow(a, b)
    }

    /// double-and-add, most significant bit first (the definition; used to cross-check `mul_fold`)
    pub fn mul_slow(&self, a: u128, b: u128) -> u128 {
        let mut r = 0u128;
        for i in (0..128).rev() {
            r = self.add(r, r);
            if (b >> i) & 1 == 1 {
                r = self.add(r, a);
            }
        }
        r
    }

    /// 256-bit schoolbook product, then 2^128 ≡ c (mod m) folded in until the value fits.
    fn mul_fold(&self, a: u128, b: u128, c: u128) -> u128 {
        let (mut hi, mut lo) = mul_wide(a, b);
        while hi != 0 {
            // hi·2^128 + lo ≡ hi·c + lo
            let (h2, l2) = mul_wide(hi, c);
            let (sum, carry) = l2.overflowing_add(lo);
            lo = sum;
            hi = h2 + carry as u128;
        }
        lo % self.m
    }

    pub fn pow(&self, a: u128, mut e: u128) -> u128 {
        let mut r = 1u128 % self.m;
        let mut b = a;
        while e > 0 {
            if e & 1 == 1 {
                r = self.mul(r, b);
            }
            b = self.mul(b, b);
            e >>= 1;
        }
        r
    }

    /// Fermat inverse; zero maps to zero.
    pub fn inv(&self, a: u128) -> u128 {
        self.pow(a, self.m - 2)
    }

    pub fn reduce(&self, x: u128) -> u128 {
        x % self.m
    }
}

/// (hi, lo) of the 256-bit product a·b
pub fn mul_wide(a: u128, b: u128) -> (u128, u128) {
    let (a1, a0) = (a >> 64, a & u64::MAX as u128);
    let (b1, b0) = (b >> 64, b & u64::MAX as u128);
    let p00 = a0 * b0;
    let p01 = a0 * b1;
    let p10 = a1 * b0;
    let p11 = a1 * b1;
    let mid = (p00 >> 64) + (p01 & u64::MAX as u128) + (p10 & u64::MAX as u128);
    let lo = (p00 & u64::MAX as u128) | (mid << 64);
    let hi = p11 + (p01 >> 64) + (p10 >> 64) + (mid >> 64);
    (hi, lo)
}

/// Extension field F_p[x] / (x^d - (c_0 + c_1 x + … + c_{d-1} x^{d-1})), d ∈ {2, 3}.
#[derive(Clone, Debug, PartialEq, Eq)]
pub struct Ext {
    pub p: Prime,
    /// x^d ≡ rule[0] + rule[1]·x + …
    pub rule: Vec<u128>,
}

impl Ext {
    pub fn degree(&self) -> usize {
        self.rule.len()
    }

    /// f64: x² = x − 2
    pub fn f64_quad() -> Ext {
        Ext { p: Prime::new(M64), rule: vec![M64 - 2, 1] }
    }
    /// f64: x³ = x + 1
    pub fn f64_cube() -> Ext {
        Ext { p: Prime::new(M64), rule: vec![1, 1, 0] }
    }
    /// f62: x² = x + 1
    pub fn f62_quad() -> Ext {
        Ext { p: Prime::new(M62), rule: vec![1, 1] }
    }
    /// f62: x³ = −2x − 2
    pub fn f62_cube() -> Ext {
        Ext { p: Prime::new(M62), rule: vec![M62 - 2, M62 - 2, 0] }
    }
    /// f128: x² = x + 1
    pub fn f128_quad() -> Ext {
        Ext { p: Prime::new(M128), rule: vec![1, 1] }
    }

    pub fn zero(&self) -> Vec<u128> {
        vec![0; self.degree()]
    }
    pub fn one(&self) -> Vec<u128> {
        let mut v = self.zero();
        v[0] = 1;
        v
    }

    pub fn add(&self, a: &[u128], b: &[u128]) -> Vec<u128> {
        a.iter().zip(b).map(|(x, y)| self.p.add(*x, *y)).collect()
    }
    pub fn sub(&self, a: &[u128], b: &[u128]) -> Vec<u128> {
        a.iter().zip(b).map(|(x, y)| self.p.sub(*x, *y)).collect()
    }
    pub fn neg(&self, a: &[u128]) -> Vec<u128> {
        a.iter().map(|x| self.p.neg(*x)).collect()
    }

    pub fn mul(&self, a: &[u128], b: &[u128]) -> Vec<u128> {
        let d = self.degree();
        let mut prod = vec![0u128; 2 * d - 1];
        for i in 0..d {
            for j in 0..d {
                prod[i + j] = self.p.add(prod[i + j], self.p.mul(a[i], b[j]));
            }
        }
        // reduce from the top: x^k = x^(k-d) * rule
        for k in (d..2 * d - 1).rev() {
            let c = prod[k];
            prod[k] = 0;
            for (i, r) in self.rule.iter().enumerate() {
                prod[k - d + i] = self.p.add(prod[k - d + i], self.p.mul(c, *r));
            }
        }
        prod.truncate(d);
        prod
    }

    pub fn mul_base(&self, a: &[u128], b: u128) -> Vec<u128> {
        a.iter().map(|x| self.p.mul(*x, b)).collect()
    }

    pub fn pow(&self, a: &[u128], mut e: u128) -> Vec<u128> {
        let mut r = self.one();
        let mut b = a.to_vec();
        while e > 0 {
            if e & 1 == 1 {
                r = self.mul(&r, &b);
            }
            b = self.mul(&b, &b);
            e >>= 1;
        }
        r
    }

    /// The p-th power map, literally.
    pub fn frobenius(&self, a: &[u128]) -> Vec<u128> {
        self.pow(a, self.p.m)
    }

    /// Inverse by solving the linear system (multiplication-by-a matrix) · b = 1 with Gaussian
    /// elimination; zero maps to zero.
    pub fn inv(&self, a: &[u128]) -> Vec<u128> {
        let d = self.degree();
        if a.iter().all(|x| *x == 0) {
            return self.zero();
        }
        // column j of the matrix = a * x^j
        let mut m = vec![vec![0u128; d + 1]; d];
        for j in 0..d {
            let mut xj = self.zero();
            xj[j] = 1;
            let col = self.mul(a, &xj);
            for i in 0..d {
                m[i][j] = col[i];
            }
        }
        m[0][d] = 1;
        for c in 0..d {
            let piv = (c..d).find(|r| m[*r][c] != 0).expect("not invertible: polynomial reducible?");
            m.swap(c, piv);
            let inv = self.p.inv(m[c][c]);
            for k in 0..=d {
                m[c][k] = self.p.mul(m[c][k], inv);
            }
            for r in 0..d {
                if r != c && m[r][c] != 0 {
                    let f = m[r][c];
                    for k in 0..=d {
                        let t = self.p.mul(f, m[c][k]);
                        m[r][k] = self.p.sub(m[r][k], t);
                    }
                }
            }
        }
        (0..d).map(|i| m[i][d]).collect()
    }
}

/// Trial-division factorisation (for the Lucas certificates of C11). `n`'s odd part must only
/// have prime factors below `limit`, otherwise the cofactor is returned as the last "factor"
/// together with `false`.
pub fn factor(mut n: u128, limit: u128) -> (Vec<u128>, bool) {
    let mut fs = vec![];
    let mut p = 2u128;
    while p * p <= n && p <= limit {
        if n % p == 0 {
            fs.push(p);
            while n % p == 0 {
                n /= p;
            }
        }
        p += if p == 2 { 1 } else { 2 };
    }
    if n > 1 {
        let complete = p * p > n; // n is prime: no divisor up to its square root
        fs.push(n);
        return (fs, complete);
    }
    (fs, true)
}

#[cfg(test)]
mod tests {
    use super::*;
    #[test]
    fn basics() {
        for m in [M64, M62, M128] {
            let p = Prime::new(m);
            assert_eq!(p.mul(m - 1, m - 1), 1);
            assert_eq!(p.mul(p.inv(12345), 12345), 1);
            assert_eq!(p.inv(0), 0);
            assert_eq!(p.add(m - 1, 1), 0);
            assert_eq!(p.sub(0, 1), m - 1);
        }
        // fast 128-bit multiplication agrees with the definition
        let p = Prime::new(M128);
        let mut x = 0x1234_5678_9abc_def0_0fed_cba9_8765_4321u128 % M128;
        for i in 0..2000u128 {
            let y = x.wrapping_mul(0x9E37_79B9_7F4A_7C15_F39C_C060_5CED_C835).wrapping_add(i) % M128;
            assert_eq!(p.mul(x, y), p.mul_slow(x, y));
            assert_eq!(p.mul(M128 - 1 - i, y), p.mul_slow(M128 - 1 - i, y));
            x = y;
        }
        for e in [Ext::f64_quad(), Ext::f64_cube(), Ext::f62_quad(), Ext::f62_cube(), Ext::f128_quad()] {
            let d = e.degree();
            let a: Vec<u128> = (0..d).map(|i| 3 + 7 * i as u128).collect();
            assert_eq!(e.mul(&a, &e.inv(&a)), e.one());
            // Frobenius is a ring homomorphism fixing the base field
            let b: Vec<u128> = (0..d).map(|i| 11 + 5 * i as u128).collect();
            assert_eq!(e.frobenius(&e.mul(&a, &b)), e.mul(&e.frobenius(&a), &e.frobenius(&b)));
            let mut c = e.zero();
            c[0] = 42;
            assert_eq!(e.frobenius(&c), c);
        }
    }
}
