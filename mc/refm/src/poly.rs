//! R2 — polynomial reference: dense coefficient vectors, everything by definition.
//!
//! Generic over a tiny field interface so that it can run over R1 integers (`RefField`) or —
//! once C10 vouches for them — over winterfell elements wrapped by a harness.

pub trait F: Clone + PartialEq + std::fmt::Debug {
    fn zero(&self) -> Self;
    fn one(&self) -> Self;
    fn add(&self, o: &Self) -> Self;
    fn sub(&self, o: &Self) -> Self;
    fn mul(&self, o: &Self) -> Self;
    fn inv(&self) -> Self;
    fn is_zero(&self) -> bool;
}

/// Σ c_i x^i, term by term (no Horner).
pub fn eval<T: F>(p: &[T], x: &T) -> T {
    let mut acc = x.zero();
    let mut xp = x.one();
    for c in p {
        acc = acc.add(&c.mul(&xp));
        xp = xp.mul(x);
    }
    acc
}

/// degree by definition; the zero polynomial (and the empty vector) has degree 0 here, matching
/// the documented convention of `degree_of`.
pub fn degree<T: F>(p: &[T]) -> usize {
    for i in (0..p.len()).rev() {
        if !p[i].is_zero() {
            return i;
        }
    }
    0
}

pub fn trim<T: F>(p: &[T]) -> Vec<T> {
    let mut v = p.to_vec();
    while let Some(l) = v.last() {
        if l.is_zero() {
            v.pop();
        } else {
            break;
        }
    }
    v
}

pub fn add<T: F>(a: &[T], b: &[T], z: &T) -> Vec<T> {
    let n = a.len().max(b.len());
    (0..n)
        .map(|i| {
            let x = a.get(i).cloned().unwrap_or_else(|| z.zero());
            let y = b.get(i).cloned().unwrap_or_else(|| z.zero());
            x.add(&y)
        })
        .collect()
}

pub fn sub<T: F>(a: &[T], b: &[T], z: &T) -> Vec<T> {
    let n = a.len().max(b.len());
    (0..n)
        .map(|i| {
            let x = a.get(i).cloned().unwrap_or_else(|| z.zero());
            let y = b.get(i).cloned().unwrap_or_else(|| z.zero());
            x.sub(&y)
        })
        .collect()
}

pub fn mul<T: F>(a: &[T], b: &[T], z: &T) -> Vec<T> {
    if a.is_empty() || b.is_empty() {
        return vec![];
    }
    let mut out = vec![z.zero(); a.len() + b.len() - 1];
    for (i, x) in a.iter().enumerate() {
        for (j, y) in b.iter().enumerate() {
            out[i + j] = out[i + j].add(&x.mul(y));
        }
    }
    out
}

/// Lagrange interpolation by definition: Σ_i y_i Π_{j≠i} (x − x_j)/(x_i − x_j).
pub fn lagrange<T: F>(xs: &[T], ys: &[T], z: &T) -> Vec<T> {
    let n = xs.len();
    let mut acc = vec![z.zero(); n];
    for i in 0..n {
        let mut num = vec![z.one()];
        let mut den = z.one();
        for j in 0..n {
            if j != i {
                num = mul(&num, &[z.zero().sub(&xs[j]), z.one()], z);
                den = den.mul(&xs[i].sub(&xs[j]));
            }
        }
        let k = ys[i].mul(&den.inv());
        for (d, c) in num.iter().enumerate() {
            acc[d] = acc[d].add(&c.mul(&k));
        }
    }
    acc
}

pub fn polys_equal<T: F>(a: &[T], b: &[T]) -> bool {
    trim(a) == trim(b)
}

/// Euclidean division by definition (long division): returns (quotient, remainder) with
/// a = q·b + r and deg r < deg b (trimmed vectors). `b` must not be the zero polynomial.
pub fn divrem<T: F>(a: &[T], b: &[T], z: &T) -> (Vec<T>, Vec<T>) {
    let b = trim(b);
    assert!(!b.is_empty(), "reference division by the zero polynomial");
    let mut r = trim(a);
    let mut q = vec![z.zero(); a.len().max(1)];
    let lb_inv = b[b.len() - 1].inv();
    while r.len() >= b.len() {
        let shift = r.len() - b.len();
        let c = r[r.len() - 1].mul(&lb_inv);
        q[shift] = q[shift].add(&c);
        for (i, x) in b.iter().enumerate() {
            r[shift + i] = r[shift + i].sub(&c.mul(x));
        }
        r = trim(&r);
    }
    (trim(&q), r)
}

/// Π (x − r_i), by repeated schoolbook multiplication.
pub fn from_roots<T: F>(roots: &[T], z: &T) -> Vec<T> {
    let mut p = vec![z.one()];
    for r in roots {
        p = mul(&p, &[z.zero().sub(r), z.one()], z);
    }
    p
}
