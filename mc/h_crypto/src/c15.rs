//! C15 — BLAKE3 (256/192) and SHA3-256 hashers equal the underlying primitive applied to the
//! documented byte layout, for every input shape in the bound; hash_elements depends only on
//! element values.

use mck::{json, Args, Report};
use sha3::Digest as _;
use winter_crypto::hashers::{Blake3_192, Blake3_256, Sha3_256};
use winter_crypto::{Digest, ElementHasher, Hasher};
use winter_math::fields::{f128, f62, f64, CubeExtension, QuadExtension};
use winter_math::{ExtensibleField, FieldElement};

use crate::util::{canonical_bytes, representation_classes, Base, Sweep};

fn blake(b: &[u8]) -> [u8; 32] {
    *blake3::hash(b).as_bytes()
}
fn sha(b: &[u8]) -> [u8; 32] {
    sha3::Sha3_256::digest(b).into()
}

fn pattern(len: usize, salt: u8) -> Vec<u8> {
    (0..len).map(|i| (i as u8).wrapping_mul(37).wrapping_add(salt)).collect()
}

pub const INTS: [u64; 12] = [0, 1, 2, 255, 1 << 32, (1 << 62) - 1, 4611624995532046337, 1 << 63, 0xFFFF_FFFF_0000_0000, 0xFFFF_FFFF_0000_0001, 0xFFFF_FFFF_0000_0002, u64::MAX];

fn sweep<B, H>(hname: &str, n: usize, prim: fn(&[u8]) -> [u8; 32], max_len: usize, s: &mut Sweep)
where
    B: Base + ExtensibleField<2>,
    H: ElementHasher<BaseField = B>,
    H::Digest: Digest,
{
    let name = format!("{hname}<{}>", B::NAME);
    // digests are compared through their 32-byte view, zero padded beyond N
    let view = |d: H::Digest| -> [u8; 32] { d.as_bytes() };
    let expect = |bytes: &[u8]| -> [u8; 32] {
        let mut e = prim(bytes);
        for x in e.iter_mut().skip(n) {
            *x = 0;
        }
        e
    };
    // a digest alphabet, built by hashing (digest constructors are type specific)
    let alpha: Vec<H::Digest> = vec![H::hash(&[]), H::hash(&[0]), H::hash(&[0xFF; 40]), H::hash(b"winterfell")];
    let raw = |d: &H::Digest| -> Vec<u8> { d.as_bytes()[..n].to_vec() };
    // --- hash -------------------------------------------------------------------------------------
    for len in 0..=max_len {
        for salt in [0u8, 1] {
            let b = pattern(len, salt);
            s.evals += 1;
            s.nontrivial += 1;
            if view(H::hash(&b)) != expect(&b) {
                s.fail(format!("wrong:{hname}:hash"), format!("{name}/hash/len={len}/salt={salt}"), format!("{name}::hash of a {len}-byte string differs from the primitive on the same bytes"));
            }
        }
    }
    // --- merge, merge_many ---------------------------------------------------------------------------
    for a in &alpha {
        for b in &alpha {
            s.evals += 1;
            s.nontrivial += 1;
            let mut cat = raw(a);
            cat.extend(raw(b));
            if view(H::merge(&[*a, *b])) != expect(&cat) {
                s.fail(format!("wrong:{hname}:merge"), format!("{name}/merge"), format!("{name}::merge differs from the primitive on the two concatenated digests"));
            }
        }
    }
    for len in 0..=5usize {
        for rot in 0..alpha.len() {
            let list: Vec<H::Digest> = (0..len).map(|i| alpha[(i + rot) % alpha.len()]).collect();
            let cat: Vec<u8> = list.iter().flat_map(|d| raw(d)).collect();
            s.evals += 1;
            s.nontrivial += 1;
            if view(H::merge_many(&list)) != expect(&cat) {
                s.fail(format!("wrong:{hname}:merge_many"), format!("{name}/merge_many/len={len}"), format!("{name}::merge_many of {len} digests differs from the primitive on their concatenation"));
            }
        }
    }
    // --- merge_with_int -----------------------------------------------------------------------------------
    for a in &alpha {
        for v in INTS {
            s.evals += 1;
            s.nontrivial += 1;
            let mut cat = raw(a);
            cat.extend(v.to_le_bytes());
            if view(H::merge_with_int(*a, v)) != expect(&cat) {
                s.fail(format!("wrong:{hname}:merge_with_int"), format!("{name}/merge_with_int/{v}"), format!("{name}::merge_with_int(seed, {v}) differs from the primitive on digest || little-endian integer"));
            }
        }
    }
    // --- hash_elements: base elements in every representation class -------------------------------------------
    let classes = representation_classes::<B>();
    let flat: Vec<B> = classes.iter().flatten().copied().collect();
    let noncanonical = flat.iter().filter(|e| B::raw(**e) >= B::M).count();
    for len in 0..=20usize {
        for rot in 0..flat.len().min(12) {
            let list: Vec<B> = (0..len).map(|i| flat[(i * 3 + rot) % flat.len()]).collect();
            s.evals += 1;
            if list.iter().any(|e| B::raw(*e) >= B::M) {
                s.nontrivial += 1;
            }
            let bytes = canonical_bytes::<B, B>(&list);
            if view(H::hash_elements(&list)) != expect(&bytes) {
                s.fail(format!("wrong:{hname}:hash_elements"), format!("{name}/hash_elements/len={len}/rot={rot}"),
                    format!("{name}::hash_elements of {len} base elements (raw limbs {:?}) differs from the primitive on their canonical little-endian encodings", list.iter().map(|e| format!("{:#x}", B::raw(*e))).collect::<Vec<_>>()));
            }
        }
    }
    // same values, different representations => same digest
    for class in &classes {
        for e in class {
            for f in class {
                s.evals += 1;
                if B::raw(*e) != B::raw(*f) {
                    s.nontrivial += 1;
                }
                let l1 = [B::ONE, *e, B::ZERO];
                let l2 = [B::ONE, *f, B::ZERO];
                if view(H::hash_elements(&l1)) != view(H::hash_elements(&l2)) {
                    s.fail(format!("representation_dependent:{hname}:hash_elements"), format!("{name}/value={}", B::int(*e)),
                        format!("{name}::hash_elements gives different digests for two representations ({:#x}, {:#x}) of the value {}", B::raw(*e), B::raw(*f), B::int(*e)));
                }
            }
        }
    }
    // extension elements
    let q: Vec<QuadExtension<B>> = (0..flat.len()).map(|i| QuadExtension::new(flat[i], flat[(i * 5 + 1) % flat.len()])).collect();
    // every length up to 140 (thorough 300): past one 1024-byte BLAKE3 chunk and one 136-byte SHA3 block
    for len in 0..=(if max_len > 200 { 300usize } else { 140 }) {
        let list: Vec<QuadExtension<B>> = (0..len).map(|i| q[(i * 7 + 2) % q.len()]).collect();
        s.evals += 1;
        s.nontrivial += 1;
        if view(H::hash_elements(&list)) != expect(&canonical_bytes::<B, QuadExtension<B>>(&list)) {
            s.fail(format!("wrong:{hname}:hash_elements_quadratic"), format!("{name}/quad/len={len}"), format!("{name}::hash_elements of {len} quadratic elements differs from the primitive on the canonical encodings"));
        }
    }
    let _ = noncanonical;
}

fn cubic<B, H>(hname: &str, n: usize, prim: fn(&[u8]) -> [u8; 32], s: &mut Sweep)
where
    B: Base + ExtensibleField<3> + ExtensibleField<2>,
    H: ElementHasher<BaseField = B>,
{
    let flat: Vec<B> = representation_classes::<B>().into_iter().flatten().collect();
    for len in 0..=140usize {
        let list: Vec<CubeExtension<B>> = (0..len).map(|i| CubeExtension::new(flat[i % flat.len()], flat[(i * 5 + 1) % flat.len()], flat[(i * 11 + 3) % flat.len()])).collect();
        s.evals += 1;
        s.nontrivial += 1;
        let mut e = prim(&canonical_bytes::<B, CubeExtension<B>>(&list));
        for x in e.iter_mut().skip(n) {
            *x = 0;
        }
        if H::hash_elements(&list).as_bytes() != e {
            s.fail(format!("wrong:{hname}:hash_elements_cubic"), format!("{hname}<{}>/cubic/len={len}", B::NAME), format!("{hname}<{}>::hash_elements of {len} cubic elements differs from the primitive on the canonical encodings", B::NAME));
        }
    }
}

pub fn run(args: &Args) {
    let mut report = Report::new(args, "exploration");
    let max_len = if args.tier == mck::Tier::Thorough { 4200 } else { 200 };
    type B64 = f64::BaseElement;
    type B62 = f62::BaseElement;
    type B128 = f128::BaseElement;
    let mut s = Sweep::new();
    macro_rules! all_fields {
        ($h:ident, $name:expr, $n:expr, $prim:expr) => {
            sweep::<B64, $h<B64>>($name, $n, $prim, max_len, &mut s);
            sweep::<B62, $h<B62>>($name, $n, $prim, max_len, &mut s);
            sweep::<B128, $h<B128>>($name, $n, $prim, max_len, &mut s);
            cubic::<B64, $h<B64>>($name, $n, $prim, &mut s);
            cubic::<B62, $h<B62>>($name, $n, $prim, &mut s);
        };
    }
    all_fields!(Blake3_256, "Blake3_256", 32, blake);
    all_fields!(Blake3_192, "Blake3_192", 24, blake);
    all_fields!(Sha3_256, "Sha3_256", 32, sha);
    // the representation classes must not be vacuous where the field allows non-canonical forms
    let nc62 = representation_classes::<B62>().iter().flatten().filter(|e| B62::raw(**e) >= B62::M).count();
    if nc62 == 0 {
        mck::report::machinery("no non-canonical f62 representation was produced: the representation-independence part would be vacuous");
    }
    report.extra.insert("f62_noncanonical_representations_used".into(), json!(nc62));
    s.into_report("byte hashers x fields", json!({"hash_lengths": format!("0..={max_len}"), "merge_many_lists": "0..=5", "hash_elements_lists": "0..=20 base, every length 0..=140 (thorough 300) quadratic, 0..=140 cubic"}), &mut report);
    report.sample(json!({"hasher": "Blake3_192<f62>", "function": "hash_elements", "elements": "[1, M-1 stored as a non-canonical limb, 0]", "oracle": "first 24 bytes of blake3 over the canonical little-endian encodings"}));
    report.sample(json!({"hasher": "Sha3_256<f64>", "function": "merge_with_int", "value": "18446744069414584321 (= M)", "oracle": "sha3-256(digest || u64 little-endian)"}));
    report.exhaustive = true;
    report.rule = "one case per (hasher, field, function, input shape); non-trivial for hash_elements = the list contains at least one element in a non-canonical representation (or two different representations are compared); for the byte functions every case compares a digest with the primitive".into();
    report.assumptions = vec!["the blake3 and sha3 crates are the primitives".into(), "byte contents are two fixed patterns per length".into()];
    report.finish(args)
}
