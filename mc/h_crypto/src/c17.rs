//! C17 — padding separates inputs that differ only in length, trailing zeros or list splitting;
//! merge_with_int separates integers congruent modulo the field prime. Closed families, all
//! digests of a family must be pairwise distinct.

use std::collections::BTreeMap;

use mck::{json, Args, Report};
use winter_crypto::hashers::{Blake3_192, Blake3_256, Rp62_248, Rp64_256, RpJive64_256, Sha3_256};
use winter_crypto::{Digest, ElementHasher, Hasher};
use winter_math::fields::{f62, f64};
use winter_math::FieldElement;

use crate::util::{Base, Sweep};

fn family<K: std::fmt::Debug>(s: &mut Sweep, hname: &str, fam: &str, items: Vec<(K, Result<[u8; 32], mck::Panicked>)>) {
    let mut seen: BTreeMap<[u8; 32], String> = BTreeMap::new();
    for (k, d) in items {
        s.evals += 1;
        s.nontrivial += 1;
        match d {
            Err(p) => s.fail(format!("panic:{hname}:{fam}:{}", p.location), format!("{hname}/{fam}/{k:?}"), format!("{hname} panicked at {} ({}) on member {k:?} of family '{fam}'", p.location, p.message)),
            Ok(d) => {
                if let Some(prev) = seen.insert(d, format!("{k:?}")) {
                    s.fail(format!("collision:{hname}:{fam}"), format!("{hname}/{fam}/{k:?}"), format!("{hname}: members {prev} and {k:?} of family '{fam}' have the same digest"));
                }
            },
        }
    }
}

fn families<B: Base, H: ElementHasher<BaseField = B>>(hname: &str, rate_elems: usize, max_len: usize, s: &mut Sweep)
where
    H::Digest: Digest,
{
    let h = |b: Vec<u8>| mck::catch(|| H::hash(&b).as_bytes());
    // zero strings of every length
    family(s, hname, "zero strings", (0..=max_len).map(|n| (n, h(vec![0u8; n]))).collect());
    // x || 0^k
    for x in [vec![1u8], vec![0xAB; 7], vec![0x11; 13], vec![0xFF; 56]] {
        family(s, hname, "x || 0^k", (0..=80).map(|k| { let mut b = x.clone(); b.extend(vec![0u8; k]); ((x.len(), k), h(b)) }).collect());
    }
    // all prefixes of a fixed string
    let fixed: Vec<u8> = (0..max_len).map(|i| (i as u8).wrapping_mul(73).wrapping_add(5)).collect();
    family(s, hname, "prefixes", (0..=max_len).map(|n| (n, h(fixed[..n].to_vec()))).collect());
    // all-ones strings (a terminator byte of 1 must not be confused with content)
    family(s, hname, "0x01 strings", (0..=max_len).map(|n| (n, h(vec![1u8; n]))).collect());
    // element lists: 0^k and 1 || 0^k up to 3 rates
    let he = |l: Vec<B>| mck::catch(|| H::hash_elements(&l).as_bytes());
    family(s, hname, "zero element lists", (0..=3 * rate_elems + 1).map(|k| (k, he(vec![B::ZERO; k]))).collect());
    family(s, hname, "1 || 0^k element lists", (0..=3 * rate_elems + 1).map(|k| { let mut l = vec![B::ONE]; l.extend(vec![B::ZERO; k]); (k, he(l)) }).collect());
    family(s, hname, "1^k element lists", (0..=3 * rate_elems + 1).map(|k| (k, he(vec![B::ONE; k]))).collect());
    // merge_many over every contiguous split point is the same list => same digest is expected;
    // what must differ is lists of different length made of the same digest, and a list vs its prefix
    let d = H::hash(b"d");
    family(s, hname, "merge_many d^k", (0..=6).map(|k| (k, mck::catch(|| H::merge_many(&vec![d; k]).as_bytes()))).collect());
    let z = H::Digest::default();
    family(s, hname, "merge_many zero-digest^k", (0..=6).map(|k| (k, mck::catch(|| H::merge_many(&vec![z; k]).as_bytes()))).collect());
    // merge_with_int on x, x+p, ..., x+4p where they fit 64 bits
    let p = B::M;
    let mut ints: Vec<u64> = vec![];
    // residues: small ones, and the residue of every integer within 2 of t*2^k (k = 32, 61..64) and
    // of t*p, t <= 4 - the places where a shortcut for "divide by p" or "fits one element" can differ
    let mut residues: Vec<u128> = vec![0, 1, 2, 5, (1 << 32) - 1];
    for t in 0..=4u128 {
        for base in [t << 32, t << 61, t << 62, t << 63, t << 64, t * p] {
            for e in 0..=4u128 {
                let v = (base + e).saturating_sub(2);
                if v <= u64::MAX as u128 {
                    residues.push(v % p);
                }
            }
        }
    }
    residues.sort();
    residues.dedup();
    for x in residues {
        for k in 0..5u128 {
            if x + k * p <= u64::MAX as u128 {
                ints.push((x + k * p) as u64);
            }
        }
    }
    ints.extend([u64::MAX, u64::MAX - 1, (p - 1) as u64]);
    ints.sort();
    ints.dedup();
    for seed in [d, z] {
        family(s, hname, "merge_with_int x + k*p", ints.iter().map(|v| (*v, mck::catch(|| H::merge_with_int(seed, *v).as_bytes()))).collect());
    }
    // merge_with_int vs hash_elements-like continuation: (seed, v) for small v and merge(seed, seed)
    family(s, hname, "merge vs merge_with_int", vec![("merge(d,d)".to_string(), mck::catch(|| H::merge(&[d, d]).as_bytes())), ("merge(d,0)".to_string(), mck::catch(|| H::merge(&[d, z]).as_bytes())),
        ("merge_with_int(d,0)".to_string(), mck::catch(|| H::merge_with_int(d, 0).as_bytes())), ("merge_many([d])".to_string(), mck::catch(|| H::merge_many(&[d]).as_bytes()))]);
}

pub fn run(args: &Args) {
    let mut report = Report::new(args, "exploration");
    let max_len = if args.tier == mck::Tier::Thorough { 5000 } else { 130 };
    type B64 = f64::BaseElement;
    type B62 = f62::BaseElement;
    let mut s = Sweep::new();
    families::<B64, Blake3_256<B64>>("Blake3_256", 8, max_len, &mut s);
    families::<B64, Blake3_192<B64>>("Blake3_192", 8, max_len, &mut s);
    families::<B64, Sha3_256<B64>>("Sha3_256", 8, max_len, &mut s);
    families::<B62, Blake3_256<B62>>("Blake3_256<f62>", 8, max_len, &mut s);
    families::<B64, Rp64_256>("Rp64_256", 8, max_len, &mut s);
    families::<B64, RpJive64_256>("RpJive64_256", 4, max_len, &mut s);
    families::<B62, Rp62_248>("Rp62_248", 8, max_len, &mut s);
    s.into_report("padding families", json!({"byte_lengths": format!("0..={max_len}"), "families": ["zero strings", "x || 0^k", "prefixes", "0x01 strings", "zero element lists", "1 || 0^k", "1^k", "merge_many d^k", "merge_with_int x + k*p", "merge vs merge_with_int"]}), &mut report);
    report.sample(json!({"hasher": "Rp64_256", "family": "x || 0^k", "x": "56 bytes of 0xFF", "k": "0..=80", "oracle": "81 pairwise distinct digests"}));
    report.exhaustive = true;
    report.rule = "one case per family member; a family passes when all its digests are pairwise distinct (set cardinality = family size); every member is non-trivial".into();
    report.assumptions = vec!["distinctness is up to hash collisions (never observed, deterministic)".into()];
    report.finish(args)
}
