//! C20 — the public coin is a deterministic, well-formed function of (seed elements, reseed
//! digests, draws, nonce). Explicit-state search over *histories*: every operation sequence up
//! to the depth bound over a small alphabet is executed on a fresh real `DefaultRandomCoin` and,
//! step by step, on the reference coin R7 written from the documentation.

use mck::{json, Args, Report, Value};
use winter_crypto::hashers::{Blake3_192, Blake3_256, Rp62_248, Rp64_256, RpJive64_256, Sha3_256};
use winter_crypto::{DefaultRandomCoin, Digest, ElementHasher, Hasher, RandomCoin};
use winter_math::fields::{f128, f62, f64, CubeExtension, QuadExtension};
use winter_math::{ExtensibleField, FieldElement};

use crate::util::{Base, Sweep};

// OPERATION ALPHABET
// ================================================================================================

#[derive(Clone, Copy, Debug, PartialEq, Eq)]
enum Op {
    Reseed(u8),
    DrawBase,
    DrawQuad,
    DrawCube,
    /// (num_values, log2 domain size, nonce)
    Ints(usize, u32, u64),
    Pow(u64),
    /// n consecutive base-field draws on the same seed (long runs: the PRNG counter passes 1000)
    Burst(usize),
}

fn alphabet(cubic: bool, thorough: bool) -> Vec<Op> {
    let mut a = vec![Op::Reseed(0), Op::Reseed(1), Op::DrawBase, Op::DrawQuad];
    if cubic {
        a.push(Op::DrawCube);
    }
    a.extend([Op::Ints(1, 1, 0), Op::Ints(7, 3, 1), Op::Ints(255, 8, 0), Op::Ints(255, 20, u64::MAX), Op::Pow(0), Op::Pow(7)]);
    if thorough {
        a.extend([Op::Ints(3, 2, 5), Op::Ints(40, 64 - 1, 2), Op::Ints(999, 10, 3), Op::Pow(u64::MAX)]);
    }
    a
}

/// what one operation returned, in a comparable form
#[derive(Clone, Debug, PartialEq, Eq)]
enum Out {
    Unit,
    Elem(Vec<u128>),
    Ints(Vec<usize>),
    Zeros(u32),
    Err(String),
}

// R7 — REFERENCE COIN (from the documentation of RandomCoin / DefaultRandomCoin)
// ================================================================================================

struct RefCoin<H: ElementHasher> {
    seed: H::Digest,
    counter: u64,
}

impl<B: Base, H: ElementHasher<BaseField = B>> RefCoin<H> {
    fn new(seed: &[B]) -> Self {
        RefCoin { seed: H::hash_elements(seed), counter: 0 }
    }
    fn next(&mut self) -> [u8; 32] {
        self.counter += 1;
        H::merge_with_int(self.seed, self.counter).as_bytes()
    }
    /// `deg` base elements of `B::ELEMENT_BYTES` little-endian bytes each, all below the modulus
    fn draw(&mut self, deg: usize) -> Out {
        for _ in 0..1000 {
            let bytes = self.next();
            let nb = B::ELEMENT_BYTES;
            if deg * nb > 32 {
                // more bytes than a digest holds: the documentation promises nothing; the harness
                // never asks for it
                return Out::Err("unsupported".into());
            }
            let vals: Vec<u128> = (0..deg)
                .map(|k| {
                    let mut le = [0u8; 16];
                    le[..nb].copy_from_slice(&bytes[k * nb..(k + 1) * nb]);
                    u128::from_le_bytes(le)
                })
                .collect();
            if vals.iter().all(|v| *v < B::M) {
                return Out::Elem(vals);
            }
        }
        Out::Err("FailedToDrawFieldElement".into())
    }
    fn ints(&mut self, k: usize, lg: u32, nonce: u64) -> Out {
        self.seed = H::merge_with_int(self.seed, nonce);
        self.counter = 0;
        let mask = (1u64 << lg) - 1;
        let mut v = vec![];
        for _ in 0..1000 {
            let b = self.next();
            v.push((u64::from_le_bytes(b[..8].try_into().unwrap()) & mask) as usize);
            if v.len() == k {
                break;
            }
        }
        if v.len() < k {
            Out::Err("FailedToDrawIntegers".into())
        } else {
            Out::Ints(v)
        }
    }
    fn zeros(&self, nonce: u64) -> Out {
        let b = H::merge_with_int(self.seed, nonce).as_bytes();
        Out::Zeros(u64::from_le_bytes(b[..8].try_into().unwrap()).trailing_zeros())
    }
    fn reseed(&mut self, d: H::Digest) {
        self.seed = H::merge(&[self.seed, d]);
        self.counter = 0;
    }
}

// EXECUTION OF ONE HISTORY
// ================================================================================================

fn elem_out<B: Base, E: FieldElement<BaseField = B>>(r: Result<E, winter_crypto::RandomCoinError>) -> Out {
    match r {
        Ok(e) => Out::Elem((0..E::EXTENSION_DEGREE).map(|i| B::int(e.base_element(i))).collect()),
        Err(e) => Out::Err(format!("{e:?}").split('(').next().unwrap_or("").to_string()),
    }
}

fn digests<H: Hasher>() -> [H::Digest; 2] {
    [H::hash(b"reseed-0"), H::hash(b"reseed-1")]
}

fn run_real<B, H>(seed: &[B], h: &[Op]) -> Vec<Out>
where
    B: Base + ExtensibleField<2> + ExtensibleField<3>,
    H: ElementHasher<BaseField = B>,
{
    let ds = digests::<H>();
    let mut coin = DefaultRandomCoin::<H>::new(seed);
    h.iter()
        .map(|op| match *op {
            Op::Reseed(i) => {
                coin.reseed(ds[i as usize]);
                Out::Unit
            },
            Op::DrawBase => elem_out::<B, B>(coin.draw()),
            Op::DrawQuad => elem_out::<B, QuadExtension<B>>(coin.draw()),
            Op::DrawCube => elem_out::<B, CubeExtension<B>>(coin.draw()),
            Op::Ints(k, lg, nonce) => match coin.draw_integers(k, 1usize << lg, nonce) {
                Ok(v) => Out::Ints(v),
                Err(e) => Out::Err(format!("{e:?}").split('(').next().unwrap_or("").to_string()),
            },
            Op::Pow(n) => Out::Zeros(coin.check_leading_zeros(n)),
            Op::Burst(n) => {
                let mut all = vec![];
                let mut err = None;
                for _ in 0..n {
                    match elem_out::<B, B>(coin.draw()) {
                        Out::Elem(v) => all.extend(v),
                        o => {
                            err = Some(o);
                            break;
                        },
                    }
                }
                err.unwrap_or(Out::Elem(all))
            },
        })
        .collect()
}

fn run_ref<B: Base, H: ElementHasher<BaseField = B>>(seed: &[B], h: &[Op]) -> Vec<Out> {
    let ds = digests::<H>();
    let mut coin = RefCoin::<H>::new(seed);
    h.iter()
        .map(|op| match *op {
            Op::Reseed(i) => {
                coin.reseed(ds[i as usize]);
                Out::Unit
            },
            Op::DrawBase => coin.draw(1),
            Op::DrawQuad => coin.draw(2),
            Op::DrawCube => coin.draw(3),
            Op::Ints(k, lg, nonce) => coin.ints(k, lg, nonce),
            Op::Pow(n) => coin.zeros(n),
            Op::Burst(n) => {
                let mut all = vec![];
                let mut err = None;
                for _ in 0..n {
                    match coin.draw(1) {
                        Out::Elem(v) => all.extend(v),
                        o => {
                            err = Some(o);
                            break;
                        },
                    }
                }
                err.unwrap_or(Out::Elem(all))
            },
        })
        .collect()
}

fn seeds<B: Base>() -> Vec<Vec<B>> {
    vec![vec![], vec![B::ZERO], vec![B::ONE, B::from_int(B::M - 1), B::from_int(2)]]
}

struct Stats {
    histories: u64,
    transitions: u64,
    draws_checked: u64,
    twin_pairs: u64,
    distinct_outputs: std::collections::BTreeSet<u64>,
}

fn check_history<B, H>(name: &str, si: usize, h: &[Op], s: &mut Sweep, st: &mut Stats)
where
    B: Base + ExtensibleField<2> + ExtensibleField<3>,
    H: ElementHasher<BaseField = B>,
{
    let seed = &seeds::<B>()[si];
    let key = format!("{name}/seed={si}/{h:?}");
    s.evals += 1;
    st.histories += 1;
    st.transitions += h.len() as u64;
    let real = match mck::catch(|| run_real::<B, H>(seed, h)) {
        Ok(r) => r,
        Err(p) => {
            s.fail(format!("panic:coin:{name}:{}", p.location), key, format!("coin panicked at {} ({}) on history {h:?} (all preconditions met)", p.location, p.message));
            return;
        },
    };
    // determinism: a second fresh coin
    let again = run_real::<B, H>(seed, h);
    if real != again {
        s.fail(format!("nondeterministic:{name}"), key.clone(), format!("two fresh coins disagree on history {h:?}"));
    }
    let want = run_ref::<B, H>(seed, h);
    for (i, (g, w)) in real.iter().zip(want.iter()).enumerate() {
        if g != w {
            s.fail(format!("differs_from_reference:{name}:{:?}", variant_name(&h[i])), key.clone(), format!("{name}: step {i} ({:?}) of history {h:?} returned {g:?}, documented algorithm gives {w:?}", h[i]));
            break;
        }
    }
    // well-formedness, independent of the reference
    for (op, out) in h.iter().zip(real.iter()) {
        match (op, out) {
            (Op::DrawBase | Op::DrawQuad | Op::DrawCube, Out::Elem(v)) => {
                st.draws_checked += 1;
                let deg = match op {
                    Op::DrawBase => 1,
                    Op::DrawQuad => 2,
                    _ => 3,
                };
                if v.len() != deg || v.iter().any(|x| *x >= B::M) {
                    s.fail(format!("invalid_element:{name}"), key.clone(), format!("drawn element {v:?} is not a valid element of degree {deg}"));
                }
            },
            (Op::Ints(k, lg, _), Out::Ints(v)) => {
                st.draws_checked += 1;
                if v.len() != *k || v.iter().any(|x| *x >> lg != 0) {
                    s.fail(format!("bad_integers:{name}"), key.clone(), format!("draw_integers({k}, 2^{lg}) returned {} values, max {:?}", v.len(), v.iter().max()));
                }
            },
            _ => {},
        }
    }
    if h.iter().any(|o| !matches!(o, Op::Reseed(_))) {
        s.nontrivial += 1;
    }
    st.distinct_outputs.insert(mck::fnv(format!("{real:?}").as_bytes()));
    // twin history: flip the first reseed digest; every later draw must differ
    if let Some(p) = h.iter().position(|o| matches!(o, Op::Reseed(_))) {
        let mut t = h.to_vec();
        t[p] = match h[p] {
            Op::Reseed(i) => Op::Reseed(1 - i),
            o => o,
        };
        if let Op::Reseed(0) = h[p] {
            let twin = run_real::<B, H>(seed, &t);
            st.twin_pairs += 1;
            for i in p + 1..h.len() {
                let observable = !matches!(h[i], Op::Reseed(_));
                // a single PoW count or a 1-bit integer may coincide by chance; compare the
                // outputs that carry enough entropy
                let wide = match (&h[i], &real[i]) {
                    (Op::Pow(_), _) => false,
                    (Op::Ints(k, lg, _), _) => (*k as u32) * lg >= 60,
                    _ => true,
                };
                if observable && wide && real[i] == twin[i] && !matches!(real[i], Out::Err(_)) {
                    s.fail(format!("reseed_ignored:{name}"), key.clone(), format!("{name}: histories {h:?} and {t:?} differ in the reseed digest at step {p} but step {i} returned the same {:?}", real[i]));
                }
            }
        }
    }
}

fn variant_name(o: &Op) -> &'static str {
    match o {
        Op::Reseed(_) => "reseed",
        Op::DrawBase => "draw_base",
        Op::DrawQuad => "draw_quad",
        Op::DrawCube => "draw_cube",
        Op::Ints(..) => "draw_integers",
        Op::Pow(_) => "check_leading_zeros",
        Op::Burst(_) => "draw_base_burst",
    }
}

fn explore<B, H>(name: &str, cubic: bool, depth: usize, thorough: bool, report: &mut Report, st_total: &mut (u64, u64, u64))
where
    B: Base + ExtensibleField<2> + ExtensibleField<3>,
    H: ElementHasher<BaseField = B>,
{
    let alpha = alphabet(cubic, thorough);
    let a = alpha.len();
    let title = name;
    // violation classes and replay keys carry the coin's name without the run label
    let name = name.split(" (").next().unwrap_or(name);
    // shard by the first two operations
    let shards: Vec<(usize, usize, usize)> = (0..3).flat_map(|si| (0..a).flat_map(move |x| (0..a).map(move |y| (si, x, y)))).collect();
    let outs = mck::par_map(shards.len(), |k| {
        let (si, x, y) = shards[k];
        let mut s = Sweep::new();
        let mut st = Stats { histories: 0, transitions: 0, draws_checked: 0, twin_pairs: 0, distinct_outputs: Default::default() };
        // histories of length 0 and 1 are handled by shard y == 0
        if y == 0 {
            if x == 0 {
                check_history::<B, H>(name, si, &[], &mut s, &mut st);
            }
            check_history::<B, H>(name, si, &[alpha[x]], &mut s, &mut st);
        }
        if depth >= 2 {
            let mut h = vec![alpha[x], alpha[y]];
            rec::<B, H>(name, si, &alpha, &mut h, depth, &mut s, &mut st);
        }
        (s, st)
    });
    let mut s = Sweep::new();
    let (mut hist, mut trans, mut draws, mut twins) = (0, 0, 0, 0);
    let mut outs_set = std::collections::BTreeSet::new();
    for (o, st) in outs {
        s.absorb(o);
        hist += st.histories;
        trans += st.transitions;
        draws += st.draws_checked;
        twins += st.twin_pairs;
        outs_set.extend(st.distinct_outputs);
    }
    st_total.0 += hist;
    st_total.1 += trans;
    st_total.2 += hist;
    s.into_report(
        &format!("{title}: all histories up to depth {depth}"),
        json!({"alphabet": alpha.iter().map(|o| format!("{o:?}")).collect::<Vec<_>>(), "seeds": 3, "histories": hist, "transitions": trans,
               "draw_outputs_checked_for_wellformedness": draws, "reseed_twin_pairs": twins, "distinct_output_vectors": outs_set.len()}),
        report,
    );
}

/// Long runs on one seed: every history of length <= 2 that contains a burst of 1100 base draws, a
/// draw_integers(990) followed by 20 draws, and 120 cubic draws (f62: dozens of PRNG calls each).
/// The per-draw retry budget of the documentation (1000 attempts per draw) never runs out here.
fn long_runs<B, H>(name: &str, cubic: bool, seeds_used: usize, report: &mut Report, st_total: &mut (u64, u64, u64))
where
    B: Base + ExtensibleField<2> + ExtensibleField<3>,
    H: ElementHasher<BaseField = B>,
{
    let alpha = alphabet(cubic, false);
    let mut hs: Vec<Vec<Op>> = vec![vec![Op::Burst(1100)], vec![Op::Burst(1100), Op::Burst(1100)]];
    for o in &alpha {
        hs.push(vec![*o, Op::Burst(1100)]);
        hs.push(vec![Op::Burst(1100), *o]);
    }
    let mut h = vec![Op::Ints(990, 10, 0)];
    h.extend(vec![Op::DrawBase; 20]);
    hs.push(h);
    if cubic {
        hs.push(vec![Op::DrawCube; 120]);
    }
    hs.push(vec![Op::DrawQuad; 600]);
    let jobs: Vec<(usize, usize)> = (0..seeds_used).flat_map(|si| (0..hs.len()).map(move |i| (si, i))).collect();
    let outs = mck::par_map(jobs.len(), |k| {
        let (si, i) = jobs[k];
        let mut s = Sweep::new();
        let mut st = Stats { histories: 0, transitions: 0, draws_checked: 0, twin_pairs: 0, distinct_outputs: Default::default() };
        check_history::<B, H>(name, si, &hs[i], &mut s, &mut st);
        (s, st)
    });
    let mut s = Sweep::new();
    let (mut hist, mut trans) = (0, 0);
    for (o, st) in outs {
        s.absorb(o);
        hist += st.histories;
        trans += st.transitions;
    }
    st_total.0 += hist;
    st_total.1 += trans;
    st_total.2 += hist;
    s.into_report(&format!("{name}: long runs on one seed (PRNG counter beyond 1000)"), json!({"histories": hist, "seeds": seeds_used,
        "shapes": ["Burst(1100)", "Burst(1100) x 2", "op, Burst(1100) and Burst(1100), op for every op of the alphabet", "Ints(990, 2^10) then 20 draws", "120 cubic draws", "600 quadratic draws"]}), report);
}

fn rec<B, H>(name: &str, si: usize, alpha: &[Op], h: &mut Vec<Op>, depth: usize, s: &mut Sweep, st: &mut Stats)
where
    B: Base + ExtensibleField<2> + ExtensibleField<3>,
    H: ElementHasher<BaseField = B>,
{
    check_history::<B, H>(name, si, h, s, st);
    if h.len() < depth {
        for o in alpha {
            h.push(*o);
            rec::<B, H>(name, si, alpha, h, depth, s, st);
            h.pop();
        }
    }
}

fn parse_op(t: &str) -> Option<Op> {
    let t = t.trim();
    let nums = |t: &str| -> Vec<u64> { t.split(|c: char| !c.is_ascii_digit()).filter(|x| !x.is_empty()).filter_map(|x| x.parse().ok()).collect() };
    if t.starts_with("Reseed") {
        Some(Op::Reseed(nums(t)[0] as u8))
    } else if t.starts_with("DrawBase") {
        Some(Op::DrawBase)
    } else if t.starts_with("DrawQuad") {
        Some(Op::DrawQuad)
    } else if t.starts_with("DrawCube") {
        Some(Op::DrawCube)
    } else if t.starts_with("Ints") {
        let n = nums(t);
        Some(Op::Ints(n[0] as usize, n[1] as u32, n[2]))
    } else if t.starts_with("Pow") {
        Some(Op::Pow(nums(t)[0]))
    } else if t.starts_with("Burst") {
        Some(Op::Burst(nums(t)[0] as usize))
    } else {
        None
    }
}

fn replay(v: &Value, report: &mut Report) {
    // key: "<name>/seed=<i>/[Op, Op, ...]"
    let key = v["case"].as_str().unwrap_or("").to_string();
    let mut it = key.splitn(3, '/');
    let name = it.next().unwrap_or("").to_string();
    let si: usize = it.next().unwrap_or("seed=0").trim_start_matches("seed=").parse().unwrap_or(0);
    let ops_txt = it.next().unwrap_or("[]");
    let inner = ops_txt.trim().trim_start_matches('[').trim_end_matches(']');
    // split on "), " boundaries or ", " between unit variants
    let mut ops = vec![];
    let mut depth = 0;
    let mut cur = String::new();
    for c in inner.chars() {
        match c {
            '(' => {
                depth += 1;
                cur.push(c)
            },
            ')' => {
                depth -= 1;
                cur.push(c)
            },
            ',' if depth == 0 => {
                if let Some(o) = parse_op(&cur) {
                    ops.push(o);
                }
                cur.clear();
            },
            _ => cur.push(c),
        }
    }
    if let Some(o) = parse_op(&cur) {
        ops.push(o);
    }
    let mut s = Sweep::new();
    let mut st = Stats { histories: 0, transitions: 0, draws_checked: 0, twin_pairs: 0, distinct_outputs: Default::default() };
    type B64 = f64::BaseElement;
    type B62 = f62::BaseElement;
    type B128 = f128::BaseElement;
    match name.as_str() {
        "Blake3_256<f64>" => check_history::<B64, Blake3_256<B64>>(&name, si, &ops, &mut s, &mut st),
        "Blake3_192<f64>" => check_history::<B64, Blake3_192<B64>>(&name, si, &ops, &mut s, &mut st),
        "Sha3_256<f128>" => check_history::<B128, Sha3_256<B128>>(&name, si, &ops, &mut s, &mut st),
        "Blake3_256<f62>" => check_history::<B62, Blake3_256<B62>>(&name, si, &ops, &mut s, &mut st),
        "Rp64_256" => check_history::<B64, Rp64_256>(&name, si, &ops, &mut s, &mut st),
        "RpJive64_256" => check_history::<B64, RpJive64_256>(&name, si, &ops, &mut s, &mut st),
        "Rp62_248" => check_history::<B62, Rp62_248>(&name, si, &ops, &mut s, &mut st),
        _ => mck::report::machinery("C20 replay: unknown coin"),
    }
    s.into_report("replay", json!({"history": format!("{ops:?}")}), report);
}

pub fn run(args: &Args) {
    let mut report = Report::new(args, "model_checking");
    if let Some(v) = args.replay_value() {
        replay(&v, &mut report);
        report.finish(args)
    }
    let thorough = args.tier == mck::Tier::Thorough;
    type B64 = f64::BaseElement;
    type B62 = f62::BaseElement;
    type B128 = f128::BaseElement;
    let mut tot = (0u64, 0u64, 0u64);
    let (d_fast, d_slow) = if thorough { (6, 4) } else { (5, 3) };
    // the base alphabet to the full depth; thorough adds the extended alphabet (long integer
    // draws, 63-bit domains) one level shallower, which keeps the tier within minutes
    explore::<B64, Blake3_256<B64>>("Blake3_256<f64>", true, d_fast, false, &mut report, &mut tot);
    explore::<B64, Blake3_192<B64>>("Blake3_192<f64>", true, d_fast - 1, false, &mut report, &mut tot);
    explore::<B128, Sha3_256<B128>>("Sha3_256<f128>", false, d_fast - 1, false, &mut report, &mut tot);
    explore::<B62, Blake3_256<B62>>("Blake3_256<f62>", true, d_fast - 1, false, &mut report, &mut tot);
    explore::<B64, Rp64_256>("Rp64_256", true, d_slow, false, &mut report, &mut tot);
    explore::<B64, RpJive64_256>("RpJive64_256", true, d_slow, false, &mut report, &mut tot);
    explore::<B62, Rp62_248>("Rp62_248", true, d_slow, false, &mut report, &mut tot);
    if thorough {
        explore::<B64, Blake3_256<B64>>("Blake3_256<f64> (extended alphabet)", true, d_fast - 1, true, &mut report, &mut tot);
        explore::<B64, Blake3_192<B64>>("Blake3_192<f64> (extended alphabet)", true, d_fast - 2, true, &mut report, &mut tot);
        explore::<B128, Sha3_256<B128>>("Sha3_256<f128> (extended alphabet)", false, d_fast - 2, true, &mut report, &mut tot);
        explore::<B62, Blake3_256<B62>>("Blake3_256<f62> (extended alphabet)", true, d_fast - 2, true, &mut report, &mut tot);
        explore::<B64, Rp64_256>("Rp64_256 (extended alphabet)", true, d_slow - 1, true, &mut report, &mut tot);
        explore::<B64, RpJive64_256>("RpJive64_256 (extended alphabet)", true, d_slow - 1, true, &mut report, &mut tot);
        explore::<B62, Rp62_248>("Rp62_248 (extended alphabet)", true, d_slow - 1, true, &mut report, &mut tot);
    }
    long_runs::<B64, Blake3_256<B64>>("Blake3_256<f64>", true, 3, &mut report, &mut tot);
    long_runs::<B64, Blake3_192<B64>>("Blake3_192<f64>", true, 3, &mut report, &mut tot);
    long_runs::<B128, Sha3_256<B128>>("Sha3_256<f128>", false, 3, &mut report, &mut tot);
    long_runs::<B62, Blake3_256<B62>>("Blake3_256<f62>", true, 3, &mut report, &mut tot);
    long_runs::<B64, Rp64_256>("Rp64_256", true, 1, &mut report, &mut tot);
    long_runs::<B64, RpJive64_256>("RpJive64_256", true, 1, &mut report, &mut tot);
    long_runs::<B62, Rp62_248>("Rp62_248", true, 1, &mut report, &mut tot);
    report.states = Some(tot.0);
    report.transitions = Some(tot.1);
    report.traces_validated = Some(tot.2);
    report.sample(json!({"coin": "Blake3_256<f64>", "seed": "[1, M-1, 2]", "history": "[Reseed(0), DrawQuad, Ints(255, 8, 0), Pow(7)]",
        "oracle": "R7: seed=hash_elements(seed); reseed: seed=merge(seed,d), counter=0; draw: merge_with_int(seed, ++counter) first 16 bytes as two canonical LE u64 or retry; integers: seed=merge_with_int(seed,nonce), counter=0, LE u64 & (N-1); PoW: trailing zeros of LE u64 of merge_with_int(seed,nonce)"}));
    report.exhaustive = true;
    report.rule = "states = histories (operation sequences) executed on a fresh real coin; non-trivial = histories with at least one draw/PoW step; every history is also replayed on a second fresh coin (determinism) and on the reference coin (conformance), and, when it contains a reseed, against its twin with the other digest".into();
    report.bounds = json!({"depth_fast_hashers": d_fast, "depth_rescue_hashers": d_slow, "seeds": 3, "coins": 7,
        "extended_alphabet_depths": if thorough { json!({"Blake3_256<f64>": d_fast - 1, "other fast hashers": d_fast - 2, "rescue hashers": d_slow - 1}) } else { json!(null) }});
    report.assumptions = vec![
        "the hash primitives (hash_elements, merge, merge_with_int) are those C15/C16 check; R7 re-implements only the coin's bookkeeping".into(),
        "'reseeding with a different digest changes subsequent draws' is checked on outputs carrying >= 60 bits (elements, integer vectors); single PoW counts may coincide by chance".into(),
        "draw of an element wider than a digest (cubic over f128) is never requested".into(),
    ];
    report.finish(args)
}
