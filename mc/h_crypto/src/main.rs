//! h_crypto — harness for winter-crypto: C15 (byte hashers), C16 (Rescue vs reference), C17
//! (padding), C18/C19 (Merkle), C20 (random coin).

mod c15;
mod c16;
mod c17;
mod c18;
mod c19;
mod c20;
mod rp62_consts;
mod util;

fn main() {
    mck::install_panic_hook();
    let args = mck::Args::parse();
    match args.prop.as_str() {
        "C15" => c15::run(&args),
        "C16" => c16::run(&args),
        "C17" => c17::run(&args),
        "C18" => c18::run(&args),
        "C19" => c19::run(&args),
        "C20" => c20::run(&args),
        p => mck::report::machinery(&format!("h_crypto does not serve property {p:?}")),
    }
}
