//! C19 — Merkle verification rejects wrong data and never panics. Fault enumeration on the
//! openings of every tree/subset of C18 (small trees): every leaf, index and proof node replaced;
//! indexes duplicated or out of range; structural faults on batch proofs. Oracle: `Err` for every
//! substitution; for structural malformations any `Result`, never a panic.

use mck::{json, Args, Report, Value};
use winter_crypto::hashers::{Blake3_256, Rp64_256, Sha3_256};
use winter_crypto::{BatchMerkleProof, Hasher, MerkleTree};
use winter_math::fields::f64::BaseElement as B64;

use crate::c18::{clone_proof, make_leaves};
use crate::util::Sweep;

#[derive(Clone, Debug)]
enum Fault {
    // --- substitutions: must be rejected -------------------------------------------------------
    Leaf(usize),
    /// replace index at position p by in-range index j not in the set
    Index(usize, usize),
    /// swap two indexes without swapping their leaves
    SwapIndexes(usize, usize),
    Node(usize, usize),
    /// index at position p pushed out of range by adding k * num_leaves (k = 1, 2) or to usize::MAX
    OutOfRange(usize, u8),
    /// index at position p replaced by the index at position q (duplicate), leaf kept
    Duplicate(usize, usize),
    /// index + leaf at position p appended once more
    AppendDuplicate(usize),
    /// root replaced
    Root,
    // --- structural: any Result, never a panic ---------------------------------------------------
    Depth(u8),
    DropNodeVec,
    AddEmptyNodeVec,
    AddNodeVec,
    EmptyNodeVec(usize),
    ExtendNodeVec(usize),
    TruncateNodeVec(usize),
    AllNodeVecsEmpty,
    NoNodeVecs,
    LeavesShorter,
    LeavesLonger,
    LeavesEmpty,
    IndexesEmpty,
    IndexesShorter,
    IndexesLonger(usize),
}

impl Fault {
    fn must_reject(&self) -> bool {
        matches!(
            self,
            Fault::Leaf(_) | Fault::Index(..) | Fault::SwapIndexes(..) | Fault::Node(..) | Fault::OutOfRange(..) | Fault::Duplicate(..) | Fault::AppendDuplicate(_) | Fault::Root
        )
    }
}

struct Case<H: Hasher> {
    root: H::Digest,
    idx: Vec<usize>,
    leaves: Vec<H::Digest>,
    proof: BatchMerkleProof<H>,
}

fn faults_for<H: Hasher>(n: usize, c: &Case<H>, structural: bool) -> Vec<Fault> {
    let k = c.idx.len();
    let mut f = vec![Fault::Root];
    for p in 0..k {
        f.push(Fault::Leaf(p));
        for j in 0..n {
            if !c.idx.contains(&j) {
                f.push(Fault::Index(p, j));
            }
        }
        for q in p + 1..k {
            f.push(Fault::SwapIndexes(p, q));
        }
        for kind in 0..3u8 {
            f.push(Fault::OutOfRange(p, kind));
        }
        for q in 0..k {
            if q != p {
                f.push(Fault::Duplicate(p, q));
            }
        }
        f.push(Fault::AppendDuplicate(p));
    }
    for (i, v) in c.proof.nodes.iter().enumerate() {
        for j in 0..v.len() {
            f.push(Fault::Node(i, j));
        }
    }
    if structural {
        for d in (0..=9u8).chain([31, 32, 62, 63, 64, 65, 127, 128, 255]) {
            if d != c.proof.depth {
                f.push(Fault::Depth(d));
            }
        }
        f.extend([Fault::DropNodeVec, Fault::AddEmptyNodeVec, Fault::AddNodeVec, Fault::AllNodeVecsEmpty, Fault::NoNodeVecs, Fault::LeavesShorter, Fault::LeavesLonger, Fault::LeavesEmpty, Fault::IndexesEmpty, Fault::IndexesShorter]);
        for i in 0..c.proof.nodes.len() {
            f.extend([Fault::EmptyNodeVec(i), Fault::ExtendNodeVec(i), Fault::TruncateNodeVec(i)]);
        }
        for j in [0, n - 1, n, usize::MAX] {
            f.push(Fault::IndexesLonger(j));
        }
    }
    f
}

fn apply<H: Hasher>(n: usize, c: &Case<H>, f: &Fault) -> Case<H> {
    let junk = H::hash(b"junk");
    let mut o = Case { root: c.root, idx: c.idx.clone(), leaves: c.leaves.clone(), proof: clone_proof(&c.proof) };
    match *f {
        Fault::Leaf(p) => o.leaves[p] = junk,
        Fault::Index(p, j) => o.idx[p] = j,
        Fault::SwapIndexes(p, q) => o.idx.swap(p, q),
        Fault::Node(i, j) => o.proof.nodes[i][j] = junk,
        Fault::OutOfRange(p, kind) => {
            o.idx[p] = match kind {
                0 => o.idx[p] + n,
                1 => o.idx[p] + 2 * n,
                _ => usize::MAX - (1 - (o.idx[p] & 1)),
            }
        },
        Fault::Duplicate(p, q) => o.idx[p] = o.idx[q],
        Fault::AppendDuplicate(p) => {
            o.idx.push(o.idx[p]);
            o.leaves.push(o.leaves[p]);
        },
        Fault::Root => o.root = junk,
        Fault::Depth(d) => o.proof.depth = d,
        Fault::DropNodeVec => {
            o.proof.nodes.pop();
        },
        Fault::AddEmptyNodeVec => o.proof.nodes.push(vec![]),
        Fault::AddNodeVec => o.proof.nodes.push(vec![junk]),
        Fault::EmptyNodeVec(i) => o.proof.nodes[i].clear(),
        Fault::ExtendNodeVec(i) => o.proof.nodes[i].push(junk),
        Fault::TruncateNodeVec(i) => {
            o.proof.nodes[i].pop();
        },
        Fault::AllNodeVecsEmpty => o.proof.nodes.iter_mut().for_each(|v| v.clear()),
        Fault::NoNodeVecs => o.proof.nodes.clear(),
        Fault::LeavesShorter => {
            o.leaves.pop();
        },
        Fault::LeavesLonger => o.leaves.push(junk),
        Fault::LeavesEmpty => o.leaves.clear(),
        Fault::IndexesEmpty => o.idx.clear(),
        Fault::IndexesShorter => {
            o.idx.pop();
        },
        Fault::IndexesLonger(j) => o.idx.push(j),
    }
    o
}

fn run_fault<H: Hasher>(hname: &str, n: usize, tag: &str, c: &Case<H>, f: &Fault, s: &mut Sweep) {
    let m = apply(n, c, f);
    let key = format!("{hname}/n={n}/{tag}/idx={:?}/{f:?}", c.idx);
    s.evals += 1;
    s.nontrivial += 1;
    let must = f.must_reject();
    let kind = format!("{f:?}");
    let kind = kind.split('(').next().unwrap_or("").to_string();
    // verify_batch
    match mck::catch(|| MerkleTree::<H>::verify_batch(&m.root, &m.idx, &m.leaves, &m.proof)) {
        Err(p) => s.fail(format!("panic:verify_batch:{}", p.location), key.clone(), format!("verify_batch panicked at {} ({}) on fault {f:?} of the honest batch proof for {:?} ({n} leaves)", p.location, p.message, c.idx)),
        Ok(Ok(())) if must => s.fail(format!("accepted:verify_batch:{kind}"), key.clone(), format!("{hname}: verify_batch accepted fault {f:?} on the honest batch proof for indexes {:?} of a {n}-leaf tree", c.idx)),
        _ => {},
    }
    // get_root: must not reconstruct the true root from substituted data
    match mck::catch(|| m.proof.get_root(&m.idx, &m.leaves)) {
        Err(p) => s.fail(format!("panic:get_root:{}", p.location), key.clone(), format!("get_root panicked at {} ({}) on fault {f:?} (indexes {:?}, {n} leaves)", p.location, p.message, c.idx)),
        Ok(Ok(r)) if must && !matches!(f, Fault::Root) && r == c.root => s.fail(format!("accepted:get_root:{kind}"), key.clone(), format!("{hname}: get_root returned the tree's root for fault {f:?} (indexes {:?}, {n} leaves)", c.idx)),
        _ => {},
    }
    // into_openings: no panic; and if it yields openings for substituted data they must not verify
    match mck::catch(|| clone_proof(&m.proof).into_openings(&m.leaves, &m.idx)) {
        Err(p) => s.fail(format!("panic:into_openings:{}", p.location), key.clone(), format!("into_openings panicked at {} ({}) on fault {f:?} (indexes {:?}, {n} leaves)", p.location, p.message, c.idx)),
        Ok(Ok(ops)) if must && matches!(f, Fault::Leaf(_) | Fault::Node(..)) => {
            let all_ok = ops.iter().zip(m.idx.iter()).all(|((leaf, path), &i)| !path.is_empty() && MerkleTree::<H>::verify(c.root, i, *leaf, path).is_ok());
            if all_ok {
                s.fail(format!("accepted:into_openings:{kind}"), key, format!("{hname}: openings expanded from a batch proof with fault {f:?} all verify against the tree's root"));
            }
        },
        _ => {},
    }
}

fn singles<H: Hasher>(hname: &str, tree: &MerkleTree<H>, s: &mut Sweep) {
    let n = tree.leaves().len();
    let root = *tree.root();
    let junk = H::hash(b"junk");
    for i in 0..n {
        let (leaf, path) = tree.prove(i).unwrap();
        let mut cases: Vec<(String, usize, H::Digest, Vec<H::Digest>, H::Digest)> = vec![("leaf".into(), i, junk, path.clone(), root), ("root".into(), i, leaf, path.clone(), junk)];
        for j in 0..n {
            if j != i {
                cases.push((format!("index->{j}"), j, leaf, path.clone(), root));
            }
        }
        for k in 0..path.len() {
            let mut p = path.clone();
            p[k] = junk;
            cases.push((format!("node{k}"), i, leaf, p, root));
            // a path node swapped with the leaf value
            let mut p = path.clone();
            let l2 = p[k];
            p[k] = leaf;
            cases.push((format!("leaf<->node{k}"), i, l2, p, root));
        }
        for (what, idx, leaf, path, root) in cases {
            s.evals += 1;
            s.nontrivial += 1;
            let key = format!("{hname}/n={n}/single={i}/{what}");
            match mck::catch(|| MerkleTree::<H>::verify(root, idx, leaf, &path)) {
                Err(p) => s.fail(format!("panic:verify:{}", p.location), key, format!("verify panicked: {}", p.message)),
                Ok(Ok(())) => s.fail(format!("accepted:verify:{}", what.split(|c: char| c.is_ascii_digit() || c == '-').next().unwrap_or("")), key, format!("{hname}: single opening of leaf {i} in a {n}-leaf tree still verifies after substitution '{what}'")),
                Ok(Err(_)) => {},
            }
        }
    }
}

/// documented refusals of the proving side
fn prover_refusals<H: Hasher>(hname: &str, tree: &MerkleTree<H>, s: &mut Sweep) {
    let n = tree.leaves().len();
    let lists: Vec<(&str, Vec<usize>)> = vec![("empty", vec![]), ("out of range", vec![n]), ("out of range 2", vec![0, n + 1]), ("duplicate", vec![1, 1]), ("duplicate far", vec![0, 1, 0]), ("max", vec![usize::MAX])];
    for (what, l) in lists {
        s.evals += 1;
        s.nontrivial += 1;
        match mck::catch(|| tree.prove_batch(&l)) {
            Err(p) => s.fail(format!("panic:prove_batch:{}", p.location), format!("{hname}/n={n}/refusal/{what}"), format!("prove_batch({l:?}) panicked at {}: {}", p.location, p.message)),
            Ok(Ok(_)) => s.fail("accepted:prove_batch:bad-index-list".into(), format!("{hname}/n={n}/refusal/{what}"), format!("prove_batch accepted the index list {l:?} ({what}) on {n} leaves")),
            Ok(Err(_)) => {},
        }
    }
    s.evals += 1;
    match mck::catch(|| tree.prove(n)) {
        Ok(Err(_)) => {},
        _ => s.fail("accepted:prove:out-of-range".into(), format!("{hname}/n={n}/refusal/prove"), "prove(n) did not return an error".into()),
    }
    for bad in [0usize, 1, 3, 6] {
        s.evals += 1;
        match mck::catch(|| MerkleTree::<H>::new(make_leaves::<H>(bad, 3))) {
            Ok(Err(_)) => {},
            _ => s.fail("accepted:new:bad-leaf-count".into(), format!("{hname}/new/{bad}"), format!("MerkleTree::new with {bad} leaves did not return an error")),
        }
    }
}

fn subset(mask: u64, n: usize) -> Vec<usize> {
    (0..n).filter(|i| mask >> i & 1 == 1).collect()
}

fn sweep<H: Hasher + Sync>(hname: &str, n: usize, s: &mut Sweep)
where
    H::Digest: Sync,
{
    let tree = MerkleTree::<H>::new(make_leaves::<H>(n, 1)).unwrap();
    singles(hname, &tree, s);
    prover_refusals(hname, &tree, s);
    let total = (1u64 << n) - 1;
    let outs = mck::par_map(total as usize, |m| {
        let mut s = Sweep::new();
        let sorted = subset(m as u64 + 1, n);
        let mut orders = vec![("sorted", sorted.clone())];
        if sorted.len() >= 2 {
            let mut r = sorted.clone();
            r.reverse();
            orders.push(("reversed", r));
        }
        if sorted.len() >= 3 {
            // orders that separate the two leaves of a sibling pair (seed C19b): odd indexes first,
            // a rotation, and - up to 8 leaves - the first index moved to the end
            let mut il: Vec<usize> = sorted.iter().copied().filter(|i| i & 1 == 1).collect();
            il.extend(sorted.iter().copied().filter(|i| i & 1 == 0));
            if il != sorted {
                orders.push(("odd-first", il));
            }
            let mut rot = sorted.clone();
            rot.rotate_left(1);
            orders.push(("rotated", rot));
            if n <= 8 {
                let mut sw = sorted.clone();
                sw.swap(1, 2);
                orders.push(("swap-1-2", sw));
            }
        }
        for (tag, idx) in orders {
            let (leaves, proof) = tree.prove_batch(&idx).unwrap();
            let c = Case { root: *tree.root(), idx, leaves, proof };
            for f in faults_for(n, &c, tag == "sorted") {
                run_fault(hname, n, tag, &c, &f, &mut s);
            }
        }
        s
    });
    for o in outs {
        s.absorb(o);
    }
}

fn parse_fault(t: &str) -> Option<Fault> {
    let nums: Vec<usize> = t.split(|c: char| !c.is_ascii_digit()).filter(|x| !x.is_empty()).filter_map(|x| x.parse().ok()).collect();
    let g = |i: usize| nums.get(i).copied().unwrap_or(0);
    let name = t.split('(').next().unwrap_or("").trim();
    Some(match name {
        "Leaf" => Fault::Leaf(g(0)),
        "Index" => Fault::Index(g(0), g(1)),
        "SwapIndexes" => Fault::SwapIndexes(g(0), g(1)),
        "Node" => Fault::Node(g(0), g(1)),
        "OutOfRange" => Fault::OutOfRange(g(0), g(1) as u8),
        "Duplicate" => Fault::Duplicate(g(0), g(1)),
        "AppendDuplicate" => Fault::AppendDuplicate(g(0)),
        "Root" => Fault::Root,
        "Depth" => Fault::Depth(g(0) as u8),
        "DropNodeVec" => Fault::DropNodeVec,
        "AddEmptyNodeVec" => Fault::AddEmptyNodeVec,
        "AddNodeVec" => Fault::AddNodeVec,
        "EmptyNodeVec" => Fault::EmptyNodeVec(g(0)),
        "ExtendNodeVec" => Fault::ExtendNodeVec(g(0)),
        "TruncateNodeVec" => Fault::TruncateNodeVec(g(0)),
        "AllNodeVecsEmpty" => Fault::AllNodeVecsEmpty,
        "NoNodeVecs" => Fault::NoNodeVecs,
        "LeavesShorter" => Fault::LeavesShorter,
        "LeavesLonger" => Fault::LeavesLonger,
        "LeavesEmpty" => Fault::LeavesEmpty,
        "IndexesEmpty" => Fault::IndexesEmpty,
        "IndexesShorter" => Fault::IndexesShorter,
        "IndexesLonger" => Fault::IndexesLonger(g(0)),
        _ => return None,
    })
}

fn replay(v: &Value, s: &mut Sweep) {
    // "<hasher>/n=<n>/<tag>/idx=[..]/<Fault>"  or  "<hasher>/n=<n>/single=..." / refusal (whole sub-sweep re-run)
    let key = v["case"].as_str().unwrap_or("");
    let parts: Vec<&str> = key.split('/').collect();
    let n: usize = parts.get(1).map(|p| p.trim_start_matches("n=").parse().unwrap_or(4)).unwrap_or(4);
    fn one<H: Hasher>(hname: &str, n: usize, parts: &[&str], s: &mut Sweep) {
        let tree = MerkleTree::<H>::new(make_leaves::<H>(n, 1)).unwrap();
        if parts.len() >= 5 && parts[3].starts_with("idx=") {
            let idx: Vec<usize> = parts[3].trim_start_matches("idx=[").trim_end_matches(']').split(',').filter_map(|x| x.trim().parse().ok()).collect();
            let Some(f) = parse_fault(parts[4]) else { mck::report::machinery("C19 replay: unknown fault") };
            let (leaves, proof) = tree.prove_batch(&idx).unwrap();
            let c = Case { root: *tree.root(), idx, leaves, proof };
            run_fault(hname, n, parts[2], &c, &f, s);
        } else {
            singles(hname, &tree, s);
            prover_refusals(hname, &tree, s);
        }
    }
    match parts[0] {
        "Blake3_256" => one::<Blake3_256<B64>>("Blake3_256", n, &parts, s),
        "Sha3_256" => one::<Sha3_256<B64>>("Sha3_256", n, &parts, s),
        _ => one::<Rp64_256>("Rp64_256", n, &parts, s),
    }
}

pub fn run(args: &Args) {
    let mut report = Report::new(args, "fault_enumeration");
    if let Some(v) = args.replay_value() {
        let mut s = Sweep::new();
        replay(&v, &mut s);
        s.into_report("replay", json!({}), &mut report);
        report.finish(args)
    }
    let thorough = args.tier == mck::Tier::Thorough;
    let mut s = Sweep::new();
    // the overflow-check build is ~4x slower: 16 leaves only in the release build or the thorough tier
    let sizes = if args.variant == "dbgrel" && !thorough { vec![2usize, 4, 8] } else { vec![2usize, 4, 8, 16] };
    for &n in &sizes {
        sweep::<Blake3_256<B64>>("Blake3_256", n, &mut s);
        if n <= 8 {
            sweep::<Rp64_256>("Rp64_256", n, &mut s);
        }
        if n <= 4 || thorough && n <= 8 {
            sweep::<Sha3_256<B64>>("Sha3_256", n, &mut s);
        }
    }
    s.into_report(
        "every single fault of every honest opening",
        json!({"tree_sizes": sizes, "subsets": "all non-empty index subsets; sorted, reversed, odd-first, rotated (and one transposition up to 8 leaves)", "must_reject": ["Leaf", "Index", "SwapIndexes", "Node", "OutOfRange", "Duplicate", "AppendDuplicate", "Root"],
               "must_not_panic": ["Depth 0..9,31,32,62..65,127,128,255", "DropNodeVec", "AddEmptyNodeVec", "AddNodeVec", "EmptyNodeVec", "ExtendNodeVec", "TruncateNodeVec", "AllNodeVecsEmpty", "NoNodeVecs", "LeavesShorter", "LeavesLonger", "LeavesEmpty", "IndexesEmpty", "IndexesShorter", "IndexesLonger"],
               "entry_points": ["verify", "verify_batch", "get_root", "into_openings", "prove_batch", "prove", "new"]}),
        &mut report,
    );
    report.sample(json!({"tree": "8 leaves", "indexes": [1, 4, 5], "fault": "Index(0, 0): first index replaced by its sibling's", "oracle": "verify_batch = Err, get_root != root"}));
    report.sample(json!({"tree": "4 leaves", "indexes": [2], "fault": "Depth(64)", "oracle": "any Result, no panic (this build variant)"}));
    report.exhaustive = true;
    report.rule = "one case per (hasher, tree, index list, single fault); every case is non-trivial (it changes what the verifier is given)".into();
    report.bounds = json!({"max_leaves": sizes.last(), "faults_per_opening": "all single faults of the listed kinds", "variant": args.variant});
    report.assumptions = vec![
        "rejection is up to hash collisions".into(),
        "a single opening with an out-of-range index or an empty path is outside the statement (only in-range indexes are quantified for `verify`)".into(),
        "an unused extra proof node is a structural malformation here (no panic required); whether it may be accepted is C04's question".into(),
    ];
    report.finish(args)
}
