//! C18 — Merkle trees and their openings are mutually consistent: root = recursive pairwise hash,
//! every single opening verifies, every batch opening of every non-empty duplicate-free index
//! set in any order verifies and reconstructs the root, the three batch routes agree
//! (`prove_batch`, `from_single_proofs`, `into_openings`). Oracle = R5 (refm::merkle).
//!
//! In the `conc` build the same sweep runs with winterfell's `concurrent` feature on top of the
//! controlled scheduler (vrayon), so `MerkleTree::new` beyond 1024 leaves takes the parallel
//! builder under every explored thread count and task order.

use std::collections::BTreeMap;

use mck::{json, Args, Report, Value};
use refm::merkle as r5;
use winter_crypto::hashers::{Blake3_256, Rp64_256, Sha3_256};
use winter_crypto::{BatchMerkleProof, Digest, Hasher, MerkleTree};
use winter_math::fields::f64::BaseElement as B64;
use winter_utils::{Deserializable, Serializable};

use crate::util::Sweep;

pub fn make_leaves<H: Hasher>(n: usize, salt: u8) -> Vec<H::Digest> {
    (0..n).map(|i| H::hash(&[salt, i as u8, (i >> 8) as u8, (i >> 16) as u8, 0x5A])).collect()
}

pub fn merge_fn<H: Hasher>() -> impl Fn(&H::Digest, &H::Digest) -> H::Digest {
    |a: &H::Digest, b: &H::Digest| H::merge(&[*a, *b])
}

pub fn clone_proof<H: Hasher>(p: &BatchMerkleProof<H>) -> BatchMerkleProof<H> {
    BatchMerkleProof { nodes: p.nodes.clone(), depth: p.depth }
}

fn sorted_bytes<D: Digest>(v: impl Iterator<Item = D>) -> Vec<[u8; 32]> {
    let mut o: Vec<[u8; 32]> = v.map(|d| d.as_bytes()).collect();
    o.sort();
    o
}

/// All checks for one (tree, index list in the given order). `order_tag` only labels the case.
fn check_index_list<H: Hasher>(
    hname: &str,
    tree: &MerkleTree<H>,
    heap: &[Option<H::Digest>],
    idx: &[usize],
    order_tag: &str,
    s: &mut Sweep,
) {
    let n = tree.leaves().len();
    let key = format!("{hname}/n={n}/{order_tag}/idx={idx:?}");
    let fail = |s: &mut Sweep, what: &str, detail: String| {
        s.fail(format!("{what}:{hname}"), key.clone(), format!("{hname}, {n} leaves, indexes {idx:?}: {detail}"));
    };
    s.evals += 1;
    if idx.len() > 1 {
        s.nontrivial += 1;
    }
    let root = heap[1].unwrap();
    let res = mck::catch(|| tree.prove_batch(idx));
    let (lv, proof) = match res {
        Err(p) => return fail(s, &format!("panic:prove_batch:{}", p.location), format!("prove_batch panicked: {}", p.message)),
        Ok(Err(e)) => return fail(s, "err:prove_batch", format!("prove_batch refused a non-empty duplicate-free in-range index list: {e}")),
        Ok(Ok(x)) => x,
    };
    // leaves come back in the order of the request
    let want_leaves: Vec<H::Digest> = idx.iter().map(|&i| tree.leaves()[i]).collect();
    if lv != want_leaves {
        fail(s, "wrong:prove_batch:leaves", "returned leaves are not the tree's leaves at the requested indexes, in request order".into());
    }
    if proof.depth as usize != n.trailing_zeros() as usize {
        fail(s, "wrong:prove_batch:depth", format!("depth {} for {n} leaves", proof.depth));
    }
    // the proof holds exactly the nodes a verifier cannot recompute (R5), nothing else
    let needed = r5::needed_nodes(n, idx);
    let want_nodes = sorted_bytes(needed.iter().map(|&k| heap[k].unwrap()));
    let got_nodes = sorted_bytes(proof.nodes.iter().flatten().copied());
    if want_nodes != got_nodes {
        fail(s, "wrong:prove_batch:nodes", format!("proof carries {} nodes, the definition needs {} (or different ones)", got_nodes.len(), want_nodes.len()));
    }
    // reconstruct + verify
    match mck::catch(|| proof.get_root(idx, &lv)) {
        Err(p) => fail(s, &format!("panic:get_root:{}", p.location), p.message),
        Ok(Err(e)) => fail(s, "err:get_root", format!("get_root failed on an honest batch proof: {e}")),
        Ok(Ok(r)) => {
            if r != root {
                fail(s, "wrong:get_root", "reconstructed root differs from the recursive pairwise hash of the leaves".into());
            }
        },
    }
    match mck::catch(|| MerkleTree::<H>::verify_batch(&root, idx, &lv, &proof)) {
        Err(p) => fail(s, &format!("panic:verify_batch:{}", p.location), p.message),
        Ok(Err(e)) => fail(s, "err:verify_batch", format!("verify_batch rejected an honest batch proof: {e}")),
        Ok(Ok(())) => {},
    }
    // route 2: assembled from single openings (given in the same order as the indexes)
    let singles: Vec<(H::Digest, Vec<H::Digest>)> = idx.iter().map(|&i| (tree.leaves()[i], r5::path(heap, i))).collect();
    match mck::catch(|| BatchMerkleProof::<H>::from_single_proofs(&singles, idx)) {
        Err(p) => fail(s, &format!("panic:from_single_proofs:{}", p.location), p.message),
        Ok(b) => {
            if b.nodes != proof.nodes || b.depth != proof.depth {
                fail(s, "wrong:from_single_proofs", "batch proof assembled from single openings differs from the one built directly".into());
            }
        },
    }
    // route 3: expansion back into single openings, in request order
    match mck::catch(|| clone_proof(&proof).into_openings(&lv, idx)) {
        Err(p) => fail(s, &format!("panic:into_openings:{}", p.location), p.message),
        Ok(Err(e)) => fail(s, "err:into_openings", format!("into_openings failed on an honest batch proof: {e}")),
        Ok(Ok(o)) => {
            if o != singles {
                fail(s, "wrong:into_openings", "expanded openings differ from the single openings of the same leaves".into());
            }
        },
    }
    // bytes round trip (also part of C07)
    let bytes = proof.to_bytes();
    match mck::catch(|| BatchMerkleProof::<H>::read_from_bytes(&bytes)) {
        Ok(Ok(b)) if b.nodes == proof.nodes && b.depth == proof.depth => {},
        _ => fail(s, "wrong:serde", "batch proof does not survive its own encoding".into()),
    }
}

fn singles_check<H: Hasher>(hname: &str, tree: &MerkleTree<H>, heap: &[Option<H::Digest>], s: &mut Sweep) {
    let n = tree.leaves().len();
    let root = heap[1].unwrap();
    for i in 0..n {
        s.evals += 1;
        s.nontrivial += 1;
        let key = format!("{hname}/n={n}/single={i}");
        match mck::catch(|| tree.prove(i)) {
            Ok(Ok((leaf, path))) => {
                if leaf != tree.leaves()[i] || path != r5::path(heap, i) {
                    s.fail(format!("wrong:prove:{hname}"), key.clone(), format!("{hname}, {n} leaves: opening of leaf {i} is not (leaf, sibling path)"));
                }
                match mck::catch(|| MerkleTree::<H>::verify(root, i, leaf, &path)) {
                    Ok(Ok(())) => {},
                    _ => s.fail(format!("err:verify:{hname}"), key, format!("{hname}, {n} leaves: honest opening of leaf {i} does not verify")),
                }
            },
            _ => s.fail(format!("err:prove:{hname}"), key, format!("{hname}, {n} leaves: prove({i}) failed")),
        }
    }
}

fn build<H: Hasher>(hname: &str, n: usize, salt: u8, s: &mut Sweep) -> Option<(MerkleTree<H>, Vec<Option<H::Digest>>)> {
    let leaves = make_leaves::<H>(n, salt);
    let m = merge_fn::<H>();
    let heap = r5::heap(&leaves, &m);
    s.evals += 1;
    s.nontrivial += 1;
    let tree = match mck::catch(|| MerkleTree::<H>::new(leaves.clone())) {
        Ok(Ok(t)) => t,
        _ => {
            s.fail(format!("err:new:{hname}"), format!("{hname}/n={n}"), format!("MerkleTree::new failed for {n} leaves"));
            return None;
        },
    };
    if *tree.root() != r5::root(&leaves, &m) || *tree.root() != heap[1].unwrap() {
        s.fail(format!("wrong:root:{hname}"), format!("{hname}/n={n}"), format!("{hname}: root of a {n}-leaf tree differs from the recursive pairwise hash"));
    }
    if tree.depth() != n.trailing_zeros() as usize || tree.leaves() != &leaves[..] {
        s.fail(format!("wrong:accessors:{hname}"), format!("{hname}/n={n}"), "depth() or leaves() wrong".into());
    }
    // the exposed node builder: heap layout, root at 1
    let nodes = winter_crypto::build_merkle_nodes::<H>(&leaves);
    if nodes.len() != n || (1..n).any(|k| nodes[k] != heap[k].unwrap()) {
        s.fail(format!("wrong:build_merkle_nodes:{hname}"), format!("{hname}/n={n}"), "internal nodes differ from the reference heap".into());
    }
    Some((tree, heap))
}

fn permutations(items: &[usize]) -> Vec<Vec<usize>> {
    if items.len() <= 1 {
        return vec![items.to_vec()];
    }
    let mut out = vec![];
    for i in 0..items.len() {
        let mut rest = items.to_vec();
        let x = rest.remove(i);
        for mut p in permutations(&rest) {
            p.insert(0, x);
            out.push(p);
        }
    }
    out
}

fn subset(mask: u64, n: usize) -> Vec<usize> {
    (0..n).filter(|i| mask >> i & 1 == 1).collect()
}

/// every subset, and the alternative orders of each
fn sweep_tree<H: Hasher + Sync>(hname: &str, n: usize, all_perms_up_to: usize, s: &mut Sweep)
where
    H::Digest: Sync,
{
    let Some((tree, heap)) = build::<H>(hname, n, 1, s) else { return };
    singles_check(hname, &tree, &heap, s);
    let total = (1u64 << n) - 1;
    let shards = 64usize.min(total as usize);
    let outs = mck::par_map(shards, |sh| {
        let mut s = Sweep::new();
        let mut mask = 1 + sh as u64;
        while mask <= total {
            let idx = subset(mask, n);
            check_index_list(hname, &tree, &heap, &idx, "sorted", &mut s);
            if idx.len() >= 2 {
                if idx.len() <= all_perms_up_to {
                    for p in permutations(&idx).into_iter().skip(1) {
                        check_index_list(hname, &tree, &heap, &p, "perm", &mut s);
                    }
                } else {
                    let mut rev = idx.clone();
                    rev.reverse();
                    check_index_list(hname, &tree, &heap, &rev, "reversed", &mut s);
                    let mut rot = idx.clone();
                    rot.rotate_left(1);
                    check_index_list(hname, &tree, &heap, &rot, "rotated", &mut s);
                    // odd positions first (interleaves siblings)
                    let mut il: Vec<usize> = idx.iter().copied().filter(|i| i & 1 == 1).collect();
                    il.extend(idx.iter().copied().filter(|i| i & 1 == 0));
                    if il != idx {
                        check_index_list(hname, &tree, &heap, &il, "odd-first", &mut s);
                    }
                }
            }
            mask += shards as u64;
        }
        s
    });
    for o in outs {
        s.absorb(o);
    }
}

/// larger trees: structured index sets
fn sweep_large<H: Hasher>(hname: &str, n: usize, s: &mut Sweep) {
    let Some((tree, heap)) = build::<H>(hname, n, 2, s) else { return };
    let mut sets: Vec<Vec<usize>> = vec![
        vec![0],
        vec![n - 1],
        vec![0, n - 1],
        vec![n / 2 - 1, n / 2],
        (0..n).step_by(2).collect(),
        (0..n).filter(|i| i % 4 == 1).collect(),
        (n / 3..n / 3 + 17.min(n / 2)).collect(),
        (0..n).collect(),
    ];
    // 255 spread positions (what a STARK proof opens), deterministic
    let mut spread: Vec<usize> = (0..255usize).map(|k| (k * 2654435761usize) % n).collect();
    spread.sort();
    spread.dedup();
    sets.push(spread.clone());
    spread.reverse();
    sets.push(spread);
    for idx in sets {
        check_index_list(hname, &tree, &heap, &idx, "structured", s);
    }
    for i in [0, 1, n / 2, n - 1] {
        let (leaf, path) = tree.prove(i).unwrap();
        s.evals += 1;
        if path != r5::path(&heap, i) || MerkleTree::<H>::verify(heap[1].unwrap(), i, leaf, &path).is_err() {
            s.fail(format!("wrong:prove:{hname}"), format!("{hname}/n={n}/single={i}"), "single opening wrong on a large tree".into());
        }
    }
}

pub fn replay_case(v: &Value, s: &mut Sweep) {
    // key: "<hasher>/n=<n>/<tag>/idx=[..]"
    let key = v["case"].as_str().unwrap_or("");
    let parts: Vec<&str> = key.split('/').collect();
    if parts.len() < 2 {
        mck::report::machinery("C18 replay: bad case key");
    }
    let n: usize = parts[1].trim_start_matches("n=").parse().unwrap_or(8);
    let idx: Vec<usize> = key
        .split("idx=[")
        .nth(1)
        .map(|t| t.trim_end_matches(']').split(',').filter_map(|x| x.trim().parse().ok()).collect())
        .unwrap_or_default();
    fn one<H: Hasher>(hname: &str, n: usize, idx: &[usize], s: &mut Sweep) {
        if let Some((tree, heap)) = build::<H>(hname, n, if n > 32 { 2 } else { 1 }, s) {
            singles_check(hname, &tree, &heap, s);
            if !idx.is_empty() {
                check_index_list(hname, &tree, &heap, idx, "replay", s);
            }
        }
    }
    match parts[0] {
        "Blake3_256" => one::<Blake3_256<B64>>("Blake3_256", n, &idx, s),
        "Sha3_256" => one::<Sha3_256<B64>>("Sha3_256", n, &idx, s),
        _ => one::<Rp64_256>("Rp64_256", n, &idx, s),
    }
}

/// conc build: the parallel tree builder under every thread count and every single-region
/// deviation of the controlled scheduler (engine E3), against the reference heap
#[cfg(feature = "conc")]
fn run_conc(args: &Args) -> ! {
    let mut report = Report::new(args, "exploration");
    let thorough = args.tier == mck::Tier::Thorough;
    fn one<H: Hasher>(hname: &str, lg: u32, ts_all: &[usize], ts_dev: &[usize]) -> (Sweep, rayon::ExploreStats) {
        let n = 1usize << lg;
        let leaves = make_leaves::<H>(n, 4);
        let m = merge_fn::<H>();
        let heap = r5::heap(&leaves, &m);
        let mut s = Sweep::new();
        let st = rayon::explore(ts_all, ts_dev, 1, |tag| {
            s.evals += 2;
            s.nontrivial += 2;
            let key = format!("{hname}/n={n} [{tag}]");
            match mck::catch(|| MerkleTree::<H>::new(leaves.clone())) {
                Ok(Ok(t)) => {
                    if *t.root() != heap[1].unwrap() {
                        s.fail(format!("wrong:root:concurrent:{hname}"), key.clone(), format!("{hname}: root of the {n}-leaf tree built by MerkleTree::new differs from the recursive pairwise hash [{tag}]"));
                    }
                    // openings read the internal nodes: a few must still verify
                    for i in [0, n / 2 - 1, n - 1] {
                        let ok = t.prove(i).map(|(l, p)| p == r5::path(&heap, i) && l == leaves[i]).unwrap_or(false);
                        if !ok {
                            s.fail(format!("wrong:nodes:concurrent:{hname}"), key.clone(), format!("{hname}: opening {i} of the {n}-leaf tree reads wrong internal nodes [{tag}]"));
                        }
                    }
                },
                _ => s.fail(format!("err:new:concurrent:{hname}"), key.clone(), format!("MerkleTree::new failed [{tag}]")),
            }
            if n <= winter_crypto::concurrent::MIN_CONCURRENT_LEAVES {
                return; // the library never routes such a tree to the parallel builder
            }
            match mck::catch(|| winter_crypto::concurrent::build_merkle_nodes::<H>(&leaves)) {
                Ok(nodes) => {
                    if nodes.len() != n || (1..n).any(|k| nodes[k] != heap[k].unwrap()) {
                        let bad = (1..n).find(|k| nodes.get(*k) != heap[*k].as_ref());
                        s.fail(format!("wrong:build_merkle_nodes:concurrent:{hname}"), key, format!("{hname}: concurrent::build_merkle_nodes on {n} leaves: node {bad:?} differs from the reference heap [{tag}]"));
                    }
                },
                Err(p) => s.fail(format!("panic:build_merkle_nodes:concurrent:{}", p.location), key, format!("panicked: {} [{tag}]", p.message)),
            }
        });
        (s, st)
    }
    // thread counts up to 256 (large servers): the builder derives sub-tree counts from them
    let ts_all = [1usize, 2, 3, 4, 5, 8, 16, 24, 32, 64, 96, 128, 192, 256];
    let ts_dev: Vec<usize> = if thorough { vec![2, 3, 4, 8, 16] } else { vec![2, 4, 8] };
    // trees from 2^8 leaves: whatever MerkleTree::new routes to the parallel builder must be right
    let logs: Vec<u32> = if thorough { vec![8, 9, 10, 11, 12, 13, 14] } else { vec![8, 9, 10, 11, 12] };
    let mut jobs: Vec<(u8, u32)> = logs.iter().map(|l| (0u8, *l)).collect();
    // every other hasher on one tree above the threshold (merge and merge_many of two digests differ for
    // the Jive hasher only; the parallel builder must use the hasher's own pairwise merge everywhere)
    for h in 1..=5u8 {
        jobs.push((h, 11));
    }
    let outs = mck::par_map(jobs.len(), |j| {
        use winter_crypto::hashers::{Blake3_192, Rp62_248, RpJive64_256};
        use winter_math::fields::f62::BaseElement as B62;
        match jobs[j].0 {
            0 => one::<Blake3_256<B64>>("Blake3_256", jobs[j].1, &ts_all, &ts_dev),
            1 => one::<Rp64_256>("Rp64_256", jobs[j].1, &ts_all, &ts_dev),
            2 => one::<RpJive64_256>("RpJive64_256", jobs[j].1, &ts_all, &ts_dev),
            3 => one::<Sha3_256<B64>>("Sha3_256", jobs[j].1, &ts_all, &ts_dev),
            4 => one::<Blake3_192<B64>>("Blake3_192", jobs[j].1, &ts_all, &ts_dev),
            _ => one::<Rp62_248>("Rp62_248", jobs[j].1, &ts_all, &ts_dev),
        }
    });
    let (mut evals, mut sched, mut nontrivial, mut tasks) = (0, 0, 0, 0);
    let mut regions = vec![];
    for ((_, l), (s, st)) in jobs.iter().zip(outs) {
        evals += s.evals;
        sched += st.schedules;
        nontrivial += st.nontrivial;
        tasks += st.task_runs;
        regions.push(json!({"log2_leaves": l, "regions_(threads,total,multi)": st.regions}));
        report.violations(s.viol);
        for (c, n) in s.more {
            report.count_more(&c, n);
        }
    }
    report.part("conc build under the controlled scheduler: MerkleTree::new and concurrent::build_merkle_nodes vs the reference heap, T in {1,2,3,4,5,8,16}, every region in every alternative order", evals, nontrivial,
        json!({"schedules": sched, "task_executions": tasks, "regions": regions}));
    report.exhaustive = true;
    report.bounds = json!({"log2_leaves": logs, "thread_counts": ts_all.to_vec(), "deviation_bound": 1, "variant": args.variant});
    report.rule = "one case per (hasher, tree size, entry point, schedule); non-trivial = all (each compares every internal node)".into();
    report.assumptions = vec!["tasks are atomic (no scheduling point inside a task)".into()];
    report.finish(args)
}

pub fn run(args: &Args) {
    #[cfg(feature = "conc")]
    if args.variant.starts_with("conc") && args.replay.is_none() {
        run_conc(args);
    }
    let mut report = Report::new(args, "exploration");
    if let Some(v) = args.replay_value() {
        let mut s = Sweep::new();
        replay_case(&v, &mut s);
        s.into_report("replay", json!({}), &mut report);
        report.finish(args)
    }
    let thorough = args.tier == mck::Tier::Thorough;
    let mut parts: BTreeMap<String, (u64, u64)> = BTreeMap::new();
    let mut s = Sweep::new();
    // every subset of 2..16 leaves; all orders of subsets of size <= 4 at <= 8 leaves
    for n in [2usize, 4, 8, 16] {
        let before = (s.evals, s.nontrivial);
        sweep_tree::<Blake3_256<B64>>("Blake3_256", n, if n <= 8 { 4 } else { 0 }, &mut s);
        if n <= 8 || thorough {
            sweep_tree::<Sha3_256<B64>>("Sha3_256", n, if n <= 8 { 3 } else { 0 }, &mut s);
        }
        if n <= 8 || thorough {
            sweep_tree::<Rp64_256>("Rp64_256", n, if n <= 8 { 3 } else { 0 }, &mut s);
        }
        parts.insert(format!("{n} leaves"), (s.evals - before.0, s.nontrivial - before.1));
    }
    s.into_report(
        "all index subsets x orders, three routes",
        json!({"per_tree_size": parts.iter().map(|(k, v)| json!({"tree": k, "index_lists": v.0})).collect::<Vec<_>>(),
               "orders": "every permutation of subsets of size <= 4 (Blake3) / <= 3 (Sha3, Rp64) up to 8 leaves; sorted, reversed, rotated, odd-first beyond"}),
        &mut report,
    );
    let mut s = Sweep::new();
    let top = if thorough { 14 } else { 12 };
    for lg in 5..=top {
        sweep_large::<Blake3_256<B64>>("Blake3_256", 1 << lg, &mut s);
        if lg <= 11 {
            sweep_large::<Rp64_256>("Rp64_256", 1 << lg, &mut s);
        }
    }
    s.into_report("trees of 32..2^k leaves (both sides of the 1024-leaf parallel switch), structured index sets", json!({"max_log2_leaves": top}), &mut report);
    if thorough {
        // 32 leaves: every subset of size <= 3 and every complement of one
        let mut s = Sweep::new();
        if let Some((tree, heap)) = build::<Blake3_256<B64>>("Blake3_256", 32, 1, &mut s) {
            let n = 32usize;
            let mut lists: Vec<Vec<usize>> = vec![];
            for a in 0..n {
                lists.push(vec![a]);
                for b in a + 1..n {
                    lists.push(vec![a, b]);
                    lists.push(vec![b, a]);
                    for c in b + 1..n {
                        lists.push(vec![a, b, c]);
                        lists.push(vec![c, a, b]);
                    }
                }
            }
            for a in 0..n {
                lists.push((0..n).filter(|i| *i != a).collect());
            }
            let outs = mck::par_map(lists.len(), |i| {
                let mut s = Sweep::new();
                check_index_list("Blake3_256", &tree, &heap, &lists[i], "k<=3", &mut s);
                s
            });
            for o in outs {
                s.absorb(o);
            }
        }
        s.into_report("32 leaves: all subsets of size <= 3 (two orders) and all co-singletons", json!({}), &mut report);
    }
    report.sample(json!({"tree": "16 leaves, Blake3_256", "indexes": [3, 2, 9], "oracle": "leaves in request order; proof nodes = exactly the R5 needed set; get_root/verify_batch ok; from_single_proofs == prove_batch; into_openings == sibling paths"}));
    report.exhaustive = true;
    report.rule = "one case per (hasher, tree, ordered index list); non-trivial = lists with at least two indexes (shared internal nodes, sibling pairs, ordering)".into();
    report.bounds = json!({"exhaustive_subsets_up_to_leaves": 16, "all_permutations_up_to": "subset size 4 at <= 8 leaves", "large_trees_log2": format!("5..={top}"), "variant": args.variant});
    report.assumptions = vec![
        "H::merge is the 2-to-1 hash the reference uses (its byte layout is C15/C16's subject)".into(),
        "leaves are pairwise distinct digests, so node multisets identify node positions".into(),
    ];
    report.finish(args)
}
