//! Shared helpers: violation collector and representation classes of field elements.

use mck::{json, Violation};
use winter_math::fields::{f128, f62, f64};
use winter_math::{FieldElement, StarkField};
use winter_utils::AsBytes;

pub struct Sweep {
    pub evals: u64,
    pub nontrivial: u64,
    pub viol: Vec<Violation>,
    pub more: Vec<(String, u64)>,
}

impl Sweep {
    pub fn new() -> Sweep {
        Sweep { evals: 0, nontrivial: 0, viol: vec![], more: vec![] }
    }
    pub fn fail(&mut self, class: String, key: String, detail: String) {
        if self.viol.iter().filter(|v| v.class == class).count() < 3 {
            self.viol.push(Violation { class, key: key.clone(), detail, replay: json!({"case": key}) });
        } else if let Some(m) = self.more.iter_mut().find(|(c, _)| *c == class) {
            m.1 += 1;
        } else {
            self.more.push((class, 1));
        }
    }
    pub fn into_report(self, name: &str, note: mck::Value, report: &mut mck::Report) {
        report.part(name, self.evals, self.nontrivial, note);
        report.violations(self.viol);
        for (c, n) in self.more {
            report.count_more(&c, n);
        }
    }
    pub fn absorb(&mut self, o: Sweep) {
        self.evals += o.evals;
        self.nontrivial += o.nontrivial;
        for v in o.viol {
            let c = v.class.clone();
            if self.viol.iter().filter(|x| x.class == c).count() < 3 {
                self.viol.push(v);
            } else {
                self.more.push((c, 1));
            }
        }
        self.more.extend(o.more);
    }
}

pub trait Base: StarkField {
    const NAME: &'static str;
    const M: u128;
    fn int(e: Self) -> u128;
    fn raw(e: Self) -> u128;
    fn from_int(v: u128) -> Self;
}
impl Base for f64::BaseElement {
    const NAME: &'static str = "f64";
    const M: u128 = refm::field::M64;
    fn int(e: Self) -> u128 {
        e.as_int() as u128
    }
    fn raw(e: Self) -> u128 {
        e.inner() as u128
    }
    fn from_int(v: u128) -> Self {
        Self::new(v as u64)
    }
}
impl Base for f62::BaseElement {
    const NAME: &'static str = "f62";
    const M: u128 = refm::field::M62;
    fn int(e: Self) -> u128 {
        e.as_int() as u128
    }
    fn raw(e: Self) -> u128 {
        u64::from_le_bytes(e.as_bytes().try_into().unwrap()) as u128
    }
    fn from_int(v: u128) -> Self {
        Self::new(v as u64)
    }
}
impl Base for f128::BaseElement {
    const NAME: &'static str = "f128";
    const M: u128 = refm::field::M128;
    fn int(e: Self) -> u128 {
        e.as_int()
    }
    fn raw(e: Self) -> u128 {
        u128::from_le_bytes(e.as_bytes().try_into().unwrap())
    }
    fn from_int(v: u128) -> Self {
        Self::new(v)
    }
}

/// For each value of a small boundary list: every distinct internal representation reachable
/// by a handful of short operation paths (the paths C10's search showed to leave the canonical
/// range where the field allows it).
pub fn representation_classes<B: Base>() -> Vec<Vec<B>> {
    let vals: Vec<u128> = vec![0, 1, 2, 255, 1 << 32, B::M / 2, B::M - 2, B::M - 1];
    let mut out = vec![];
    for v in vals {
        let c = B::from_int(v);
        let one = B::ONE;
        let half = B::from_int(v / 2);
        let rest = B::from_int(v - v / 2);
        let cands = [
            c,
            (c + one) - one,
            (c - one) + one,
            -(-c),
            half + rest,
            c + (one - one),
            (B::ZERO - one) + (c + one),
            c.double() - c,
            c * one,
            (c - B::from_int(B::M - 1)) - one - one + one, // c + 1 - 1 - 1 + 1 through negative side
        ];
        let mut class: Vec<B> = vec![];
        for e in cands {
            assert_eq!(B::int(e), v, "representation path changed the value");
            if !class.iter().any(|x| B::raw(*x) == B::raw(e)) {
                class.push(e);
            }
        }
        out.push(class);
    }
    out
}

pub fn le(v: u128, n: usize) -> Vec<u8> {
    v.to_le_bytes()[..n].to_vec()
}

pub fn canonical_bytes<B: Base, E: FieldElement<BaseField = B>>(elems: &[E]) -> Vec<u8> {
    let mut out = vec![];
    for e in elems {
        for i in 0..E::EXTENSION_DEGREE {
            out.extend(le(B::int(e.base_element(i)), B::ELEMENT_BYTES));
        }
    }
    out
}
