//! C16 — the three Rescue-Prime hashers against the definitional reference R6: permutation and
//! single rounds on every state over small alphabets, and the documented absorption rules of
//! hash / hash_elements / merge / merge_many / merge_with_int.

use mck::{json, Args, Report};
use refm::field::{Prime, M62, M64};
use refm::rescue::{Layout, Rescue};
use winter_crypto::hashers::{Rp62_248, Rp64_256, RpJive64_256};
use winter_crypto::{Digest, ElementHasher, Hasher};
use winter_math::fields::{f62, f64, CubeExtension, QuadExtension};
use winter_math::{FieldElement, StarkField};

use crate::c15::INTS;
use crate::rp62_consts;
use crate::util::{Base, Sweep};

type B64 = f64::BaseElement;
type B62 = f62::BaseElement;

fn table64<const W: usize, const R: usize>(t: &[[B64; W]; R]) -> Vec<Vec<u128>> {
    t.iter().map(|r| r.iter().map(|e| e.as_int() as u128).collect()).collect()
}
fn table_u64<const W: usize, const R: usize>(t: &[[u64; W]; R]) -> Vec<Vec<u128>> {
    t.iter().map(|r| r.iter().map(|e| *e as u128).collect()).collect()
}

pub fn ref_rp64() -> (Rescue, Layout) {
    (
        Rescue::new(Prime::new(M64), 7, table64(&Rp64_256::MDS), table64(&Rp64_256::ARK1), table64(&Rp64_256::ARK2)),
        Layout { rate: 4..12, digest: 4..8, count_at: 0, jive: false },
    )
}
pub fn ref_jive() -> (Rescue, Layout) {
    (
        Rescue::new(Prime::new(M64), 7, table64(&RpJive64_256::MDS), table64(&RpJive64_256::ARK1), table64(&RpJive64_256::ARK2)),
        Layout { rate: 4..8, digest: 4..8, count_at: 0, jive: true },
    )
}
pub fn ref_rp62() -> (Rescue, Layout) {
    (
        Rescue::new(Prime::new(M62), 3, table_u64(&rp62_consts::MDS), table_u64(&rp62_consts::ARK1), table_u64(&rp62_consts::ARK2)),
        Layout { rate: 0..8, digest: 0..4, count_at: 11, jive: false },
    )
}

fn fingerprint(t: &[Vec<u128>]) -> u64 {
    let mut bytes = vec![];
    for r in t {
        for v in r {
            bytes.extend(v.to_le_bytes());
        }
    }
    mck::fnv(&bytes)
}

/// fingerprints of the public constant tables at the pinned commit (an edited constant is reported)
const PINNED: [(&str, u64); 6] = [
    ("Rp64_256.MDS", 0x4426aa9fb05d5c25),
    ("Rp64_256.ARK1", 0xdb3950d4cf479dbf),
    ("Rp64_256.ARK2", 0xf52e7f6c7acd7a8a),
    ("RpJive64_256.MDS", 0xe0b50e45f31cf325),
    ("RpJive64_256.ARK1", 0x774d4605ce6ff022),
    ("RpJive64_256.ARK2", 0x894786ac77b454ee),
];

fn state_of<const W: usize>(idx: usize, alpha: &[u64]) -> ([B64; W], Vec<u128>) {
    let mut s = [B64::ZERO; W];
    let mut v = vec![0u128; W];
    let mut i = idx;
    for k in 0..W {
        let a = alpha[i % alpha.len()];
        i /= alpha.len();
        s[k] = B64::new(a);
        v[k] = a as u128;
    }
    (s, v)
}

fn digest_bytes(vals: &[u128]) -> [u8; 32] {
    let mut b = [0u8; 32];
    for (i, v) in vals.iter().enumerate() {
        b[8 * i..8 * i + 8].copy_from_slice(&(*v as u64).to_le_bytes());
    }
    b
}

/// permutation and rounds over every state of an alphabet; `count` states starting from 0
fn perm_sweep<const W: usize>(
    name: &str,
    r: &Rescue,
    alpha: &[u64],
    count: usize,
    permute: fn(&mut [B64; W]),
    round: fn(&mut [B64; W], usize),
) -> Sweep {
    let chunks = 256usize;
    let per = count.div_ceil(chunks);
    let outs = mck::par_map(chunks, |c| {
        let mut s = Sweep::new();
        for idx in c * per..((c + 1) * per).min(count) {
            let (mut st, mut v) = state_of::<W>(idx, alpha);
            s.evals += 1;
            s.nontrivial += 1;
            // one round (index = idx mod rounds, so that every round index is exercised)
            let ri = idx % r.rounds();
            let (mut st1, mut v1) = (st, v.clone());
            round(&mut st1, ri);
            r.round(&mut v1, ri);
            let got1: Vec<u128> = st1.iter().map(|e| e.as_int() as u128).collect();
            if got1 != v1 {
                s.fail(format!("wrong:{name}:apply_round"), format!("{name}/round={ri}/state={idx}"), format!("{name}::apply_round({ri}) on state #{idx} over {alpha:?} = {got1:?}, reference {v1:?}"));
            }
            permute(&mut st);
            r.permute(&mut v);
            let got: Vec<u128> = st.iter().map(|e| e.as_int() as u128).collect();
            if got != v {
                s.fail(format!("wrong:{name}:apply_permutation"), format!("{name}/state={idx}"), format!("{name}::apply_permutation on state #{idx} over {alpha:?} = {got:?}, reference {v:?}"));
            }
            if let Some(e) = st.iter().find(|e| e.inner() as u128 >= M64) {
                s.fail(format!("noncanonical_output:{name}:apply_permutation"), format!("{name}/state={idx}"), format!("{name}::apply_permutation on state #{idx} over {alpha:?} leaves limb {:#x} >= M in the state", e.inner()));
            }
        }
        s
    });
    let mut total = Sweep::new();
    for o in outs {
        total.absorb(o);
    }
    total
}

fn pattern(len: usize) -> Vec<u8> {
    (0..len).map(|i| (i as u8).wrapping_mul(151).wrapping_add(3)).collect()
}

/// absorption rules for one hasher over f64
fn rules64<H>(name: &str, r: &Rescue, l: &Layout, max_bytes: usize, s: &mut Sweep)
where
    H: ElementHasher<BaseField = B64>,
    H::Digest: Digest,
{
    let elems: Vec<u128> = vec![0, 1, 2, M64 - 1, 1 << 32, (1 << 32) - 1, M64 - (1 << 32), 12345678901234567, M64 / 2];
    // hash(bytes)
    for len in 0..=max_bytes {
        for variant in 0..2 {
            let b = if variant == 0 { pattern(len) } else { vec![0xFFu8; len] };
            s.evals += 1;
            s.nontrivial += 1;
            let key = format!("{name}/hash/len={len}/variant={variant}");
            match mck::catch(|| H::hash(&b).as_bytes()) {
                Err(p) => s.fail(format!("panic:{name}:hash:{}", p.location), key, format!("{name}::hash panicked at {} ({}) on a {len}-byte input", p.location, p.message)),
                Ok(got) => {
                    let e = digest_bytes(&r.hash_bytes(l, &b));
                    if got != e {
                        s.fail(format!("wrong:{name}:hash"), key, format!("{name}::hash of a {len}-byte input differs from the documented absorption rule (7-byte chunks, 1-byte terminator, length injection)"));
                    }
                }
            }
        }
    }
    // hash_elements
    for len in 0..=40usize {
        for rot in 0..3 {
            let vals: Vec<u128> = (0..len).map(|i| elems[(i * 2 + rot) % elems.len()]).collect();
            let list: Vec<B64> = vals.iter().map(|v| B64::new(*v as u64)).collect();
            s.evals += 1;
            s.nontrivial += 1;
            if H::hash_elements(&list).as_bytes() != digest_bytes(&r.hash_elements(l, &vals)) {
                s.fail(format!("wrong:{name}:hash_elements"), format!("{name}/hash_elements/len={len}/rot={rot}"), format!("{name}::hash_elements of {len} elements differs from the documented sponge"));
            }
        }
    }
    // hash_elements of quadratic and cubic extension elements: the sponge absorbs their base-field
    // coefficients in order (padding decided by the number of base elements)
    for len in 0..=24usize {
        for rot in 0..3 {
            let vals: Vec<u128> = (0..len * 2).map(|i| elems[(i * 2 + rot) % elems.len()]).collect();
            let list: Vec<QuadExtension<B64>> = vals.chunks(2).map(|c| QuadExtension::new(B64::new(c[0] as u64), B64::new(c[1] as u64))).collect();
            s.evals += 1;
            s.nontrivial += 1;
            if H::hash_elements(&list).as_bytes() != digest_bytes(&r.hash_elements(l, &vals)) {
                s.fail(format!("wrong:{name}:hash_elements_quadratic"), format!("{name}/hash_elements/quad/len={len}/rot={rot}"), format!("{name}::hash_elements of {len} quadratic elements differs from the documented sponge over their {} base coefficients", len * 2));
            }
            let vals: Vec<u128> = (0..len * 3).map(|i| elems[(i * 2 + rot) % elems.len()]).collect();
            let list: Vec<CubeExtension<B64>> = vals.chunks(3).map(|c| CubeExtension::new(B64::new(c[0] as u64), B64::new(c[1] as u64), B64::new(c[2] as u64))).collect();
            s.evals += 1;
            s.nontrivial += 1;
            if H::hash_elements(&list).as_bytes() != digest_bytes(&r.hash_elements(l, &vals)) {
                s.fail(format!("wrong:{name}:hash_elements_cubic"), format!("{name}/hash_elements/cubic/len={len}/rot={rot}"), format!("{name}::hash_elements of {len} cubic elements differs from the documented sponge over their {} base coefficients", len * 3));
            }
        }
    }
    // digests for merge*: produced by the hasher itself
    let ds: Vec<H::Digest> = (0..4).map(|i| H::hash_elements(&[B64::new(i as u64 + 1)])).collect();
    let dv = |d: &H::Digest| -> Vec<u128> { (0..4).map(|i| u64::from_le_bytes(d.as_bytes()[8 * i..8 * i + 8].try_into().unwrap()) as u128).collect() };
    for a in &ds {
        for b in &ds {
            s.evals += 1;
            s.nontrivial += 1;
            let mut all = dv(a);
            all.extend(dv(b));
            let expect = if l.jive {
                let mut st = all.clone();
                r.permute(&mut st);
                (0..4).map(|i| r.p.add(r.p.add(all[i], all[4 + i]), r.p.add(st[i], st[4 + i]))).collect::<Vec<_>>()
            } else {
                r.hash_elements(l, &all)
            };
            if H::merge(&[*a, *b]).as_bytes() != digest_bytes(&expect) {
                s.fail(format!("wrong:{name}:merge"), format!("{name}/merge"), format!("{name}::merge differs from the documented rule ({})", if l.jive { "Jive compression" } else { "hash of the 8 elements" }));
            }
            if !l.jive {
                // sponge variants: merge == hash_elements of the eight elements
                let list: Vec<B64> = all.iter().map(|v| B64::new(*v as u64)).collect();
                if H::merge(&[*a, *b]).as_bytes() != H::hash_elements(&list).as_bytes() {
                    s.fail(format!("inconsistent:{name}:merge_vs_hash_elements"), format!("{name}/merge"), format!("{name}::merge of two digests differs from hash_elements of their eight elements"));
                }
            }
        }
    }
    for len in 0..=5usize {
        let list: Vec<H::Digest> = (0..len).map(|i| ds[(i * 3 + 1) % ds.len()]).collect();
        let vals: Vec<u128> = list.iter().flat_map(dv).collect();
        s.evals += 1;
        s.nontrivial += 1;
        if H::merge_many(&list).as_bytes() != digest_bytes(&r.hash_elements(l, &vals)) {
            s.fail(format!("wrong:{name}:merge_many"), format!("{name}/merge_many/len={len}"), format!("{name}::merge_many of {len} digests differs from the sponge over all their elements"));
        }
    }
    for a in &ds {
        for v in INTS {
            s.evals += 1;
            s.nontrivial += 1;
            let m = r.p.m;
            let v = v as u128;
            let expect = if l.jive {
                let mut st = vec![0u128; 8];
                st[..4].copy_from_slice(&dv(a));
                st[4] = v % m;
                if v < m {
                    st[7] = 5;
                } else {
                    st[5] = v / m;
                    st[7] = 6;
                }
                let init = st.clone();
                r.permute(&mut st);
                (0..4).map(|i| r.p.add(r.p.add(init[i], init[4 + i]), r.p.add(st[i], st[4 + i]))).collect::<Vec<_>>()
            } else {
                let mut vals = dv(a);
                vals.push(v % m);
                if v >= m {
                    vals.push(v / m);
                }
                r.hash_elements(l, &vals)
            };
            if H::merge_with_int(*a, v as u64).as_bytes() != digest_bytes(&expect) {
                s.fail(format!("wrong:{name}:merge_with_int"), format!("{name}/merge_with_int/{v}"), format!("{name}::merge_with_int(seed, {v}) differs from the documented rule"));
            }
        }
    }
}

/// Rp62_248 exposes no permutation: everything goes through the hasher functions. Digests are
/// 4 elements packed into 31 bytes; element values are recovered through `Digest::as_bytes`
/// of hashes we can also feed back as elements via hash_elements.
fn rules62(r: &Rescue, l: &Layout, max_bytes: usize, s: &mut Sweep) {
    let name = "Rp62_248";
    type H = Rp62_248;
    // 31-byte packing documented for the digest: 4 x 62 bits, little-endian bit stream
    let pack = |vals: &[u128]| -> [u8; 32] {
        let mut acc = [0u8; 32];
        let mut bit = 0usize;
        for v in vals {
            for k in 0..62 {
                if (v >> k) & 1 == 1 {
                    acc[(bit + k) / 8] |= 1 << ((bit + k) % 8);
                }
            }
            bit += 62;
        }
        acc
    };
    let elems: Vec<u128> = vec![0, 1, 2, M62 - 1, 1 << 32, M62 / 2, 987654321987654321 % M62];
    for len in 0..=max_bytes {
        for variant in 0..2 {
            let b = if variant == 0 { pattern(len) } else { vec![0xFFu8; len] };
            s.evals += 1;
            s.nontrivial += 1;
            let key = format!("{name}/hash/len={len}/variant={variant}");
            match mck::catch(|| H::hash(&b).as_bytes()) {
                Err(p) => s.fail(format!("panic:{name}:hash:{}", p.location), key, format!("{name}::hash panicked at {} ({}) on a {len}-byte input", p.location, p.message)),
                Ok(got) => {
                    if got != pack(&r.hash_bytes(l, &b)) {
                        s.fail(format!("wrong:{name}:hash"), key, format!("{name}::hash of a {len}-byte input differs from the documented absorption rule"));
                    }
                }
            }
        }
    }
    // hash_elements over lists incl. all 3^8 single-block inputs over {0,1,M-1}: this is the
    // permutation on every such state with the count in the capacity
    let tern = [0u128, 1, M62 - 1];
    let total = 3usize.pow(8);
    let outs = mck::par_map(64, |c| {
        let mut s = Sweep::new();
        let per = total.div_ceil(64);
        for idx in c * per..((c + 1) * per).min(total) {
            let mut i = idx;
            let vals: Vec<u128> = (0..8).map(|_| { let v = tern[i % 3]; i /= 3; v }).collect();
            let list: Vec<B62> = vals.iter().map(|v| B62::new(*v as u64)).collect();
            s.evals += 1;
            s.nontrivial += 1;
            if H::hash_elements(&list).as_bytes() != pack(&r.hash_elements(l, &vals)) {
                s.fail(format!("wrong:{name}:permutation_via_hash_elements"), format!("{name}/block={idx}"), format!("{name}::hash_elements({vals:?}) differs from the reference permutation"));
            }
        }
        s
    });
    for o in outs {
        s.absorb(o);
    }
    for len in 0..=40usize {
        for rot in 0..3 {
            let vals: Vec<u128> = (0..len).map(|i| elems[(i * 2 + rot) % elems.len()]).collect();
            let list: Vec<B62> = vals.iter().map(|v| B62::new(*v as u64)).collect();
            s.evals += 1;
            s.nontrivial += 1;
            if H::hash_elements(&list).as_bytes() != pack(&r.hash_elements(l, &vals)) {
                s.fail(format!("wrong:{name}:hash_elements"), format!("{name}/hash_elements/len={len}/rot={rot}"), format!("{name}::hash_elements of {len} elements differs from the documented sponge"));
            }
        }
    }
    for len in 0..=24usize {
        for rot in 0..3 {
            let vals: Vec<u128> = (0..len * 2).map(|i| elems[(i * 2 + rot) % elems.len()]).collect();
            let list: Vec<QuadExtension<B62>> = vals.chunks(2).map(|c| QuadExtension::new(B62::new(c[0] as u64), B62::new(c[1] as u64))).collect();
            s.evals += 1;
            s.nontrivial += 1;
            if H::hash_elements(&list).as_bytes() != pack(&r.hash_elements(l, &vals)) {
                s.fail(format!("wrong:{name}:hash_elements_quadratic"), format!("{name}/hash_elements/quad/len={len}/rot={rot}"), format!("{name}::hash_elements of {len} quadratic elements differs from the documented sponge over their {} base coefficients", len * 2));
            }
            let vals: Vec<u128> = (0..len * 3).map(|i| elems[(i * 2 + rot) % elems.len()]).collect();
            let list: Vec<CubeExtension<B62>> = vals.chunks(3).map(|c| CubeExtension::new(B62::new(c[0] as u64), B62::new(c[1] as u64), B62::new(c[2] as u64))).collect();
            s.evals += 1;
            s.nontrivial += 1;
            if H::hash_elements(&list).as_bytes() != pack(&r.hash_elements(l, &vals)) {
                s.fail(format!("wrong:{name}:hash_elements_cubic"), format!("{name}/hash_elements/cubic/len={len}/rot={rot}"), format!("{name}::hash_elements of {len} cubic elements differs from the documented sponge over their {} base coefficients", len * 3));
            }
        }
    }
    // merge / merge_many / merge_with_int: digests are produced by the reference *and* the
    // implementation from the same element lists, so their element values are known
    let seeds: Vec<Vec<u128>> = (0..4).map(|i| vec![i as u128 + 1]).collect();
    let ds: Vec<<H as Hasher>::Digest> = seeds.iter().map(|v| H::hash_elements(&[B62::new(v[0] as u64)])).collect();
    let dvals: Vec<Vec<u128>> = seeds.iter().map(|v| r.hash_elements(l, v)).collect();
    for (a, av) in ds.iter().zip(&dvals) {
        for (b, bv) in ds.iter().zip(&dvals) {
            s.evals += 1;
            s.nontrivial += 1;
            let mut all = av.clone();
            all.extend(bv.clone());
            if H::merge(&[*a, *b]).as_bytes() != pack(&r.hash_elements(l, &all)) {
                s.fail(format!("wrong:{name}:merge"), format!("{name}/merge"), format!("{name}::merge differs from hashing the eight elements"));
            }
        }
        for v in INTS {
            s.evals += 1;
            s.nontrivial += 1;
            let v = v as u128;
            let mut vals = av.clone();
            vals.push(v % M62);
            if v >= M62 {
                vals.push(v / M62);
            }
            if H::merge_with_int(*a, v as u64).as_bytes() != pack(&r.hash_elements(l, &vals)) {
                s.fail(format!("wrong:{name}:merge_with_int"), format!("{name}/merge_with_int/{v}"), format!("{name}::merge_with_int(seed, {v}) differs from the documented rule"));
            }
        }
    }
    for len in 0..=5usize {
        let idx: Vec<usize> = (0..len).map(|i| (i * 3 + 1) % ds.len()).collect();
        let list: Vec<_> = idx.iter().map(|i| ds[*i]).collect();
        let vals: Vec<u128> = idx.iter().flat_map(|i| dvals[*i].clone()).collect();
        s.evals += 1;
        s.nontrivial += 1;
        if H::merge_many(&list).as_bytes() != pack(&r.hash_elements(l, &vals)) {
            s.fail(format!("wrong:{name}:merge_many"), format!("{name}/merge_many/len={len}"), format!("{name}::merge_many of {len} digests differs from the sponge over their elements"));
        }
    }
}

fn mds_inverse<const W: usize>(name: &str, mds: &[[B64; W]; W], inv: &[[B64; W]; W], s: &mut Sweep) {
    let p = Prime::new(M64);
    for i in 0..W {
        for j in 0..W {
            let mut acc = 0u128;
            for k in 0..W {
                acc = p.add(acc, p.mul(mds[i][k].as_int() as u128, inv[k][j].as_int() as u128));
            }
            s.evals += 1;
            if acc != (i == j) as u128 {
                s.fail(format!("wrong:{name}:INV_MDS"), format!("{name}/({i},{j})"), format!("{name}: MDS x INV_MDS has {acc} at ({i},{j})"));
            }
        }
    }
}

pub fn run(args: &Args) {
    let mut report = Report::new(args, "exploration");
    let thorough = args.tier == mck::Tier::Thorough;
    let (r64, l64) = ref_rp64();
    let (rj, lj) = ref_jive();
    let (r62, l62) = ref_rp62();
    // constant fingerprints
    let fps = [
        ("Rp64_256.MDS", fingerprint(&r64.mds)),
        ("Rp64_256.ARK1", fingerprint(&r64.ark1)),
        ("Rp64_256.ARK2", fingerprint(&r64.ark2)),
        ("RpJive64_256.MDS", fingerprint(&rj.mds)),
        ("RpJive64_256.ARK1", fingerprint(&rj.ark1)),
        ("RpJive64_256.ARK2", fingerprint(&rj.ark2)),
    ];
    let mut consts = Sweep::new();
    for ((n, got), (_, pinned)) in fps.iter().zip(PINNED.iter()) {
        consts.evals += 1;
        if *pinned == 0 {
            eprintln!("PIN {n} = {got:#x}");
        } else if got != pinned {
            consts.fail(format!("constant_table_changed:{n}"), n.to_string(), format!("{n}: fingerprint {got:#x} differs from the pinned commit's {pinned:#x}"));
        }
    }
    mds_inverse("Rp64_256", &Rp64_256::MDS, &Rp64_256::INV_MDS, &mut consts);
    mds_inverse("RpJive64_256", &RpJive64_256::MDS, &RpJive64_256::INV_MDS, &mut consts);
    consts.nontrivial = consts.evals;
    consts.into_report("constant tables", json!({"fingerprints": fps.iter().map(|(n, f)| format!("{n}={f:#x}")).collect::<Vec<_>>(), "inv_alpha_64": r64.inv_alpha.to_string(), "inv_alpha_62": r62.inv_alpha.to_string()}), &mut report);

    let a1: Vec<u64> = vec![0, 1, (M64 - 1) as u64];
    let a2: Vec<u64> = vec![(1 << 32) - 1, 1 << 32, (M64 - (1 << 32)) as u64];
    let a4: Vec<u64> = vec![0, 1, (M64 - 1) as u64, 1 << 32];
    let n12 = if thorough { 3usize.pow(12) } else { 3usize.pow(10) };
    perm_sweep::<12>("Rp64_256", &r64, &a1, n12, Rp64_256::apply_permutation, Rp64_256::apply_round)
        .into_report("Rp64_256 permutation, alphabet {0,1,-1}", json!({"states": n12}), &mut report);
    perm_sweep::<12>("Rp64_256", &r64, &a2, n12 / 3, Rp64_256::apply_permutation, Rp64_256::apply_round)
        .into_report("Rp64_256 permutation, limb-split alphabet {2^32-1, 2^32, M-2^32}", json!({"states": n12 / 3}), &mut report);
    let n8 = if thorough { 4usize.pow(8) } else { 4usize.pow(7) };
    perm_sweep::<8>("RpJive64_256", &rj, &a4, n8, RpJive64_256::apply_permutation, RpJive64_256::apply_round)
        .into_report("RpJive64_256 permutation, alphabet {0,1,-1,2^32}", json!({"states": n8}), &mut report);
    perm_sweep::<8>("RpJive64_256", &rj, &a2, 3usize.pow(8), RpJive64_256::apply_permutation, RpJive64_256::apply_round)
        .into_report("RpJive64_256 permutation, limb-split alphabet", json!({"states": 3usize.pow(8)}), &mut report);

    let max_bytes = if thorough { 300 } else { 120 };
    let mut s = Sweep::new();
    rules64::<Rp64_256>("Rp64_256", &r64, &l64, max_bytes, &mut s);
    rules64::<RpJive64_256>("RpJive64_256", &rj, &lj, max_bytes, &mut s);
    rules62(&r62, &l62, max_bytes, &mut s);
    s.into_report("absorption rules", json!({"hash_byte_lengths": format!("0..={max_bytes}"), "hash_elements_lists": "0..=40 base, 0..=24 quadratic and cubic", "merge_many": "0..=5", "rp62_single_block_inputs": 6561}), &mut report);

    report.sample(json!({"hasher": "Rp64_256", "function": "apply_permutation", "state": "[0,1,-1,0,0,0,0,0,0,0,0,0]", "oracle": "7 rounds of x^7, dense 12x12 MDS, ARK1, x^(1/7), MDS, ARK2 over canonical integers"}));
    report.sample(json!({"hasher": "Rp62_248", "function": "hash", "input": "57 bytes", "oracle": "9 elements from 7-byte chunks, last one followed by a 1 byte, count 9 in the capacity"}));
    report.exhaustive = true;
    report.rule = "one case per state (permutation/round) or per (hasher, function, input shape); all distinct; each is compared with the reference".into();
    report.assumptions = vec![
        "trusted base: the MDS / ARK tables of the pinned commit (public ones are fingerprinted, Rp62_248's private ones are copied into rp62_consts.rs)".into(),
        "the inverse S-box exponent is derived by the reference (alpha^-1 mod p-1), not taken from the code".into(),
    ];
    let _ = <B64 as StarkField>::MODULUS;
    let _ = <B62 as Base>::NAME;
    report.finish(args)
}
